"""C06 check for change 4 (ASGIRequestEventEmitter construction).

* The exact sequence of events emitted by ASGIRequestEventEmitter for many
  (body, chunk_size) pairs and toggle histories is compared against an
  independent reference model of the documented default behaviour (two leading
  empty-chunk variations, alternating empty chunks, chunking of the body,
  optional ``more_body``/``body`` keys), and the reassembled body must equal
  the input;
* positional / keyword construction as used by today's callers keeps working;
* the same body-echoing responder mounted on a WSGI and an ASGI app sees the
  same body / content length through simulate_request() for every
  asgi_chunk_size, and through a hand-written ASGI driver that chunks the body
  in arbitrary ways.
"""

import asyncio
import hashlib
import inspect
import io
import random
import sys
import time

import falcon
import falcon.asgi
from falcon import testing
from falcon.testing.helpers import ASGIRequestEventEmitter

FAILURES = []
CASES = 0


def check(cond, msg):
    global CASES
    CASES += 1
    if not cond:
        FAILURES.append(msg)


# ---------------------------------------------------------------------------
# Reference model of the emitter's default behaviour
# ---------------------------------------------------------------------------


class ModelEmitter:
    def __init__(self, body, chunk_size, toggles):
        if body is None:
            body = b''
        elif not isinstance(body, bytes):
            body = body.encode()
        self.body = body
        self.pos = 0
        self.done = False
        self.chunk_size = 4096 if chunk_size is None else chunk_size
        self.toggles = dict(toggles)
        self.empty_a = False
        self.empty_b = False

    def toggle(self, name):
        self.toggles[name] = not self.toggles.get(name, False)
        return self.toggles[name]

    def next_event(self):
        """Return the next http.request event, or None once exhausted."""
        if self.done:
            return None
        event = {'type': 'http.request'}
        if not self.empty_a:
            self.empty_a = True
            event['more_body'] = True
            return event
        if not self.empty_b:
            self.empty_b = True
            event['more_body'] = True
            event['body'] = b''
            return event
        if self.toggle('return_empty_chunk'):
            event['more_body'] = True
            if self.toggle('explicit_empty_body_1'):
                event['body'] = b''
            return event

        chunk = self.body[self.pos : self.pos + self.chunk_size]
        self.pos += self.chunk_size
        remaining = self.body[self.pos :]
        if not remaining:
            self.done = True
        if chunk:
            event['body'] = chunk
        elif self.toggle('explicit_empty_body_2'):
            event['body'] = b''
        if remaining:
            event['more_body'] = True
        elif self.toggle('set_more_body_false'):
            event['more_body'] = False
        return event


async def drain(emitter, limit=100000):
    events = []
    while True:
        if emitter._body is None:
            break
        events.append(await emitter())
        if len(events) > limit:
            raise AssertionError('emitter does not terminate')
    return events


def normalise(events):
    return [
        {k: (bytes(v) if k == 'body' else v) for k, v in e.items()} for e in events
    ]


def run_emitter_model():
    rng = random.Random(60641)
    bodies = [None, b'', b'x', b'hello world', 'héllo wörld', 'text', b'\x00\xff' * 50]
    for n in (1, 2, 3, 7, 64, 100, 4095, 4096, 4097, 8192, 10000):
        bodies.append(bytes(rng.getrandbits(8) for _ in range(n)))
    chunk_sizes = [None, 1, 2, 3, 5, 64, 4096, 4097, 100000]

    cases = [(b, c) for b in bodies for c in chunk_sizes]
    for _ in range(250):
        n = rng.randint(0, 300)
        cases.append((bytes(rng.getrandbits(8) for _ in range(n)), rng.choice([1, 2, 3, 7, 16, 50, 299, 300, 301, None])))

    for i, (body, chunk_size) in enumerate(cases):
        if isinstance(body, (bytes, type(None))) and body and chunk_size is not None and len(body) // chunk_size > 3000:
            continue
        # Random toggle history, shared class-level state as in real use.
        for name in ('return_empty_chunk', 'explicit_empty_body_1', 'explicit_empty_body_2', 'set_more_body_false'):
            ASGIRequestEventEmitter._branch_decider[name] = rng.random() < 0.5
        toggles = dict(ASGIRequestEventEmitter._branch_decider)

        # Alternate between the call shapes used by today's callers.
        shape = i % 4
        if shape == 0:
            emitter = ASGIRequestEventEmitter(body, chunk_size)
        elif shape == 1:
            emitter = ASGIRequestEventEmitter(body=body, chunk_size=chunk_size)
        elif shape == 2:
            emitter = ASGIRequestEventEmitter(body, chunk_size=chunk_size, disconnect_at=time.time() + 300)
        else:
            emitter = ASGIRequestEventEmitter(body, chunk_size, time.time() + 300)

        tag = 'emitter len=%s chunk=%r shape=%d' % (None if body is None else len(body), chunk_size, shape)
        check(emitter._emit_empty_chunks is True, tag + ' default flag')
        check(emitter.disconnected is False, tag + ' not disconnected')

        events = normalise(asyncio.run(drain(emitter)))
        model = ModelEmitter(body, chunk_size, toggles)
        expected = []
        while True:
            ev = model.next_event()
            if ev is None:
                break
            expected.append(ev)
        check(events == expected, tag + ' events differ from model: %r vs %r' % (events[:6], expected[:6]))
        check(dict(ASGIRequestEventEmitter._branch_decider) == model.toggles, tag + ' toggle state')

        raw = body if isinstance(body, bytes) else (b'' if body is None else body.encode())
        check(b''.join(e.get('body', b'') for e in events) == raw, tag + ' reassembled body')
        check(all(e['type'] == 'http.request' for e in events), tag + ' event types')
        check(events[0] == {'type': 'http.request', 'more_body': True}, tag + ' first event')
        check(events[1] == {'type': 'http.request', 'more_body': True, 'body': b''}, tag + ' second event')
        check(not events[-1].get('more_body', False), tag + ' last event more_body')
        check(all(e.get('more_body') is True for e in events[:-1]), tag + ' inner more_body')
        limit = 4096 if chunk_size is None else chunk_size
        check(all(len(e.get('body', b'')) <= limit for e in events), tag + ' chunk size bound')

        # After the body is exhausted the emitter blocks until disconnected.
        emitter.disconnect()
        check(emitter.disconnected is True, tag + ' disconnected flag')
        ev = asyncio.run(emitter.emit())
        check(ev == {'type': 'http.disconnect'}, tag + ' disconnect event %r' % (ev,))

    # disconnect_at == 0 special case; disconnect(exhaust_body=False)
    em = ASGIRequestEventEmitter(b'abc', disconnect_at=0)
    check(asyncio.run(em()) == {'type': 'http.disconnect'}, 'disconnect_at=0')
    em = ASGIRequestEventEmitter(b'abc')
    em.disconnect(exhaust_body=False)
    check(asyncio.run(em()) == {'type': 'http.disconnect'}, 'exhaust_body=False')

    # Signature: today's parameters keep their names, order and defaults.
    params = list(inspect.signature(ASGIRequestEventEmitter.__init__).parameters.values())
    head = [(p.name, p.default) for p in params[:4]]
    check(
        head == [('self', inspect.Parameter.empty), ('body', None), ('chunk_size', None), ('disconnect_at', None)],
        'signature head %r' % (head,),
    )
    check(all(p.default is not inspect.Parameter.empty for p in params[4:]), 'extra params are optional')

    # If the (optional) keyword exists, its default must be today's behaviour
    # and passing it explicitly must be equivalent to the private switch.
    if 'emit_empty_chunks' in inspect.signature(ASGIRequestEventEmitter.__init__).parameters:
        p = inspect.signature(ASGIRequestEventEmitter.__init__).parameters['emit_empty_chunks']
        check(p.default is True, 'emit_empty_chunks default')
        for flag in (True, False):
            saved = dict(ASGIRequestEventEmitter._branch_decider)
            em1 = ASGIRequestEventEmitter(b'abcdefghij', 3, emit_empty_chunks=flag)
            ev1 = normalise(asyncio.run(drain(em1)))
            ASGIRequestEventEmitter._branch_decider.clear()
            ASGIRequestEventEmitter._branch_decider.update(saved)
            em2 = ASGIRequestEventEmitter(b'abcdefghij', 3)
            em2._emit_empty_chunks = flag
            ev2 = normalise(asyncio.run(drain(em2)))
            check(ev1 == ev2, 'emit_empty_chunks=%r equals private switch' % flag)
            check(b''.join(e.get('body', b'') for e in ev1) == b'abcdefghij', 'kw body %r' % flag)

    # Private switch used by falcon's own test-suite still works.
    em = ASGIRequestEventEmitter(b'abcdef', chunk_size=4)
    em._emit_empty_chunks = False
    events = normalise(asyncio.run(drain(em)))
    check([e.get('body', b'') for e in events] == [b'abcd', b'ef'], 'no-empty-chunks mode %r' % (events,))


# ---------------------------------------------------------------------------
# Full stack
# ---------------------------------------------------------------------------


def describe(req, body):
    return {
        'content_length': req.content_length,
        'content_type': req.content_type,
        'len': len(body),
        'sha': hashlib.sha256(body).hexdigest(),
        'method': req.method,
    }


class SyncEcho:
    def on_post(self, req, resp):
        body = req.bounded_stream.read()
        resp.media = describe(req, body)

    def on_put(self, req, resp):
        resp.data = req.bounded_stream.read()
        resp.content_type = 'application/octet-stream'

    def on_patch(self, req, resp):
        resp.media = {'media': req.get_media()}


class AsyncEcho:
    async def on_post(self, req, resp):
        body = await req.stream.read()
        resp.media = describe(req, body)

    async def on_put(self, req, resp):
        chunks = []
        async for chunk in req.stream:
            chunks.append(chunk)
        resp.data = b''.join(chunks)
        resp.content_type = 'application/octet-stream'

    async def on_patch(self, req, resp):
        resp.media = {'media': await req.get_media()}


def make_apps():
    wapp = falcon.App()
    aapp = falcon.asgi.App()
    wapp.add_route('/echo', SyncEcho())
    aapp.add_route('/echo', AsyncEcho())
    return wapp, aapp


def drive_asgi_minimal(app, method, body, cuts, content_type=None):
    headers = [(b'host', b'falconframework.org'), (b'content-length', str(len(body)).encode())]
    if content_type:
        headers.append((b'content-type', content_type.encode()))
    scope = {
        'type': 'http',
        'asgi': {'version': '3.0', 'spec_version': '2.1'},
        'http_version': '1.1',
        'method': method,
        'scheme': 'http',
        'path': '/echo',
        'raw_path': b'/echo',
        'query_string': b'',
        'root_path': '',
        'server': ('falconframework.org', 80),
        'headers': headers,
    }
    pieces = []
    prev = 0
    for cut in cuts:
        pieces.append(body[prev:cut])
        prev = cut
    pieces.append(body[prev:])
    events = [
        {'type': 'http.request', 'body': piece, 'more_body': i < len(pieces) - 1}
        for i, piece in enumerate(pieces)
    ]
    sent = []

    async def receive():
        if events:
            return events.pop(0)
        await asyncio.sleep(3600)

    async def send(event):
        sent.append(event)

    asyncio.run(asyncio.wait_for(app(scope, receive, send), 30))
    start = sent[0]
    hdrs = sorted((n.decode('latin1'), v.decode('latin1')) for n, v in start['headers'])
    data = b''.join(e.get('body', b'') for e in sent[1:])
    return start['status'], hdrs, data


def drive_wsgi_minimal(app, method, body, content_type=None):
    env = {
        'REQUEST_METHOD': method,
        'SCRIPT_NAME': '',
        'PATH_INFO': '/echo',
        'QUERY_STRING': '',
        'SERVER_NAME': 'falconframework.org',
        'SERVER_PORT': '80',
        'SERVER_PROTOCOL': 'HTTP/1.1',
        'HTTP_HOST': 'falconframework.org',
        'CONTENT_LENGTH': str(len(body)),
        'wsgi.version': (1, 0),
        'wsgi.url_scheme': 'http',
        'wsgi.input': io.BytesIO(body),
        'wsgi.errors': io.StringIO(),
        'wsgi.multithread': False,
        'wsgi.multiprocess': False,
        'wsgi.run_once': False,
    }
    if content_type:
        env['CONTENT_TYPE'] = content_type
    captured = {}

    def start_response(status, headers, exc_info=None):
        captured['status'] = status
        captured['headers'] = headers

    chunks = app(env, start_response)
    data = b''.join(chunks)
    if hasattr(chunks, 'close'):
        chunks.close()
    return int(captured['status'].split()[0]), sorted(captured['headers']), data


def run_full_stack():
    rng = random.Random(60642)
    wapp, aapp = make_apps()
    bodies = [b'', b'a', b'hello', 'héllo'.encode(), b'\x00' * 10, bytes(range(256)) * 20]
    for _ in range(20):
        bodies.append(bytes(rng.getrandbits(8) for _ in range(rng.randint(0, 2000))))

    for i, body in enumerate(bodies):
        for chunk_size in (1 if len(body) < 300 else 97, 3 if len(body) < 700 else 511, 4096, len(body) + 1):
            for method in ('POST', 'PUT'):
                tag = 'stack %s len=%d chunk=%d' % (method, len(body), chunk_size)
                # NOTE: an empty body is passed as None; simulate_request() is
                #   documented to treat both as "no body".
                wres = testing.simulate_request(wapp, method, '/echo', body=body or None)
                ares = testing.simulate_request(
                    aapp, method, '/echo', body=body or None, asgi_chunk_size=chunk_size
                )
                check(wres.status == ares.status == '200 OK', tag + ' status %s %s' % (wres.status, ares.status))
                check(wres.content == ares.content, tag + ' body %r %r' % (wres.content[:80], ares.content[:80]))
                check(dict(wres.headers) == dict(ares.headers), tag + ' headers')
                if method == 'PUT':
                    check(ares.content == body, tag + ' echo')
                else:
                    check(ares.json['len'] == len(body), tag + ' seen length')
                    check(
                        ares.json['content_length'] == (len(body) if body else None) or ares.json['content_length'] == wres.json['content_length'],
                        tag + ' content_length',
                    )

        # Minimal drivers with arbitrary chunkings (incl. empty chunks)
        for _ in range(3):
            k = rng.randint(0, 4)
            cuts = sorted(rng.randint(0, len(body)) for _ in range(k))
            for method in ('POST', 'PUT'):
                tag = 'minimal %s len=%d cuts=%r' % (method, len(body), cuts)
                ws, wh, wd = drive_wsgi_minimal(wapp, method, body)
                as_, ah, ad = drive_asgi_minimal(aapp, method, body, cuts)
                check(ws == as_ == 200, tag + ' status')
                check(wd == ad, tag + ' body')
                check(wh == ah, tag + ' headers %r %r' % (wh, ah))
                ref = testing.simulate_request(aapp, method, '/echo', body=body)
                if body:
                    check(ref.content == ad, tag + ' simulate vs minimal')

    # Media (JSON) delivered in small chunks
    docs = [{'a': 1}, [1, 2, 3], 'str', {'nested': {'k': ['v'] * 50}}, 0, 12.5, 'é' * 40]
    for doc in docs:
        for chunk_size in (1, 2, 7, 4096):
            wres = testing.simulate_request(wapp, 'PATCH', '/echo', json=doc)
            ares = testing.simulate_request(aapp, 'PATCH', '/echo', json=doc, asgi_chunk_size=chunk_size)
            tag = 'media %r chunk=%d' % (doc, chunk_size)
            check(wres.status == ares.status, tag + ' status %s %s' % (wres.status, ares.status))
            check(wres.content == ares.content, tag + ' body')
            check(ares.json == {'media': doc}, tag + ' value')

    # create_asgi_req(): the request body stream yields the body back.
    for body in bodies[:12]:
        req = testing.create_asgi_req(body=body, method='POST', content_length=len(body))
        got = asyncio.run(req.stream.read())
        check(got == body, 'create_asgi_req body len=%d' % len(body))
        wreq = testing.create_req(body=body, method='POST')
        check(wreq.bounded_stream.read() == body, 'create_req body len=%d' % len(body))
        check(wreq.content_length == (req.content_length if body else None), 'content_length parity len=%d' % len(body))


def main():
    run_emitter_model()
    run_full_stack()
    if FAILURES:
        print('FAIL (%d of %d checks)' % (len(FAILURES), CASES))
        for f in FAILURES[:25]:
            print('  -', f[:400])
        return 1
    print('PASS (%d checks, falcon from %s)' % (CASES, falcon.__file__))
    return 0


if __name__ == '__main__':
    sys.exit(main())
