"""check.py for C07 / change 2 (kind 6: extraction of a private helper).

Run as:  PYTHONPATH=<falcon tree> /venv/bin/python check.py

Exercises "request body streams deliver exactly the declared body" on the
WSGI and the ASGI BoundedStream (directly and through falcon.Request /
falcon.asgi.Request) over ~2000 generated operation histories, comparing
every result with a small reference model, checking the property's
invariants independently (prefix of the first Content-Length bytes, sized
reads never too long, the server stream/receive() never asked beyond the
declared length or after the last event, tell()/eof agree with what was
returned, a disconnect ends the stream instead of blocking), and finally
comparing a digest of the whole transcript with the one recorded on the
unmodified tree.  The change-specific part (focus) checks, for every
budget/size combination, the exact size the WSGI wrapper hands to the raw
stream from read/readline/readlines/next (the clamp that was extracted).
"""

import hashlib
import io
import logging
import sys

import falcon
import falcon.asgi
from falcon.asgi.stream import BoundedStream as ASGIStream
from falcon.errors import OperationNotAllowed
from falcon.stream import BoundedStream as WSGIStream
import falcon.testing as testing

CLOSED_MSG = 'This stream is closed; no further operations on it are permitted.'
ITER_MSG = 'This stream is already being iterated over.'

TRANSCRIPT = hashlib.sha256()
COUNTS = {'wsgi': 0, 'asgi': 0, 'wsgi_ops': 0, 'asgi_ops': 0, 'req': 0}


def note(*parts):
    TRANSCRIPT.update((' '.join(repr(p) for p in parts) + '\n').encode())


def check(cond, *msg):
    if not cond:
        raise AssertionError(' '.join(str(m) for m in msg))


class LCG:
    """Tiny platform-independent PRNG, so that cases never change."""

    def __init__(self, seed):
        self.s = (seed * 2654435761 + 12345) & 0xFFFFFFFFFFFFFFFF
        for _ in range(3):
            self.next()

    def next(self):
        self.s = (self.s * 6364136223846793005 + 1442695040888963407) & (2**64 - 1)
        return self.s >> 33

    def randint(self, a, b):
        return a + self.next() % (b - a + 1)

    def choice(self, seq):
        return seq[self.next() % len(seq)]

    def chance(self, num, den):
        return self.next() % den < num


def gen_body(rng, maxlen=40):
    n = rng.choice([0, 0, 1, 2, 3, 5, 8, 13, 21, maxlen, rng.randint(0, maxlen)])
    alphabet = b'ab\n\nc\r\x00\xff'
    return bytes(alphabet[rng.next() % len(alphabet)] for _ in range(n))


# ---------------------------------------------------------------------------
# WSGI
# ---------------------------------------------------------------------------


class Raw:
    """A wsgi.input double that records what it is asked for.

    In "short" mode read(n) may return fewer than n bytes (as sockets do).
    It raises if it is ever asked for bytes beyond the declared length,
    for a negative/None size (an unbounded, blocking read).
    """

    def __init__(self, data, limit, short_seed=None, police=True):
        self.data = data
        self.pos = 0
        self.limit = limit
        self.police = police
        self.rng = LCG(short_seed) if short_seed is not None else None
        self.requests = 0

    def _police(self, n):
        self.requests += 1
        if not self.police:
            return
        check(type(n) is int, 'raw stream asked with non-int size', repr(n))
        check(n >= 0, 'raw stream asked for an unbounded read', n)
        check(
            self.pos + n <= self.limit,
            'raw stream asked beyond Content-Length',
            self.pos,
            n,
            self.limit,
        )

    def read(self, n=-1):
        self._police(n)
        if n is None or n < 0:
            n = len(self.data) - self.pos
        if self.rng is not None and n > 1:
            n = self.rng.randint(1, n)
        out = self.data[self.pos : self.pos + n]
        self.pos += len(out)
        return out

    def readline(self, n=-1):
        self._police(n)
        if n is None or n < 0:
            n = len(self.data) - self.pos
        end = min(self.pos + n, len(self.data))
        i = self.data.find(b'\n', self.pos, end)
        if i >= 0:
            end = i + 1
        out = self.data[self.pos : end]
        self.pos += len(out)
        return out


class WSGIModel:
    """Reference model: a budget of `cl` bytes over the raw stream."""

    def __init__(self, raw, cl):
        self.raw = raw
        self.rem = cl

    def _n(self, size):
        if size is None:
            return self.rem
        if size < 0:
            return self.rem
        return min(size, self.rem)

    def read(self, size=None):
        out = self.raw.read(self._n(size))
        self.rem -= len(out)
        return out

    def readline(self, limit=None):
        out = self.raw.readline(self._n(limit))
        self.rem -= len(out)
        return out

    def readlines(self, hint=None):
        hint = self._n(hint)
        lines = []
        total = 0
        while total < hint:
            line = self.readline()
            if not line:
                break
            lines.append(line)
            total += len(line)
        return lines

    def next(self):
        line = self.readline()
        if not line:
            raise StopIteration
        return line

    def exhaust(self, *args):
        chunk = args[0] if args else 64 * 1024
        while self.read(chunk):
            pass

    @property
    def eof(self):
        return self.rem <= 0


def wsgi_apply(s, op, is_model):
    name, arg = op
    try:
        if name == 'read':
            return ('ok', s.read(*arg))
        if name == 'readline':
            return ('ok', s.readline(*arg))
        if name == 'readlines':
            return ('ok', s.readlines(*arg))
        if name == 'next':
            if is_model:
                return ('ok', s.next())
            return ('ok', next(s) if arg == 0 else s.next())
        if name == 'iterall':
            if is_model:
                out = []
                while True:
                    try:
                        out.append(s.next())
                    except StopIteration:
                        return ('ok', out)
            check(iter(s) is s, 'iter(stream) must be the stream')
            return ('ok', [line for line in s])
        if name == 'iterfew':
            out = []
            if is_model:
                for _ in range(arg):
                    try:
                        out.append(s.next())
                    except StopIteration:
                        break
                return ('ok', out)
            for line in s:
                out.append(line)
                if len(out) >= arg:
                    break
            return ('ok', out)
        if name == 'exhaust':
            return ('ok', s.exhaust(*arg))
        if name == 'eof':
            return ('ok', s.eof)
    except StopIteration:
        return ('stop',)
    raise RuntimeError(op)


def gen_wsgi_ops(rng, n):
    sizes = [None, -1, -7, 0, 1, 2, 3, 4, 7, 10, 50, 10**9]
    ops = []
    for _ in range(n):
        k = rng.randint(0, 19)
        if k <= 5:
            a = rng.choice(sizes)
            ops.append(('read', () if rng.chance(1, 6) else (a,)))
        elif k <= 9:
            a = rng.choice(sizes)
            ops.append(('readline', () if rng.chance(1, 3) else (a,)))
        elif k <= 11:
            a = rng.choice(sizes)
            ops.append(('readlines', () if rng.chance(1, 3) else (a,)))
        elif k <= 13:
            ops.append(('next', rng.randint(0, 1)))
        elif k == 14:
            ops.append(('iterfew', rng.randint(1, 3)))
        elif k == 15:
            ops.append(('iterall', None))
        elif k == 16:
            ops.append(
                ('exhaust', () if rng.chance(1, 2) else (rng.choice([1, 2, 3, 64]),))
            )
        else:
            ops.append(('eof', None))
    # Always end by draining, in one of several ways, so that "the whole of
    #   it once end-of-stream is reported" is checked.
    ops.append(
        rng.choice(
            [
                ('read', ()),
                ('read', (None,)),
                ('read', (-1,)),
                ('exhaust', ()),
                ('iterall', None),
                ('readlines', ()),
                ('eof', None),
            ]
        )
    )
    ops.append(('eof', None))
    ops.append(('read', (5,)))
    return ops


def flatten(v):
    if v is None or isinstance(v, bool):
        return b''
    if isinstance(v, list):
        return b''.join(v)
    return v


def run_wsgi_case(case_id, data, cl, short_seed, ops, via_request):
    raw = Raw(data, cl, short_seed)
    mraw = Raw(data, cl, short_seed)
    if via_request:
        env = testing.create_environ(method='POST')
        env['wsgi.input'] = raw
        env['CONTENT_LENGTH'] = str(cl)
        req = falcon.Request(env)
        stream = req.bounded_stream
        check(req.bounded_stream is stream, 'bounded_stream must be cached')
        check(req.stream is raw, 'req.stream must be the raw wsgi.input')
    else:
        stream = WSGIStream(raw, cl)
    check(stream.stream is raw and stream.stream_len == cl, 'public attrs')
    check(stream.readable() and not stream.seekable() and not stream.writable())
    model = WSGIModel(mraw, cl)
    expected_all = data[:cl]

    for i, op in enumerate(ops):
        where = ('wsgi', case_id, i, op, data, cl, short_seed)
        p0 = raw.pos
        got = wsgi_apply(stream, op, False)
        exp = wsgi_apply(model, op, True)
        check(got == exp, 'model mismatch', where, got, exp)
        note('w', case_id, i, op, got)
        COUNTS['wsgi_ops'] += 1
        check(raw.pos == mraw.pos, 'raw position mismatch', where)
        check(raw.pos <= cl, 'over-read', where)
        if got[0] == 'ok' and op[0] not in ('exhaust', 'eof'):
            piece = flatten(got[1])
            check(
                piece == expected_all[p0 : raw.pos],
                'bytes lost or invented',
                where,
                piece,
            )
            if op[0] in ('read', 'readline') and op[1] and op[1][0] is not None:
                if op[1][0] >= 0:
                    check(len(piece) <= op[1][0], 'sized read too long', where)
            if op[0] in ('next',):
                check(len(piece) > 0, 'empty line from next', where)
        if op[0] == 'exhaust':
            check(raw.pos == min(cl, len(data)), 'exhaust left data', where)
        if op[0] == 'read' and short_seed is None and (
            not op[1] or op[1][0] is None or op[1][0] < 0
        ):
            check(raw.pos == min(cl, len(data)), 'unsized read left data', where)
        # end-of-stream indicator agrees with what was consumed
        check(stream.eof == (raw.pos >= cl), 'eof disagrees', where, raw.pos, cl)
        if stream.eof:
            check(raw.pos == cl, 'eof but not whole body', where)
    COUNTS['wsgi'] += 1


def run_wsgi(seed_base, n_cases):
    for c in range(n_cases):
        rng = LCG(seed_base + c)
        data = gen_body(rng)
        cl = rng.choice(
            [
                0,
                len(data),
                len(data),
                max(0, len(data) - 1),
                max(0, len(data) - rng.randint(0, len(data))),
                len(data) + 1,
                len(data) + rng.randint(1, 9),
                1,
            ]
        )
        short_seed = rng.randint(1, 10**6) if rng.chance(1, 3) else None
        ops = gen_wsgi_ops(rng, rng.randint(1, 9))
        run_wsgi_case(c, data, cl, short_seed, ops, via_request=rng.chance(1, 4))

    # hard-coded corner cases (expectations taken from the unmodified tree)
    def fresh(data=b'ab\ncd\n\nef', cl=None):
        return WSGIStream(io.BytesIO(data), len(data) if cl is None else cl)

    s = fresh()
    check(s.readline() == b'ab\n' and s.read(2) == b'cd' and not s.eof)
    check(s.readline(10**6) == b'\n' and s.readline(-1) == b'\n')
    check(s.readlines() == [b'ef'] and s.eof and s.read() == b'')
    check(s.readline() == b'' and s.readlines() == [] and list(s) == [])
    s = fresh(cl=4)
    check(s.readline(2) == b'ab' and s.readline() == b'\n' and s.readline() == b'c')
    check(s.eof and s.stream.tell() == 4)
    s = fresh(cl=5)
    check(list(s) == [b'ab\n', b'cd'] and s.eof and s.stream.tell() == 5)
    s = fresh(cl=7)
    check(s.readlines(1) == [b'ab\n'] and s.readlines(4) == [b'cd\n', b'\n'])
    check(s.eof and s.stream.tell() == 7)
    s = fresh(cl=7)
    check(s.readlines(0) == [] and s.readlines(-1) == [b'ab\n', b'cd\n', b'\n'])
    s = fresh(cl=0)
    check(s.eof and s.read() == b'' and s.read(3) == b'' and s.stream.tell() == 0)
    s = fresh(cl=100)
    check(s.read() == b'ab\ncd\n\nef' and not s.eof and s.read(1) == b'')
    s = fresh()
    check(s.exhaust() is None and s.eof and s.stream.tell() == 9)
    s = fresh()
    check(s.read(0) == b'' and s.read(-5) == b'ab\ncd\n\nef')
    s = fresh()
    for bad in ('3', 2.5j, b'1', [1]):
        for meth in (s.read, s.readline, s.readlines):
            try:
                meth(bad)
            except TypeError:
                pass
            else:
                raise AssertionError('expected TypeError for %r' % (bad,))
    check(s.read() == b'ab\ncd\n\nef', 'failed calls must not consume budget')
    try:
        fresh().write(b'x')
    except IOError as ex:
        check(str(ex) == 'Stream is not writeable')
    else:
        raise AssertionError('write must raise')
    check(falcon.stream.Body is WSGIStream and falcon.BoundedStream is WSGIStream)


def run_wsgi_request_wrapping():
    """Lazy wrapping with Content-Length (falcon.Request)."""
    body = b'hello\nworld'
    table = [
        (None, 0),
        ('', 0),
        ('0', 0),
        ('5', 5),
        ('11', 11),
        ('20', 20),
        (' 7 ', 7),
        ('+3', 3),
        ('abc', 0),
        ('-1', 0),
        ('1.5', 0),
        ('0x10', 0),
    ]
    for value, want in table:
        env = testing.create_environ(method='POST', body=body)
        raw = Raw(body, want)
        env['wsgi.input'] = raw
        if value is None:
            env.pop('CONTENT_LENGTH', None)
        else:
            env['CONTENT_LENGTH'] = value
        req = falcon.Request(env)
        check(req._bounded_stream is None, 'wrapping must be lazy')
        bs = req.bounded_stream
        check(bs is req.bounded_stream and type(bs) is WSGIStream)
        check(bs.stream is raw and bs.stream_len == want, value, bs.stream_len)
        check(raw.requests == 0, 'wrapping must not read')
        check(bs.read() == body[:want] and bs.eof == (want <= len(body)), value)
        check(bs.read(1) == b'' and raw.pos == min(want, len(body)))
        note('wr', value, want)
        COUNTS['req'] += 1


# ---------------------------------------------------------------------------
# ASGI
# ---------------------------------------------------------------------------


def drive(awaitable):
    """Run a coroutine that must complete without ever suspending."""
    it = awaitable.__await__() if not hasattr(awaitable, 'send') else awaitable
    try:
        it.send(None)
    except StopIteration as ex:
        return ex.value
    raise AssertionError('the stream blocked (awaited something not ready)')


class Feed:
    """ASGI receive() double; polices over-asking."""

    def __init__(self, events, preloaded, cl, police=True):
        self.events = events
        self.i = preloaded  # number of events already handed out (first_event)
        self.calls = 0
        self.cl = cl
        self.police = police
        self.delivered_bytes = 0
        self.terminal = False
        for ev in events[:preloaded]:
            self._account(ev)

    def _account(self, ev):
        self.delivered_bytes += len(ev.get('body', b''))
        if ev['type'] == 'http.disconnect' or not ev.get('more_body'):
            self.terminal = True

    def take(self):
        self.calls += 1
        if self.police:
            check(not self.terminal, 'receive() called after the last event')
            check(
                self.cl is None or self.delivered_bytes < self.cl,
                'receive() called although Content-Length bytes were received',
            )
        if self.i < len(self.events):
            ev = self.events[self.i]
            self.i += 1
        else:
            ev = {'type': 'http.disconnect'}
        self._account(ev)
        return dict(ev)

    async def __call__(self):
        return self.take()


class ASGIModel:
    def __init__(self, feed, first_event, cl):
        self.feed = feed
        self.closed = False
        self.started = False
        self.pos = 0
        first = b''
        if first_event and 'body' in first_event:
            first = first_event['body']
        if cl is None:
            self.buf = first
            self.rem = 2**63
        else:
            self.buf = first[:cl]
            self.rem = cl - len(self.buf)
        if first_event and self.rem and not first_event.get('more_body'):
            self.rem = 0

    @property
    def eof(self):
        return self.buf == b'' and self.rem == 0

    def tell(self):
        return self.pos

    def close(self):
        if not self.closed:
            self.buf = b''
            self.rem = 0
            self.closed = True

    def _pull(self):
        """Receive one event; return its (clamped) body or None if no body."""
        ev = self.feed.take()
        chunk = None
        if 'body' in ev:
            chunk = ev['body'][: self.rem]
            self.rem -= len(chunk)
        return ev, chunk

    def exhaust(self):
        if self.closed:
            raise ValueError(CLOSED_MSG)
        self.pos += len(self.buf)
        self.buf = b''
        while self.rem > 0:
            ev, chunk = self._pull()
            if ev['type'] == 'http.disconnect':
                self.rem = 0
                continue
            self.pos += len(chunk or b'')
            if not ev.get('more_body'):
                self.rem = 0

    def readall(self):
        if self.closed:
            raise OperationNotAllowed(CLOSED_MSG)
        data = self.buf
        self.buf = b''
        while self.rem > 0:
            ev, chunk = self._pull()
            data += chunk or b''
            if not ev.get('more_body'):
                self.rem = 0
        self.pos += len(data)
        return data

    def read(self, size=None):
        if self.closed:
            raise OperationNotAllowed(CLOSED_MSG)
        if self.eof:
            return b''
        if size is None or size == -1:
            return self.readall()
        if size <= 0:
            return b''
        avail = self.buf
        while self.rem > 0 and len(avail) < size:
            ev, chunk = self._pull()
            avail += chunk or b''
            if not ev.get('more_body'):
                self.rem = 0
        data, self.buf = avail[:size], avail[size:]
        self.pos += len(data)
        return data

    def iterate(self):
        if self.closed:
            raise OperationNotAllowed(CLOSED_MSG)
        if self.eof:
            return
        if self.started:
            raise OperationNotAllowed(ITER_MSG)
        self.started = True
        if self.buf:
            chunk, self.buf = self.buf, b''
            self.pos += len(chunk)
            yield chunk
        while self.rem > 0:
            ev, chunk = self._pull()
            if chunk:
                self.pos += len(chunk)
                yield chunk
            elif chunk is not None and ev['body']:
                # a non-empty body clamped to nothing cannot happen while
                #   rem > 0; keep the model honest
                raise AssertionError('unreachable')
            if not ev.get('more_body'):
                self.rem = 0


class RealASGI:
    """Adapter giving the real stream the same synchronous face as the model."""

    def __init__(self, stream):
        self.s = stream

    eof = property(lambda self: self.s.eof)

    def tell(self):
        return self.s.tell()

    def close(self):
        return self.s.close()

    def exhaust(self):
        return drive(self.s.exhaust())

    def readall(self):
        return drive(self.s.readall())

    def read(self, *a):
        return drive(self.s.read(*a))

    def iterate(self):
        agen = self.s.__aiter__()
        check(agen is not self.s)
        while True:
            try:
                yield drive(agen.__anext__())
            except StopAsyncIteration:
                return


def asgi_apply(s, op, iters):
    name, arg = op
    try:
        if name == 'read':
            return ('ok', s.read(*arg))
        if name == 'readall':
            return ('ok', s.readall())
        if name == 'exhaust':
            return ('ok', s.exhaust())
        if name == 'close':
            return ('ok', s.close())
        if name == 'tell':
            return ('ok', s.tell())
        if name == 'eof':
            return ('ok', s.eof)
        if name == 'iternext':
            # one step of a persistent iterator (slot arg)
            if arg not in iters:
                iters[arg] = s.iterate()
            return ('ok', next(iters[arg]))
        if name == 'iterdrain':
            if arg not in iters:
                iters[arg] = s.iterate()
            return ('ok', list(iters[arg]))
        if name == 'iterall':
            return ('ok', list(s.iterate()))
    except StopIteration:
        return ('stop',)
    except (OperationNotAllowed, ValueError) as ex:
        return ('raise', type(ex).__name__, str(ex))
    raise RuntimeError(op)


MORE_TRUE = [True, True, True, 1, 'yes']
MORE_FALSE = [False, 0, None, '', 'missing']


def gen_events(rng, data):
    """Chunk `data` into a list of http.request events of assorted shapes."""
    events = []
    pos = 0
    while True:
        if rng.chance(1, 7):
            chunk = b''
        else:
            n = rng.choice([1, 1, 2, 3, 5, 8, 64])
            chunk = data[pos : pos + n]
            pos += len(chunk)
        ev = {'type': 'http.request'}
        if chunk or not rng.chance(1, 2):
            ev['body'] = chunk
        last = pos >= len(data) and rng.chance(2, 3)
        more = rng.choice(MORE_FALSE if last else MORE_TRUE)
        if more != 'missing':
            ev['more_body'] = more
        events.append(ev)
        if last:
            break
        if len(events) > 60:
            events.append({'type': 'http.request', 'body': data[pos:]})
            break
    return events


def gen_asgi_ops(rng, n, clean):
    sizes = [None, -1, -2, 0, 1, 2, 3, 4, 7, 10, 50, 10**9]
    ops = []
    iterating = False
    for _ in range(n):
        k = rng.randint(0, 21)
        if clean and iterating:
            # once a partial iteration is under way, only keep iterating
            #   or observe (mixing is documented as unsupported)
            k = rng.choice([12, 12, 12, 17, 19])
        if k <= 6:
            a = rng.choice(sizes)
            ops.append(('read', () if rng.chance(1, 6) else (a,)))
        elif k <= 8:
            ops.append(('readall', None))
        elif k == 9:
            ops.append(('exhaust', None))
        elif k == 10:
            ops.append(('close', None) if rng.chance(1, 3) else ('tell', None))
        elif k <= 13:
            ops.append(('iternext', 0))
            iterating = True
        elif k == 14:
            if clean:
                ops.append(('tell', None))
            else:
                ops.append(('iternext', rng.randint(0, 2)))
        elif k <= 16:
            ops.append(('iterall', None))
        elif k <= 18:
            ops.append(('tell', None))
        else:
            ops.append(('eof', None))
    if clean and iterating:
        # NOTE: the iterator looks at more_body of the event it last yielded
        #   only when resumed, so finish what was started on the same iterator.
        ops.append(('iterdrain', 0))
    else:
        ops.append(
            rng.choice(
                [
                    ('read', ()),
                    ('read', (-1,)),
                    ('readall', None),
                    ('exhaust', None),
                    ('iterall', None),
                    ('eof', None),
                ]
            )
        )
    ops.append(('eof', None))
    ops.append(('tell', None))
    ops.append(('read', (5,)))
    return ops


def logical_body(events, cl):
    """What the client really sent before the stream necessarily ends."""
    out = b''
    for ev in events:
        out += ev.get('body', b'')
        if ev['type'] == 'http.disconnect' or not ev.get('more_body'):
            break
    return out if cl is None else out[:cl]


def run_asgi_case(case_id, data, events, cl, first_mode, ops, clean, via_request):
    if first_mode == 'preloaded':
        first_event = dict(events[0])
        preloaded = 1
    elif first_mode == 'empty':
        first_event = {}
        preloaded = 0
    else:
        first_event = None
        preloaded = 0

    feed = Feed(events, preloaded, cl, police=clean)
    mfeed = Feed(events, preloaded, cl, police=False)
    if via_request:
        scope = testing.create_scope(method='POST', content_length=cl)
        req = falcon.asgi.Request(scope, feed, first_event=first_event)
        stream = req.stream
        check(req.stream is stream and req.bounded_stream is stream, 'cached')
    else:
        stream = ASGIStream(feed, first_event=first_event, content_length=cl)
    check(type(stream) is ASGIStream)
    check(stream.readable() and not stream.seekable() and not stream.writable())
    check(feed.calls == 0, 'constructing the stream must not receive()')
    real = RealASGI(stream)
    model = ASGIModel(mfeed, first_event, cl)
    full = logical_body(events, cl)
    iters_r, iters_m = {}, {}
    check(stream.tell() == 0 and stream.eof == model.eof, 'initial state')

    for i, op in enumerate(ops):
        where = ('asgi', case_id, i, op, events, cl, first_mode)
        t0 = stream.tell()
        got = asgi_apply(real, op, iters_r)
        exp = asgi_apply(model, op, iters_m)
        check(got == exp, 'model mismatch', where, got, exp)
        note('a', case_id, i, op, got)
        COUNTS['asgi_ops'] += 1
        check(feed.calls == mfeed.calls, 'receive() count mismatch', where)
        check(stream.tell() == model.tell(), 'tell mismatch', where)
        check(stream.eof == model.eof, 'eof mismatch', where)
        check(stream.closed == model.closed, 'closed mismatch', where)
        t1 = stream.tell()
        check(t0 <= t1, 'position went backwards', where, t0, t1)
        if clean:
            check(t1 <= len(full), 'position beyond the body', where, t1)
        if op[0] == 'read' and got[0] == 'ok' and op[1] and op[1][0] is not None:
            if op[1][0] >= 0:
                check(len(got[1]) <= op[1][0], 'sized read too long', where)
        if clean and got[0] == 'ok' and op[0] in (
            'read',
            'readall',
            'iternext',
            'iterall',
            'iterdrain',
        ):
            piece = flatten(got[1])
            check(piece == full[t0:t1], 'bytes lost or invented', where, piece)
            if op[0] == 'iternext':
                check(len(piece) > 0, 'empty chunk yielded', where)
        if clean and got[0] == 'ok' and op[0] == 'exhaust':
            check(t1 == len(full) and stream.eof, 'exhaust left data', where)
        if clean and got[0] == 'ok' and not stream.closed:
            if (op[0] == 'read' and (not op[1] or op[1][0] in (None, -1))) or op[
                0
            ] in ('readall', 'iterall', 'iterdrain'):
                check(t1 == len(full) and stream.eof, 'unsized read left data', where)
        if clean and stream.eof and not stream.closed:
            check(t1 == len(full), 'eof before the whole body', where, t1, len(full))
    COUNTS['asgi'] += 1


def run_asgi(seed_base, n_cases):
    for c in range(n_cases):
        rng = LCG(seed_base + c)
        data = gen_body(rng)
        events = gen_events(rng, data)
        if rng.chance(1, 4):
            # a client disconnect at an arbitrary position
            at = rng.randint(0, len(events))
            events = events[:at] + [{'type': 'http.disconnect'}] + events[at:]
        sent = sum(len(e.get('body', b'')) for e in events)
        cl = rng.choice(
            [
                None,
                None,
                0,
                len(data),
                len(data),
                max(0, len(data) - 1),
                max(0, len(data) - rng.randint(0, len(data))),
                len(data) + 1,
                sent + rng.randint(1, 9),
                1,
            ]
        )
        first_mode = rng.choice(['preloaded', 'preloaded', 'none', 'empty'])
        clean = not rng.chance(1, 3)
        ops = gen_asgi_ops(rng, rng.randint(1, 9), clean)
        run_asgi_case(
            c, data, events, cl, first_mode, ops, clean, via_request=rng.chance(1, 4)
        )

    # hard-coded corner cases (expectations taken from the unmodified tree)
    def mk(events, cl=None, first=True):
        feed = Feed(events, 1 if first else 0, cl)
        return (
            ASGIStream(
                feed, first_event=dict(events[0]) if first else None, content_length=cl
            ),
            feed,
        )

    R = 'http.request'
    evs = [
        {'type': R, 'body': b'abc', 'more_body': True},
        {'type': R, 'more_body': True},
        {'type': R, 'body': b'', 'more_body': True},
        {'type': R, 'body': b'defgh', 'more_body': True},
        {'type': R, 'body': b'ij'},
        {'type': R, 'body': b'NEVER', 'more_body': True},
    ]
    s, f = mk(evs)
    check(drive(s.read(2)) == b'ab' and s.tell() == 2 and not s.eof)
    check(drive(s.read(2)) == b'cd' and s.tell() == 4 and f.calls == 3)
    check(drive(s.read(0)) == b'' and drive(s.read(-3)) == b'' and s.tell() == 4)
    check(drive(s.read()) == b'efghij' and s.eof and s.tell() == 10 and f.calls == 4)
    check(drive(s.read(1)) == b'' and drive(s.readall()) == b'' and f.calls == 4)
    s, f = mk(evs, cl=7)
    check(drive(s.readall()) == b'abcdefg' and s.eof and s.tell() == 7 and f.calls == 3)
    s, f = mk(evs, cl=2)
    check(s.tell() == 0 and not s.eof and drive(s.read(5)) == b'ab' and s.eof)
    check(f.calls == 0)
    s, f = mk(evs, cl=0)
    check(s.eof and drive(s.read()) == b'' and s.tell() == 0 and f.calls == 0)
    s, f = mk(evs, cl=50, first=False)
    check(list(RealASGI(s).iterate()) == [b'abc', b'defgh', b'ij'] and s.eof)
    check(s.tell() == 10 and f.calls == 5)
    s, f = mk(evs, cl=6)
    check(drive(s.exhaust()) is None and s.eof and s.tell() == 6 and f.calls == 3)
    dis = evs[:3] + [{'type': 'http.disconnect'}] + evs[3:]
    for cl in (None, 50, 3, 4):
        s, f = mk(dis, cl=cl)
        check(drive(s.read(100)) == b'abc' and s.eof and s.tell() == 3)
        check(f.calls == (0 if cl == 3 else 3))
        s, f = mk(dis, cl=cl, first=False)
        check(drive(s.exhaust()) is None and s.eof and s.tell() == 3)
        s, f = mk(dis, cl=cl)
        check(list(RealASGI(s).iterate()) == [b'abc'] and s.eof and s.tell() == 3)
    s, f = mk([{'type': 'http.disconnect'}], cl=10)
    check(s.eof and f.calls == 0 and drive(s.read()) == b'')
    s, f = mk(evs)
    s.close()
    s.close()
    check(s.closed and s.eof and s.tell() == 0)
    for call, exc in (
        (lambda: drive(s.read()), OperationNotAllowed),
        (lambda: drive(s.read(0)), OperationNotAllowed),
        (lambda: drive(s.readall()), OperationNotAllowed),
        (lambda: drive(s.exhaust()), ValueError),
        (lambda: list(RealASGI(s).iterate()), OperationNotAllowed),
    ):
        try:
            call()
        except exc as ex:
            check(type(ex) is exc and str(ex) == CLOSED_MSG, repr(ex))
            if exc is OperationNotAllowed:
                check(ex.args == (CLOSED_MSG,))
        else:
            raise AssertionError('closed stream must raise')
    check(f.calls == 0)
    s, f = mk(evs)
    it = RealASGI(s).iterate()
    check(next(it) == b'abc')
    try:
        list(RealASGI(s).iterate())
    except OperationNotAllowed as ex:
        check(str(ex) == ITER_MSG)
    else:
        raise AssertionError('second iteration must raise')
    # unknown length: keeps reading well past any 32/64-bit boundary marker
    big = [{'type': R, 'body': b'x' * 1000, 'more_body': True}] * 50 + [{'type': R}]
    s, f = mk(big, first=False)
    check(drive(s.read()) == b'x' * 50000 and s.eof and f.calls == 51)
    try:
        s.fileno()
    except OSError:
        pass
    else:
        raise AssertionError('fileno must raise')
    check(s.isatty() is False)


def run_asgi_request_wrapping():
    """Lazy wrapping with Content-Length (falcon.asgi.Request)."""
    body_events = [
        {'type': 'http.request', 'body': b'hello', 'more_body': True},
        {'type': 'http.request', 'body': b'\nworld', 'more_body': False},
    ]
    table = [
        (None, b'hello\nworld'),
        (b'', b'hello\nworld'),
        (b'0', b''),
        (b'3', b'hel'),
        (b'5', b'hello'),
        (b'7', b'hello\nw'),
        (b'11', b'hello\nworld'),
        (b'20', b'hello\nworld'),
        (b' 7 ', b'hello\nw'),
        (b'abc', 'invalid'),
        (b'-1', 'invalid'),
        (b'1.5', 'invalid'),
    ]
    for value, want in table:
        for preload in (True, False):
            scope = testing.create_scope(method='POST')
            scope['headers'] = [
                h for h in scope['headers'] if h[0] != b'content-length'
            ]
            if value is not None:
                scope['headers'].append((b'content-length', value))
            cl = None
            if want != 'invalid' and value:
                cl = int(value)
            feed = Feed(body_events, 1 if preload else 0, cl)
            req = falcon.asgi.Request(
                scope, feed, first_event=dict(body_events[0]) if preload else None
            )
            check(req._stream is None, 'wrapping must be lazy')
            if want == 'invalid':
                for _ in range(2):
                    try:
                        req.stream
                    except falcon.HTTPInvalidHeader:
                        pass
                    else:
                        raise AssertionError('invalid Content-Length must raise')
                check(feed.calls == 0)
                continue
            s = req.stream
            check(s is req.stream and s is req.bounded_stream)
            check(type(s) is ASGIStream and feed.calls == 0 and s.tell() == 0)
            check(drive(s.read()) == want and s.eof and s.tell() == len(want), value)
            check(drive(s.read(1)) == b'')
            note('ar', value, preload, want)
            COUNTS['req'] += 1
    scope = testing.create_scope_ws()
    req = falcon.asgi.Request(scope, Feed([], 0, None))
    try:
        req.stream
    except falcon.errors.UnsupportedError:
        pass
    else:
        raise AssertionError('websocket handshake has no body stream')


def run_asgi_with_logging(seed_base, n_cases):
    """Debug logging, enabled or disabled, must not alter behaviour."""
    records = []

    class Capture(logging.Handler):
        def emit(self, record):
            records.append(record.getMessage())

    root = logging.getLogger()
    handler = Capture(level=logging.DEBUG)
    old_level = root.level
    root.addHandler(handler)
    root.setLevel(logging.DEBUG)
    try:
        run_asgi(seed_base, n_cases)
    finally:
        root.setLevel(old_level)
        root.removeHandler(handler)
    for r in records:
        check(isinstance(r, str))
    return len(records)


def main(expected_digest, wsgi_cases=700, asgi_cases=900, focus=None):
    run_wsgi(1000, wsgi_cases)
    run_wsgi_request_wrapping()
    run_asgi(5000, asgi_cases)
    run_asgi_request_wrapping()
    if focus is not None:
        focus()
    digest = TRANSCRIPT.hexdigest()
    check(COUNTS['wsgi'] >= 300 and COUNTS['asgi'] >= 300, COUNTS)
    if expected_digest is None:
        print('digest', digest, COUNTS)
    else:
        check(
            digest == expected_digest,
            'transcript differs from the one recorded on the unmodified tree',
            digest,
        )
    print('PASS', COUNTS)
    return 0


def focus():
    """Change 2: the size clamp shared by read/readline/readlines/iteration."""
    run_wsgi(70000, 500)

    class Spy(Raw):
        def __init__(self, data, limit):
            Raw.__init__(self, data, limit, police=False)
            self.asked = []

        def read(self, n=-1):
            self.asked.append(('read', n))
            return Raw.read(self, n)

        def readline(self, n=-1):
            self.asked.append(('readline', n))
            return Raw.readline(self, n)

    class Counting(WSGIStream):
        # readlines() and iteration must keep dispatching through readline()
        calls = 0

        def readline(self, limit=None):
            self.calls += 1
            return WSGIStream.readline(self, limit)

    body = b'ab\ncd\n\nefgh\nij'
    for cl in (0, 1, 3, 4, 9, len(body), len(body) + 5):
        for pre in (0, 1, 2, 5):
            rem = max(0, cl - pre) if pre <= cl else 0
            sizes = [None, -1, -2, -(10**9), 0, 1, 2, 3, rem - 1, rem, rem + 1]
            sizes += [10**18, True, False]
            for size in sizes:
                for meth in ('read', 'readline', 'readlines', 'next'):
                    raw = Spy(body, cl)
                    s = Counting(raw, cl)
                    s.read(pre)
                    rem = cl - raw.pos
                    del raw.asked[:]
                    p0 = raw.pos
                    if size is None or size < 0 or size > rem:
                        want_n = rem
                    else:
                        want_n = size
                    if meth == 'read':
                        got = s.read(size)
                        check(raw.asked == [('read', want_n)], raw.asked, want_n)
                        check(type(raw.asked[0][1]) is type(want_n), 'size passed through as is')
                    elif meth == 'readline':
                        got = s.readline(size)
                        check(raw.asked == [('readline', want_n)], raw.asked)
                    elif meth == 'readlines':
                        got = s.readlines(size)
                        total = 0
                        for n, line in enumerate(got):
                            check(total < want_n, 'readlines read past its hint')
                            total += len(line)
                        check(s.calls == len(raw.asked))
                        check(
                            total >= want_n or s.calls == len(got) + 1,
                            'readlines stopped early',
                        )
                        got = b''.join(got)
                    else:
                        try:
                            got = next(s)
                        except StopIteration:
                            got = b''
                        check(raw.asked == [('readline', rem)] and s.calls == 1)
                    for kind, n in raw.asked:
                        check(0 <= n <= cl, 'raw asked out of bounds', n)
                    check(got == body[:cl][p0 : raw.pos], 'bytes lost or invented')
                    check(raw.pos <= cl and s.eof == (raw.pos >= cl))
                    note('f2', cl, pre, size, meth, got, raw.asked)

    # non-integer sizes behave as before: rejected without touching the budget,
    #   or (floats) passed through to the wrapped stream when within bounds
    s = WSGIStream(io.BytesIO(body), len(body))
    for bad in ('3', b'1', [1], 2j, object()):
        for meth in (s.read, s.readline, s.readlines):
            try:
                meth(bad)
            except TypeError:
                continue
            raise AssertionError('expected TypeError')
    try:
        s.read(2.0)
    except TypeError:
        pass
    else:
        raise AssertionError('BytesIO rejects float sizes')
    check(s.readlines(2.5) == [b'ab\n'] and s.readlines(1e99) == [b'cd\n', b'\n', b'efgh\n', b'ij'])
    check(s.eof and s.read(float('inf')) == b'')
    note('f2-done')


# sha256 of the full transcript, recorded on the UNMODIFIED tree
EXPECTED_DIGEST = 'e1b9b68436dfe450628a6d76b4187737e33d02a3ac169c4bec9f13482081cc48'

if __name__ == '__main__':
    sys.exit(main(EXPECTED_DIGEST, focus=focus))
