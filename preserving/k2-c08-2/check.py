"""Property C08 check: query strings parse to one well-defined mapping and
typed getters never misreport.

Run as:  PYTHONPATH=<falcon tree> /venv/bin/python check.py

Everything is compared against a small, independent reference model written
below (ref_decode / ref_parse / ref_to_query_str / ref getters).  Prints PASS
and exits 0 when every comparison agrees.
"""

import datetime
import itertools
import json
import math
import random
import sys
import uuid

import falcon
import falcon.asgi
import falcon.testing as testing
from falcon.util import misc as fmisc
from falcon.util import uri as furi

RNG = random.Random(0xC08)
FAILURES = []
COUNTS = {}


def fail(section, *info):
    FAILURES.append((section, info))
    if len(FAILURES) <= 20:
        print('FAIL', section, *[repr(i)[:300] for i in info])


def count(section, n=1):
    COUNTS[section] = COUNTS.get(section, 0) + n


# --------------------------------------------------------------------------
# Reference model
# --------------------------------------------------------------------------

HEX = '0123456789abcdefABCDEF'


def ref_decode(s, plus=True):
    """Sequential scan percent/plus decoder (form-urlencoded reading)."""
    if plus:
        s = s.replace('+', ' ')
    b = s.encode('utf-8')
    out = bytearray()
    i = 0
    n = len(b)
    while i < n:
        c = b[i]
        if c == 0x25 and i + 2 < n and chr(b[i + 1]) in HEX and chr(b[i + 2]) in HEX:
            out.append(int(b[i + 1 : i + 3].decode('ascii'), 16))
            i += 3
        else:
            out.append(c)
            i += 1
    return bytes(out).decode('utf-8', 'replace')


def _ref_decode_selftest():
    assert ref_decode('%41') == 'A'
    assert ref_decode('a%4') == 'a%4'
    assert ref_decode('%') == '%'
    assert ref_decode('%%41') == '%A'
    assert ref_decode('%4g+') == '%4g '
    assert ref_decode('+', plus=False) == '+'
    assert ref_decode('%C3%A9') == '\xe9'
    assert ref_decode('%2C') == ','
    assert ref_decode('x%00y') == 'x\x00y'


_ref_decode_selftest()


def ref_parse(qs, keep_blank, csv):
    params = {}
    for field in qs.split('&'):
        if '=' in field:
            k, v = field.split('=', 1)
        else:
            k, v = field, ''
        if v == '' and not (keep_blank and k != ''):
            continue
        k = ref_decode(k)
        if csv and ',' in v:
            vals = [ref_decode(e) for e in v.split(',') if keep_blank or e != '']
            as_list = True
        else:
            vals = [ref_decode(v)]
            as_list = False
        if k in params:
            old = params[k]
            if not isinstance(old, list):
                old = [old]
            params[k] = old + vals
        else:
            params[k] = vals if as_list else vals[0]
    return params


UNRESERVED = (
    'ABCDEFGHIJKLMNOPQRSTUVWXYZabcdefghijklmnopqrstuvwxyz0123456789-._~'
)


def ref_encode_value(s):
    out = []
    for byte in s.encode('utf-8'):
        ch = chr(byte)
        if ch in UNRESERVED:
            out.append(ch)
        else:
            out.append('%%%02X' % byte)
    return ''.join(out)


def ref_scalar(v):
    if v is True:
        return 'true'
    if v is False:
        return 'false'
    return ref_encode_value(str(v))


def ref_to_query_str(params, comma_delimited_lists=True, prefix=True):
    if not params:
        return ''
    pairs = []
    for k, v in params.items():
        if isinstance(v, list):
            if comma_delimited_lists:
                pairs.append(
                    ref_encode_value(k)
                    + '='
                    + ','.join(ref_encode_value(str(i)) for i in v)
                )
            else:
                for i in v:
                    pairs.append(ref_encode_value(k) + '=' + ref_scalar(i))
        else:
            pairs.append(ref_encode_value(k) + '=' + ref_scalar(v))
    if not pairs:
        return ''
    return ('?' if prefix else '') + '&'.join(pairs)


# --------------------------------------------------------------------------
# Generators
# --------------------------------------------------------------------------

ALPHABET = ['&', '=', ',', '+', '%', '4', 'a', 'g', '\x00', '\xe9']
WIDE = ALPHABET + ['1', 'F', 'c', '3', 'A', '9', ' ', ';', '€', 'Z', '2', 'C', 'E']
OPTION_COMBOS = [(kb, csv) for kb in (False, True) for csv in (False, True)]


def exhaustive(max_len):
    for n in range(max_len + 1):
        for t in itertools.product(ALPHABET, repeat=n):
            yield ''.join(t)


def random_strings(n, lo, hi, alphabet=WIDE):
    for _ in range(n):
        yield ''.join(RNG.choice(alphabet) for _ in range(RNG.randint(lo, hi)))


CORNERS = [
    '', '&', '=', '==', '&&', '=&=', 'a', 'a=', '=a', 'a==', 'a==b', 'a=b=c',
    'a&a', 'a=&a=', 'a=1&a=2&a=3', 'a=1,2&a=3', 'a=1&a=2,3', 'a=,', 'a=,,',
    'a=,&a=1', 'a=1,,3', 'a=%2C', 'a=1%2C2,3', 'a=%2c,%2C', '%61=1&a=2',
    'a=%', 'a=%4', 'a=%4g', 'a=%g4', 'a=%%', 'a=%%41', 'a=%41%', 'a=%+',
    '+=+', '%=%', 'a=\x00', '\x00=\x00', 'a=%00', '\xe9=\xe9', 'a=%C3%A9',
    'a=%C3', 'a=%A9%C3', 'a=%E2%82%AC', 'a=%E2%82', 'a=%e2%82%ac',
    'a=%F0%9F%98%80', 'a=%ED%A0%80', 'a=%FF%FE', 'a=%C3\xe9', 'a=b&', '&a=b',
    'a=b&&c=d', 'a=+b+', 'a=%20', 'a=%2B', 'a=%26%3D', 'a%3Db=c', 'a%26b=c',
    'a,b=c,d', ',=,', 'a=,b', 'a=b,', 'A=1&a=2', 'a=%41&A=a',
    'a=%31%32%33%34%35%36%37%38%39', 'a=%31%32%33%34%35%36%37%3',
    'a=%31%32%33%34%35%36%37%', 'a=%31%zz%33%34%%36%37%38%39+%2',
    '%31%32%33%34%35%36%37%38=%31%32%33%34%35%36%37%38',
    'a=%41,%42,%43,%44,%45,%46,%47,%48,%49', 'a=1&b=2&a=3&b=4,5&a=,6',
]


# --------------------------------------------------------------------------
# Section A: decode
# --------------------------------------------------------------------------


def check_decode():
    cases = list(exhaustive(4))
    cases += CORNERS
    # long inputs with >= 8 '%' so that the "many tokens" join path is taken
    pct_heavy = ['%', '%', '%4', '%41', '%C3%A9', '%e2%82%AC', '%g', '+', 'a', '\xe9',
                 '%0', '%00', '%FF', '%2C', ',', '=', '&', '%%', 'zz', '4']
    for _ in range(1500):
        cases.append(''.join(RNG.choice(pct_heavy) for _ in range(RNG.randint(6, 30))))
    cases += list(random_strings(1500, 5, 40))
    for s in cases:
        for plus in (True, False):
            exp = ref_decode(s, plus)
            try:
                got = furi.decode(s, unquote_plus=plus)
            except Exception as ex:  # parsing never fails
                fail('decode-raised', s, plus, ex)
                continue
            if got != exp or type(got) is not str:
                fail('decode', s, plus, got, exp)
            count('decode')
        if furi.decode(s) != ref_decode(s, True):
            fail('decode-default', s)
    # the two platform join helpers (only one is selected per platform, but
    # both must implement the same reading)
    for name in ('_join_tokens_bytearray', '_join_tokens_list', '_join_tokens'):
        helper = getattr(furi, name, None)
        if helper is None:
            continue
        for s in cases:
            if '%' not in s:
                continue
            tokens = s.encode('utf-8').split(b'%')
            snapshot = list(tokens)
            exp = ref_decode(s, False)
            got = helper(tokens)
            if got != exp:
                fail('join-helper', name, s, got, exp)
            if tokens != snapshot:
                fail('join-helper-mutated-input', name, s)
            count('join-helper')


# --------------------------------------------------------------------------
# Section B: parse_query_string
# --------------------------------------------------------------------------


def same_mapping(got, exp):
    if type(got) is not dict or got != exp:
        return False
    if list(got.keys()) != list(exp.keys()):
        return False
    for k in got:
        if type(got[k]) is not type(exp[k]):
            return False
        if type(k) is not str:
            return False
        if isinstance(got[k], list):
            if any(type(i) is not str for i in got[k]):
                return False
    return True


def check_parse():
    cases = list(exhaustive(5)) + CORNERS
    cases += list(random_strings(3000, 4, 60))
    frag = ['a', 'b', 'a=', 'a=1', 'a=2,3', 'b=,', 'a=%2C', '&', '&', '=', ',', '%41',
            '%C3%A9', '+', 'a=%', 'b=x+y', '\xe9=1', 'a=\x00', 'b', 'b=']
    for _ in range(3000):
        cases.append(''.join(RNG.choice(frag) for _ in range(RNG.randint(1, 9))))
    for qs in cases:
        for kb, csv in OPTION_COMBOS:
            exp = ref_parse(qs, kb, csv)
            try:
                got = furi.parse_query_string(qs, keep_blank=kb, csv=csv)
            except Exception as ex:
                fail('parse-raised', qs, kb, csv, ex)
                continue
            if not same_mapping(got, exp):
                fail('parse', qs, kb, csv, got, exp)
            count('parse')
        # defaults and positional form
        if furi.parse_query_string(qs) != ref_parse(qs, False, False):
            fail('parse-defaults', qs)
        if furi.parse_query_string(qs, True, True) != ref_parse(qs, True, True):
            fail('parse-positional', qs)
        if falcon.uri.parse_query_string(qs, True) != ref_parse(qs, True, False):
            fail('parse-public-alias', qs)
    # independent results: no aliasing between calls
    a = furi.parse_query_string('a=1&a=2', csv=True)
    b = furi.parse_query_string('a=1&a=2', csv=True)
    a['a'].append('x')
    if b != {'a': ['1', '2']}:
        fail('parse-aliasing', b)
    for bad in (None, b'a=b', 5):
        try:
            furi.parse_query_string(bad)
        except TypeError:
            pass
        except AttributeError:
            pass
        else:
            fail('parse-nonstr-accepted', bad)


# --------------------------------------------------------------------------
# Section C: Request (WSGI) and falcon.asgi.Request (ASGI)
# --------------------------------------------------------------------------


def make_options(kb, csv):
    opts = falcon.RequestOptions()
    opts.keep_blank_qs_values = kb
    opts.auto_parse_qs_csv = csv
    return opts


def wsgi_req(qs, kb, csv):
    env = testing.create_environ(path='/x')
    env['QUERY_STRING'] = qs
    return falcon.Request(env, options=make_options(kb, csv))


def asgi_req(qs, kb, csv):
    scope = testing.create_scope(path='/x')
    scope['query_string'] = qs.encode('utf-8')
    return falcon.asgi.Request(scope, None, options=make_options(kb, csv))


MAKERS = (('wsgi', wsgi_req), ('asgi', asgi_req))


def check_requests():
    cases = list(exhaustive(3)) + CORNERS + list(random_strings(600, 3, 50))
    for qs in cases:
        for kb, csv in OPTION_COMBOS:
            exp = ref_parse(qs, kb, csv) if qs else {}
            for label, maker in MAKERS:
                try:
                    req = maker(qs, kb, csv)
                except Exception as ex:
                    fail('request-raised', label, qs, kb, csv, ex)
                    continue
                if not same_mapping(req.params, exp):
                    fail('request-params', label, qs, kb, csv, req.params, exp)
                if req.query_string != qs:
                    fail('request-qs', label, qs)
                for name, val in exp.items():
                    if not req.has_param(name):
                        fail('has_param', label, qs, name)
                    if isinstance(val, list):
                        if req.get_param_as_list(name) != val:
                            fail('as_list', label, qs, name)
                        if val and req.get_param(name) != val[-1]:
                            fail('get_param-last', label, qs, name)
                    else:
                        if req.get_param(name) != val:
                            fail('get_param', label, qs, name)
                        if req.get_param_as_list(name) != [val]:
                            fail('as_list-scalar', label, qs, name)
                if req.has_param('nope-nope') is not False:
                    fail('has_param-missing', label, qs)
                count('request')
    # no QUERY_STRING key at all (WSGI)
    env = testing.create_environ(path='/x')
    del env['QUERY_STRING']
    req = falcon.Request(env)
    if req.params != {} or req.query_string != '':
        fail('request-no-qs-key')


# --------------------------------------------------------------------------
# Section D: typed getters
# --------------------------------------------------------------------------

MISSING = object()


def outcome(fn):
    """Run fn -> ('ok', value) | ('invalid', param, msg) | ('missing', param)."""
    try:
        return ('ok', fn())
    except falcon.HTTPMissingParam as ex:
        assert isinstance(ex, falcon.HTTPBadRequest) and ex.status_code == 400
        return ('missing', ex.description)
    except falcon.HTTPInvalidParam as ex:
        assert isinstance(ex, falcon.HTTPBadRequest) and ex.status_code == 400
        return ('invalid', ex.description)


def same_value(a, b):
    if type(a) is not type(b):
        return False
    if isinstance(a, float) and math.isnan(a):
        return math.isnan(b)
    if isinstance(a, list):
        return len(a) == len(b) and all(same_value(x, y) for x, y in zip(a, b))
    if isinstance(a, dict):
        return list(a) == list(b) and all(same_value(a[k], b[k]) for k in a)
    return a == b


def same_outcome(got, exp):
    if got[0] != exp[0]:
        return False
    if got[0] == 'ok':
        return same_value(got[1], exp[1])
    if got[0] == 'invalid' and exp[1] is not None:
        return exp[1] in got[1]
    return True


TRUE_S = {'true', 'True', 't', 'yes', 'y', '1', 'on'}
FALSE_S = {'false', 'False', 'f', 'no', 'n', '0', 'off'}


def ref_conv(kind, s, kw):
    """Reference conversion of string s -> ('ok', v) | ('invalid', fragment)."""
    if kind == 'str':
        return ('ok', s)
    if kind in ('int', 'float'):
        try:
            v = int(s) if kind == 'int' else float(s)
        except ValueError:
            return ('invalid', 'must be a' if kind == 'float' else 'must be an integer')
        lo, hi = kw.get('min_value'), kw.get('max_value')
        if lo is not None and v < lo:
            return ('invalid', 'at least ' + str(lo))
        if hi is not None and hi < v:
            return ('invalid', 'may not exceed ' + str(hi))
        return ('ok', v)
    if kind == 'bool':
        if s in TRUE_S:
            return ('ok', True)
        if s in FALSE_S:
            return ('ok', False)
        if s == '':
            return ('ok', kw.get('blank_as_true', True))
        return ('invalid', '"true" or "false"')
    if kind == 'uuid':
        try:
            return ('ok', uuid.UUID(s))
        except ValueError:
            return ('invalid', 'UUID')
    if kind == 'datetime':
        fmt = kw.get('format_string', '%Y-%m-%dT%H:%M:%S%z')
        try:
            return ('ok', datetime.datetime.strptime(s, fmt))
        except ValueError:
            return ('invalid', 'date value')
    if kind == 'date':
        fmt = kw.get('format_string', '%Y-%m-%d')
        try:
            return ('ok', datetime.datetime.strptime(s, fmt).date())
        except ValueError:
            return ('invalid', 'date value')
    if kind == 'json':
        if s == '':
            return ('invalid', 'JSON')
        try:
            return ('ok', json.loads(s))
        except ValueError:
            return ('invalid', 'JSON')
    raise AssertionError(kind)


GETTERS = {
    'str': 'get_param',
    'int': 'get_param_as_int',
    'float': 'get_param_as_float',
    'bool': 'get_param_as_bool',
    'uuid': 'get_param_as_uuid',
    'datetime': 'get_param_as_datetime',
    'date': 'get_param_as_date',
    'json': 'get_param_as_json',
}

VALUES = [
    '', '0', '1', '-1', '+1', '42', ' 42 ', '4_2', '042', '1.5', '-1.5', '1e3', '.5', '5.',
    'nan', 'NaN', 'inf', '-inf', 'Infinity', '1e999', '0x10', '١٢', '１２', '--1', '1,2',
    '99999999999999999999999', '-0', '0.0', '-0.0', '1e-400',
    'true', 'True', 'TRUE', 't', 'T', 'yes', 'y', 'Y', 'on', 'ON', 'false', 'False', 'FALSE', 'f',
    'no', 'n', 'off', 'null', 'None', ' ', 'tr ue',
    '64be949b-3433-4d36-a4a8-9f19d352fee8', 'BE71ECAA-F719-4D42-87FD-32613C2EEB60',
    '81c8155C-D6de-443B-9495-39Fa8FB239b5', '64be949b34334d36a4a89f19d352fee8',
    '{64be949b-3433-4d36-a4a8-9f19d352fee8}', 'urn:uuid:64be949b-3433-4d36-a4a8-9f19d352fee8',
    '64be949b-3433-4d36-a4a8-9f19d352fee', 'zzbe949b-3433-4d36-a4a8-9f19d352fee8',
    '2015-04-20', '2015-4-2', '2015-02-30', '20150420', '2015-04-20T10:10:10Z',
    '2015-04-20T10:10:10+0200', '2015-04-20T10:10:10+02:00', '2015-04-20T10:10:10',
    '2015-04-20T25:10:10Z', '0001-01-01', '9999-12-31', '2015-04-20 ',
    '{}', '[]', '{"a": 1}', '[1, 2, 3]', '"x"', '1.0', 'true', 'nul', '{"a":', '{\'a\': 1}',
    '[1,2]', '{"a": [1, {"b": null}]}', 'NaN', '"€"', '"\\u20ac"', 'x\x00y', '\xe9',
    'a b', 'a+b', 'a%b', 'a&b', 'a=b', 'a,b', '%41', '%2C', '%',
]


def enc(s):
    return ref_encode_value(s)


def check_getters():
    kwsets = {
        'str': [{}],
        'int': [{}, {'min_value': 0}, {'max_value': 10}, {'min_value': -1, 'max_value': 1},
                {'min_value': 5, 'max_value': 2}, {'min_value': 42, 'max_value': 42}],
        'float': [{}, {'min_value': 0.0}, {'max_value': 10.5}, {'min_value': -1.5, 'max_value': 1.5},
                  {'min_value': 1, 'max_value': 1000}],
        'bool': [{}, {'blank_as_true': False}, {'blank_as_true': True}],
        'uuid': [{}],
        'datetime': [{}, {'format_string': '%Y-%m-%dT%H:%M:%SZ'}, {'format_string': '%Y%m%d'}],
        'date': [{}, {'format_string': '%Y%m%d'}],
        'json': [{}],
    }
    for val in VALUES:
        # three histories whose *last* occurrence of "p" is val
        histories = [
            ('p=' + enc(val), False, False),
            ('p=junk&q=1&p=' + enc(val), True, False),
            ('p=a,b&p=' + enc(val), True, True),
            ('q=9&p=zz,' + enc(val) if val else 'q=9&p=zz,', True, True),
        ]
        for qs, kb, csv in histories:
            parsed = ref_parse(qs, kb, csv)
            for label, maker in MAKERS:
                req = maker(qs, kb, csv)
                if not same_mapping(req.params, parsed):
                    fail('getter-setup', label, qs, req.params, parsed)
                    continue
                present = 'p' in parsed
                last = MISSING
                if present:
                    last = parsed['p'][-1] if isinstance(parsed['p'], list) else parsed['p']
                    if last != val:
                        fail('getter-last-setup', qs, last, val)
                for kind, meth in GETTERS.items():
                    for kw in kwsets[kind]:
                        for required in (False, True):
                            for default in (None, 'DEFAULT'):
                                store = {}
                                fn = getattr(req, meth)
                                got = outcome(lambda: fn('p', required=required, store=store,
                                                         default=default, **kw))
                                if present:
                                    r = ref_conv(kind, last, kw)
                                    exp = r
                                    exp_store = {'p': r[1]} if r[0] == 'ok' else {}
                                    if kind == 'date' and r[0] == 'ok':
                                        pass
                                else:
                                    exp = ('missing', None) if required else ('ok', default)
                                    exp_store = {}
                                if not same_outcome(got, exp):
                                    fail('getter', label, kind, qs, kw, required, default, got, exp)
                                if list(store.keys()) != list(exp_store.keys()) or (
                                    exp_store and not same_value(store['p'], exp_store['p'])
                                ):
                                    fail('getter-store', label, kind, qs, kw, store, exp_store)
                                # the absent name: required/default honoured exactly
                                store2 = {}
                                got2 = outcome(lambda: fn('absent', required=required, store=store2,
                                                          default=default, **kw))
                                exp2 = ('missing', None) if required else ('ok', default)
                                if not same_outcome(got2, exp2) or store2:
                                    fail('getter-absent', label, kind, qs, kw, got2, exp2)
                                count('getter')
                # list getter with and without transform
                if present:
                    items = parsed['p'] if isinstance(parsed['p'], list) else [parsed['p']]
                    store = {}
                    if req.get_param_as_list('p', store=store) != items or store != {'p': items}:
                        fail('list', label, qs)
                    for tr in (int, float, str.upper, uuid.UUID):
                        try:
                            exp = ('ok', [tr(i) for i in items])
                        except ValueError:
                            exp = ('invalid', 'not formatted correctly')
                        store = {}
                        got = outcome(lambda: req.get_param_as_list('p', tr, store=store))
                        if not same_outcome(got, exp):
                            fail('list-transform', label, qs, tr, got, exp)
                        if (exp[0] == 'ok') != ('p' in store):
                            fail('list-transform-store', label, qs, tr, store)
                        count('getter-list')
                for required in (False, True):
                    got = outcome(lambda: req.get_param_as_list('absent', required=required,
                                                                default=['d']))
                    exp = ('missing', None) if required else ('ok', ['d'])
                    if not same_outcome(got, exp):
                        fail('list-absent', label, qs, got, exp)
    # random numeric values with random bounds
    for _ in range(600):
        n = RNG.randint(-50, 50)
        lo = RNG.choice([None, RNG.randint(-60, 60)])
        hi = RNG.choice([None, RNG.randint(-60, 60)])
        text = RNG.choice([str(n), '%+d' % n, ' %d' % n, '%d.5' % n, '%de1' % n, str(n) + 'x'])
        qs = 'n=1&n=' + enc(text)
        for label, maker in MAKERS:
            req = maker(qs, False, False)
            for kind in ('int', 'float'):
                kw = {'min_value': lo, 'max_value': hi}
                store = {}
                got = outcome(lambda: getattr(req, GETTERS[kind])('n', store=store, **kw))
                exp = ref_conv(kind, text, kw)
                if not same_outcome(got, exp):
                    fail('getter-bounds', label, kind, text, lo, hi, got, exp)
                if (exp[0] == 'ok') != ('n' in store):
                    fail('getter-bounds-store', label, kind, text, store)
                count('getter-bounds')


# --------------------------------------------------------------------------
# Section E: to_query_str and the round trip law
# --------------------------------------------------------------------------

NAME_POOL = ['a', 'b', 'name', 'x y', 'k&k', 'k=k', 'k,k', 'k%k', 'k+k', '\xe9', '€', 'A', 'k\x00', '~._-']
VAL_POOL = ['', 'v', '1', 'a b', 'a&b', 'a=b', 'a,b', 'a%b', 'a+b', '%41', '\xe9', '€uro', 'x\x00', 'true',
            'false', '~._-', ',', ',,', '%', '%2C', '+', ' ', 'None']
OBJ_POOL = [True, False, None, 0, 1, -5, 1.5, 10 ** 20, 'true', 'True']


def random_params(strings_only):
    d = {}
    for _ in range(RNG.randint(0, 5)):
        k = RNG.choice(NAME_POOL)
        r = RNG.random()
        pool = VAL_POOL if strings_only else VAL_POOL + OBJ_POOL
        if r < 0.55:
            d[k] = RNG.choice(pool)
        else:
            d[k] = [RNG.choice(pool) for _ in range(RNG.randint(0 if not strings_only else 2, 4))]
    return d


def check_to_query_str():
    fixed = [
        ({}, ''), (None, ''),
    ]
    for params, exp in fixed:
        for cdl in (True, False):
            for prefix in (True, False):
                if fmisc.to_query_str(params, cdl, prefix) != exp:
                    fail('to_query_str-empty', params, cdl, prefix)
    # against the reference rendering, arbitrary values
    for _ in range(2500):
        params = random_params(strings_only=False)
        snapshot = json.dumps(params, default=repr, sort_keys=False)
        for cdl in (True, False):
            for prefix in (True, False):
                exp = ref_to_query_str(params, cdl, prefix)
                got = falcon.to_query_str(params, comma_delimited_lists=cdl, prefix=prefix)
                if got != exp or type(got) is not str:
                    fail('to_query_str', params, cdl, prefix, got, exp)
                count('to_query_str')
        if json.dumps(params, default=repr, sort_keys=False) != snapshot:
            fail('to_query_str-mutated-input', params)
    if falcon.to_query_str({'a': 1}) != '?a=1':
        fail('to_query_str-defaults')
    # non-str keys are rejected identically to today (AttributeError from the encoder)
    for bad in ({1: 'x'}, {None: 'x'}, {'ok': 'x', 2: ['y']}):
        for cdl in (True, False):
            try:
                falcon.to_query_str(bad, comma_delimited_lists=cdl)
            except AttributeError:
                pass
            else:
                fail('to_query_str-nonstr-key-accepted', bad)
    # round trip: a mapping of str / list-of-str renders and parses back to itself
    for _ in range(2500):
        params = random_params(strings_only=True)
        # (a) repeated-name encoding, keep_blank on, csv off : exact for every str value
        qs = falcon.to_query_str(params, comma_delimited_lists=False, prefix=False)
        exp = {k: v for k, v in params.items()}
        back = furi.parse_query_string(qs, keep_blank=True, csv=False) if qs else {}
        if back != exp:
            fail('roundtrip-multi', params, qs, back)
        # (b) comma encoding, csv on, keep_blank on
        qs = falcon.to_query_str(params, comma_delimited_lists=True, prefix=False)
        back = furi.parse_query_string(qs, keep_blank=True, csv=True) if qs else {}
        if back != exp:
            fail('roundtrip-csv', params, qs, back)
        # and through both request classes
        qs = falcon.to_query_str(params, comma_delimited_lists=False, prefix=False)
        for label, maker in MAKERS:
            if maker(qs, True, False).params != exp:
                fail('roundtrip-request', label, params, qs)
        count('roundtrip')


def main(extra=()):
    check_decode()
    check_parse()
    check_requests()
    check_getters()
    check_to_query_str()
    for fn in extra:
        fn()
    total = sum(COUNTS.values())
    print('cases:', total, COUNTS)
    if FAILURES:
        print('FAILED', len(FAILURES))
        sys.exit(1)
    if total < 500:
        print('too few cases')
        sys.exit(1)
    print('PASS')
    sys.exit(0)


# --------------------------------------------------------------------------
# Focus of change 2: "the last occurrence" as seen by every scalar getter,
# for scalar entries, list entries (repeats, CSV, mixtures), entries merged
# from a form body and entries an application placed in req.params itself.
# --------------------------------------------------------------------------

SCALAR_GETTERS = ['get_param', 'get_param_as_int', 'get_param_as_float', 'get_param_as_uuid',
                  'get_param_as_bool', 'get_param_as_datetime', 'get_param_as_date',
                  'get_param_as_json']
KIND_OF = {v: k for k, v in GETTERS.items()}


def check_last_occurrence():
    tokens = ['1', '0', '-7', '2.5', 'true', 'no', 'x', '', '64be949b-3433-4d36-a4a8-9f19d352fee8',
              '2015-04-20', '2015-04-20T10:10:10Z', '[1]', '%31', '+', '%2C', 'nan']
    for _ in range(700):
        n = RNG.randint(1, 5)
        fields = []
        for _ in range(n):
            if RNG.random() < 0.3:
                fields.append('p=' + ','.join(RNG.choice(tokens) for _ in range(RNG.randint(1, 3))))
            else:
                fields.append(RNG.choice(['p', 'q']) + '=' + RNG.choice(tokens))
        qs = '&'.join(fields)
        for kb, csv in OPTION_COMBOS:
            parsed = ref_parse(qs, kb, csv)
            for label, maker in MAKERS:
                req = maker(qs, kb, csv)
                if not same_mapping(req.params, parsed):
                    fail('last-setup', label, qs, kb, csv)
                    continue
                before = json.dumps(req.params)
                for name in ('p', 'q', 'zz'):
                    if name in parsed and parsed[name] == []:
                        # Pinned behaviour of the unmodified tree: an entry that was
                        # reduced to an empty list has no last element.
                        for meth in SCALAR_GETTERS:
                            try:
                                getattr(req, meth)(name)
                            except IndexError:
                                pass
                            else:
                                fail('last-empty-list', label, meth, qs)
                        continue
                    for meth in SCALAR_GETTERS:
                        kind = KIND_OF[meth]
                        store = {}
                        got = outcome(lambda: getattr(req, meth)(name, store=store, default='D'))
                        if name in parsed:
                            v = parsed[name]
                            last = v[-1] if isinstance(v, list) else v
                            exp = ref_conv(kind, last, {})
                        else:
                            exp = ('ok', 'D')
                        if not same_outcome(got, exp):
                            fail('last', label, meth, qs, kb, csv, name, got, exp)
                        if (name in parsed and exp[0] == 'ok') != (name in store):
                            fail('last-store', label, meth, qs, name, store)
                        count('last')
                # getters are read-only on the mapping
                if json.dumps(req.params) != before:
                    fail('last-mutated-params', label, qs)
    # entries placed in req.params by the application / merged from a form body
    for label, maker in MAKERS:
        req = maker('a=1&a=2', False, False)
        req.params['b'] = ['7', '8', '9']
        req.params['c'] = '5'
        req.params['d'] = ('1', '2')  # not a list: handed to the converter as is
        if req.get_param('b') != '9' or req.get_param_as_int('b') != 9:
            fail('last-app-list', label)
        if req.get_param_as_float('c') != 5.0:
            fail('last-app-scalar', label)
        if req.get_param('d') != ('1', '2'):
            fail('last-app-tuple', label)
        try:
            req.get_param_as_int('d')
        except TypeError:
            pass
        else:
            fail('last-app-tuple-int', label)
        if req.get_param_as_list('b') is not req.params['b']:
            fail('last-list-identity', label)
    env = testing.create_environ(
        path='/x', method='POST', body='a=3&b=4&b=5',
        headers={'Content-Type': 'application/x-www-form-urlencoded'})
    env['QUERY_STRING'] = 'a=1&a=2&c=x'
    opts = make_options(False, False)
    import warnings

    with warnings.catch_warnings():
        warnings.simplefilter('ignore')
        opts.auto_parse_form_urlencoded = True
    req = falcon.Request(env, options=opts)
    if req.params != {'a': '3', 'b': ['4', '5'], 'c': 'x'}:
        fail('form-merge', req.params)
    if req.get_param_as_int('a') != 3 or req.get_param_as_int('b') != 5:
        fail('form-merge-last')


main(extra=(check_last_occurrence,))
