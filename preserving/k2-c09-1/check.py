"""Check for change 1 (Request.range control-flow reshape).

Run as:  PYTHONPATH=<tree> /venv/bin/python check.py

Promise exercised (PROPERTY C09, range / range_unit part): for every Range
header value, on WSGI and on ASGI and for every header-name casing,
``req.range`` / ``req.range_unit``

  * return the value an independent RFC 9110 reading gives when the value is a
    syntactically valid single byte-range (``unit=first-[last]`` / ``unit=-n``),
  * return the same value on every repeated access,
  * for anything else either return a lenient reading or raise a 400-class
    falcon.HTTPError -- never any other exception,

and, stronger, agree case-by-case with a small reference model of the lenient
reading (the model was written from the UNMODIFIED tree's behaviour and a set of
hard-coded expectations taken from the unmodified tree is checked as well).
"""

import random
import re
import sys

import falcon
import falcon.asgi
from falcon import testing

# --------------------------------------------------------------------------
# request factories (the raw value is injected unstripped)
# --------------------------------------------------------------------------


def wsgi_req(name, value):
    env = testing.create_environ()
    if value is not None:
        env['HTTP_' + name.upper().replace('-', '_')] = value
    return falcon.Request(env)


def asgi_req(name, value):
    scope = testing.create_scope()
    scope['headers'] = [tuple(h) for h in scope['headers']]
    if value is not None:
        # ASGI servers lower-case header names; the casing the client used is
        # therefore normalised here exactly like a server would do it.
        scope['headers'].append((name.lower().encode('latin1'), value.encode('latin1')))
    return falcon.asgi.Request(scope, None)


FACTORIES = (('wsgi', wsgi_req), ('asgi', asgi_req))
CASINGS = ('Range', 'range', 'RANGE', 'rAnGe')

# --------------------------------------------------------------------------
# reference model
# --------------------------------------------------------------------------

BAD = '400'  # stands for "a 400-class HTTPError (HTTPInvalidHeader) is raised"


def _int(text):
    # The lenient reading of a number is whatever int() accepts (surrounding
    # whitespace, a sign, underscores); anything else is malformed.
    try:
        return int(text)
    except ValueError:
        return None


def model_range(value):
    if value is None:
        return None
    if '=' not in value:
        return BAD
    spec = value[value.index('=') + 1 :]
    if ',' in spec:
        return BAD
    if '-' not in spec:
        return BAD
    idx = spec.index('-')
    first, last = spec[:idx], spec[idx + 1 :]
    if first == '' and last == '':
        return BAD
    if last == '':
        n = _int(first)
        return BAD if n is None else (n, -1)
    if first == '':
        n = _int(last)
        if n is None or -n >= 0:
            return BAD
        return (-n, -1)
    a = _int(first)
    if a is None:
        return BAD
    b = _int(last)
    if b is None or b < a:
        return BAD
    return (a, b)


def model_unit(value):
    if value is None:
        return None
    if '=' not in value:
        return BAD
    return value[: value.index('=')]


_RFC_RANGE = re.compile(r'^([!#$%&\'*+.^_`|~0-9A-Za-z-]+)=(?:(\d+)-(\d*)|-(\d+))$')


def rfc_reading(value):
    """Independent RFC 9110 reading of a *single* int-range / suffix-range.

    Returns (unit, (first, last)) or None when the value is not a valid,
    satisfiable-in-principle single range.
    """
    m = _RFC_RANGE.match(value)
    if not m:
        return None
    unit, first, last, suffix = m.groups()
    if suffix is not None:
        if int(suffix) == 0:
            return None  # "-0" selects nothing; falcon answers 400
        return unit, (-int(suffix), -1)
    if last == '':
        return unit, (int(first), -1)
    if int(last) < int(first):
        return None  # invalid per RFC 9110, 14.1.1
    return unit, (int(first), int(last))


# --------------------------------------------------------------------------
# observation
# --------------------------------------------------------------------------


def observe(req, attr):
    """Access ``attr`` three times; all three outcomes must agree."""
    outcomes = []
    for _ in range(3):
        try:
            outcomes.append(getattr(req, attr))
        except falcon.HTTPError as ex:
            assert ex.status_code == 400, (attr, ex.status_code)
            assert isinstance(ex, falcon.HTTPInvalidHeader), type(ex)
            outcomes.append(BAD)
        # any other exception propagates and fails the check
    assert outcomes[0] == outcomes[1] == outcomes[2], (attr, outcomes)
    return outcomes[0]


# --------------------------------------------------------------------------
# case generation
# --------------------------------------------------------------------------


def generate(rng):
    cases = []

    # hand-written corner cases
    cases += [
        None,
        '',
        ' ',
        '=',
        '-',
        '=-',
        '==',
        'bytes',
        'bytes=',
        'bytes=-',
        'bytes=--',
        'bytes=---',
        'bytes=0-0',
        'bytes=0-',
        'bytes=-0',
        'bytes=-1',
        'bytes=-00',
        'bytes=-01',
        'bytes=00-00',
        'bytes=10-9',
        'bytes=9-10',
        'bytes=5--3',
        'bytes=--5',
        'bytes=-5-',
        'bytes=5-6-',
        'bytes=5-6-7',
        'bytes=-5-7',
        'bytes=+5-+7',
        'bytes=+5-',
        'bytes=-+5',
        'bytes= 5 - 7 ',
        'bytes= 5-',
        'bytes=- 5',
        'bytes=\t5\t-\t7\t',
        'bytes=1_0-2_0',
        'bytes=1_0-',
        'bytes=-1_0',
        'bytes=_1-2',
        'bytes=1__0-20',
        'bytes=0x10-0x20',
        'bytes=1e3-',
        'bytes=1.5-2',
        'bytes=a-b',
        'bytes=a-',
        'bytes=-b',
        'bytes=1-b',
        'bytes=a-2',
        'bytes=\xb2-\xb3',
        'bytes=\xb2-',
        'bytes=-\xb2',
        'bytes=0-0,-1',
        'bytes=0-1,2-3',
        'bytes=,',
        'bytes=0-1,',
        'bytes=,0-1',
        'bytes,=0-1',
        ',bytes=0-1',
        'bytes=0=1-2',
        'bytes==1-2',
        'bytes=1-2=',
        '=1-2',
        '=-2',
        '=2-',
        ' bytes=1-2',
        'bytes =1-2',
        'BYTES=1-2',
        'Bytes=1-2',
        'items=1-2',
        'items=-3',
        'seconds=10-',
        'bytes=99999999999999999999999999-999999999999999999999999999',
        'bytes=-99999999999999999999999999',
        'bytes=99999999999999999999999999-',
        'bytes=18446744073709551616-18446744073709551615',
        'bytes=1-2 ',
        'bytes=1 -2',
        'bytes=1- 2',
        'bytes=\x001-2',
        'bytes=1-2\x00',
        'bytes=1-2\n',
        'bytes=1\xa0-2',
        'bytes=\xa01-2\xa0',
    ]

    units = ['bytes', 'BYTES', 'Bytes', 'items', 'x', 'b-y', 'a.b', 'none', "!#$%&'*+.^_`|~"]

    def num():
        choice = rng.random()
        if choice < 0.3:
            return str(rng.randrange(0, 10))
        if choice < 0.7:
            return str(rng.randrange(0, 5000))
        if choice < 0.8:
            return '0' * rng.randrange(1, 4) + str(rng.randrange(0, 50))
        return str(rng.randrange(0, 10**25))

    # values drawn from the RFC 9110 grammar (single range)
    valid = []
    for _ in range(350):
        unit = rng.choice(units)
        k = rng.randrange(3)
        if k == 0:
            valid.append('%s=%s-%s' % (unit, num(), num()))
        elif k == 1:
            valid.append('%s=%s-' % (unit, num()))
        else:
            valid.append('%s=-%s' % (unit, num()))
    cases += valid

    # multi-range values from the grammar (falcon: not supported -> 400)
    for _ in range(40):
        parts = []
        for _ in range(rng.randrange(2, 4)):
            k = rng.randrange(3)
            parts.append(
                ('%s-%s' % (num(), num()), '%s-' % num(), '-%s' % num())[k]
            )
        cases.append('bytes=' + rng.choice([',', ', ', ' , ']).join(parts))

    # mutations of valid values
    alphabet = '0123456789-=, \t_+abx.\xb2\xa0"'
    for _ in range(500):
        s = list(rng.choice(valid))
        for _ in range(rng.randrange(1, 4)):
            op = rng.randrange(4)
            pos = rng.randrange(len(s) + 1)
            if op == 0:
                s.insert(pos, rng.choice(alphabet))
            elif op == 1 and s:
                del s[min(pos, len(s) - 1)]
            elif op == 2 and s:
                s[min(pos, len(s) - 1)] = rng.choice(alphabet)
            elif op == 3 and len(s) > 1:
                i = min(pos, len(s) - 2)
                s[i], s[i + 1] = s[i + 1], s[i]
        cases.append(''.join(s))

    # random soup
    for _ in range(150):
        cases.append(''.join(rng.choice(alphabet) for _ in range(rng.randrange(0, 12))))

    return cases


# Hard-coded expectations taken from the UNMODIFIED tree.
PINNED = {
    'bytes=0-0': ((0, 0), 'bytes'),
    'bytes=10-': ((10, -1), 'bytes'),
    'bytes=-10': ((-10, -1), 'bytes'),
    'bytes=5-9': ((5, 9), 'bytes'),
    'bytes=9-5': (BAD, 'bytes'),
    'bytes=-0': (BAD, 'bytes'),
    'bytes=-': (BAD, 'bytes'),
    'bytes=': (BAD, 'bytes'),
    'bytes': (BAD, BAD),
    '': (BAD, BAD),
    'bytes=0-0,-1': (BAD, 'bytes'),
    'bytes=--5': (BAD, 'bytes'),
    'bytes=5--3': (BAD, 'bytes'),
    'bytes= 5 - 7 ': ((5, 7), 'bytes'),
    'bytes=1_0-2_0': ((10, 20), 'bytes'),
    'bytes=+5-+7': ((5, 7), 'bytes'),
    'bytes=-+5': ((-5, -1), 'bytes'),
    'bytes=a-b': (BAD, 'bytes'),
    'bytes=\xb2-': (BAD, 'bytes'),
    'items=3-4': ((3, 4), 'items'),
    '=3-4': ((3, 4), ''),
    'a=b=3-4': (BAD, 'a'),
    'bytes=1-2-3': (BAD, 'bytes'),
}

PINNED_MISSING_OFFSETS_DESCRIPTION = (
    'The value provided for the "Range" header is invalid. '
    'The range offsets are missing.'
)


def main():
    rng = random.Random(90109)
    cases = generate(rng) + list(PINNED)
    n = 0
    n_valid = 0

    for value in cases:
        exp_range = model_range(value)
        exp_unit = model_unit(value)

        rfc = rfc_reading(value) if value is not None else None
        if rfc is not None:
            n_valid += 1
            # the model itself must agree with the independent RFC reading
            assert (exp_unit, exp_range) == rfc, (value, exp_unit, exp_range, rfc)

        if value in PINNED:
            assert (exp_range, exp_unit) == PINNED[value], (value, exp_range, exp_unit)

        for side, factory in FACTORIES:
            for casing in CASINGS:
                # range first, then unit -- and the other way round -- on
                # separate request objects (different access histories)
                req = factory(casing, value)
                got_r = observe(req, 'range')
                got_u = observe(req, 'range_unit')
                assert got_r == exp_range, (side, casing, value, got_r, exp_range)
                assert got_u == exp_unit, (side, casing, value, got_u, exp_unit)
                if got_r is not BAD and got_r is not None:
                    assert type(got_r) is tuple and len(got_r) == 2
                    assert all(type(x) is int for x in got_r)

                req = factory(casing, value)
                assert observe(req, 'range_unit') == exp_unit
                assert observe(req, 'range') == exp_range
                n += 1

    # The three different 400 answers stay distinguishable (titles/descriptions
    # as produced by the unmodified tree).
    for side, factory in FACTORIES:
        for value, fragment in (
            ('bytes', "prefixed with a range unit, e.g. 'bytes='"),
            ('bytes=1-2,3-4', 'The value must be a continuous range.'),
            ('bytes=-', 'The range offsets are missing.'),
            ('bytes=x-', 'It must be a range formatted according to RFC 7233.'),
            ('bytes=5', 'It must be a range formatted according to RFC 7233.'),
            ('bytes=-0', 'It must be a range formatted according to RFC 7233.'),
            ('bytes=9-5', 'It must be a range formatted according to RFC 7233.'),
        ):
            try:
                factory('Range', value).range
            except falcon.HTTPInvalidHeader as ex:
                assert fragment in ex.description, (side, value, ex.description)
                assert ex.title == 'Invalid header value'
            else:
                raise AssertionError((side, value, 'no error'))
        try:
            factory('Range', 'bytes=-').range
        except falcon.HTTPInvalidHeader as ex:
            assert ex.description == PINNED_MISSING_OFFSETS_DESCRIPTION, ex.description

    assert n_valid >= 250, n_valid
    print('cases: %d values (%d RFC-valid), %d request histories' % (len(cases), n_valid, n))
    print('PASS')
    return 0


if __name__ == '__main__':
    sys.exit(main())
