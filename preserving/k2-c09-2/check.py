"""Check for change 2 (falcon/forwarded.py: forwarded-pair assignment extracted
into the private helper ``_set_forwarded_param``).

Run as:  PYTHONPATH=<tree> /venv/bin/python check.py

Promise exercised (PROPERTY C09, Forwarded part): for every Forwarded header
value, on WSGI and ASGI and in every header-name casing,

  * ``req.forwarded`` lists, in order, the forwarded-elements an independent
    RFC 7239 reading gives (for/by/host/proto, proto lower-cased, parameter
    names case-insensitive, quoted-strings un-escaped, unknown parameters
    ignored) whenever the header is built from the grammar;
  * ``forwarded_scheme``, ``forwarded_host``, ``forwarded_uri``,
    ``forwarded_prefix`` and ``access_route`` are the values that follow from it;
  * every accessor returns the same value on every repeated access;
  * for mutated / hostile values the parser gives a lenient reading (compared
    against a small reference scanner) and never raises.

Expectations for the structured cases are computed from the *structure* the
header was rendered from, not from the header text.
"""

import random
import re
import string
import sys

import falcon
import falcon.asgi
from falcon import testing
from falcon.forwarded import _parse_forwarded_header
from falcon.forwarded import Forwarded

REMOTE = '127.0.0.1'
_toggle = [0]

# --------------------------------------------------------------------------
# request factories
# --------------------------------------------------------------------------


def wsgi_req(name, value, extra=()):
    env = testing.create_environ(path='/p', query_string='q=1')
    if value is not None:
        env['HTTP_' + name.upper().replace('-', '_')] = value
    for n, v in extra:
        env['HTTP_' + n.upper().replace('-', '_')] = v
    # falcon defaults to 127.0.0.1 when the server gives no peer address;
    # exercise both the explicit and the defaulted form
    _toggle[0] += 1
    if _toggle[0] % 2:
        env['REMOTE_ADDR'] = REMOTE
    else:
        env.pop('REMOTE_ADDR', None)
    return falcon.Request(env)


def asgi_req(name, value, extra=()):
    scope = testing.create_scope(path='/p', query_string='q=1')
    scope['headers'] = [tuple(h) for h in scope['headers']]
    if value is not None:
        scope['headers'].append((name.lower().encode('latin1'), value.encode('latin1')))
    for n, v in extra:
        scope['headers'].append((n.lower().encode('latin1'), v.encode('latin1')))
    _toggle[0] += 1
    if _toggle[0] % 2:
        scope['client'] = (REMOTE, 61234)
    else:
        scope.pop('client', None)
    return falcon.asgi.Request(scope, None)


FACTORIES = (('wsgi', wsgi_req), ('asgi', asgi_req))
CASINGS = ('Forwarded', 'forwarded', 'FORWARDED', 'fOrWaRdEd')

TCHAR = set(string.digits + string.ascii_letters + "!#$%&'*+.^_`|~-")

# --------------------------------------------------------------------------
# independent reading of structured headers
# --------------------------------------------------------------------------

ATTR = {'for': 'src', 'by': 'dest', 'host': 'host', 'proto': 'scheme'}


def expected_elements(structure):
    out = []
    for pairs in structure:
        if not pairs:
            continue  # empty list member
        el = {'src': None, 'dest': None, 'host': None, 'scheme': None}
        for name, value in pairs:
            attr = ATTR.get(name.lower())
            if attr is None:
                continue
            el[attr] = value.lower() if attr == 'scheme' else value
        out.append(el)
    return out


def model_parse_host(node):
    """(host, ok) -- ok False when the port is not a decimal int()."""
    if node.startswith('['):
        pos = node.rfind(']:')
        if pos != -1:
            try:
                int(node[pos + 2 :])
            except ValueError:
                return None, False
            return node[1:pos], True
        return node[1:-1], True
    if node.count(':') != 1:
        return node, True
    name, port = node.split(':')
    try:
        int(port)
    except ValueError:
        return None, False
    return name, True


def expected_route(elements):
    """Expected access_route, or None if a node has a non-numeric port.

    (Nodes with an obfuscated port make parse_host() fail today; that is
    independent of the code under test and is left out of the comparison.)
    """
    route = []
    for el in elements:
        if el['src'] is not None:
            host, ok = model_parse_host(el['src'])
            if not ok:
                return None
            route.append(host)
    if route:
        if route[-1] != REMOTE:
            route.append(REMOTE)
    else:
        route = [REMOTE]
    return route


def quote(value, rng):
    out = ['"']
    for ch in value:
        if ch in '"\\':
            out.append('\\' + ch)
        elif rng.random() < 0.05:
            out.append('\\' + ch)  # needless but legal quoted-pair
        else:
            out.append(ch)
    out.append('"')
    return ''.join(out)


def render(structure, rng, lenient_ws):
    rendered = []
    for pairs in structure:
        parts = []
        for name, value in pairs:
            is_token = value != '' and all(c in TCHAR for c in value)
            if is_token and rng.random() < 0.6:
                text = value
            else:
                text = quote(value, rng)
            parts.append(name + '=' + text)
        if lenient_ws:
            sep = rng.choice([';', '; ', ' ;', ' ; ', ';\t'])
        else:
            sep = ';'
        rendered.append(sep.join(parts))
    return rng.choice([',', ', ', ' ,', ' , ', ',\t']).join(rendered)


def as_dicts(elements):
    assert isinstance(elements, list)
    out = []
    for el in elements:
        assert type(el) is Forwarded, type(el)
        out.append({'src': el.src, 'dest': el.dest, 'host': el.host, 'scheme': el.scheme})
    return out


# --------------------------------------------------------------------------
# reference scanner for arbitrary (also malformed) values
# --------------------------------------------------------------------------

_TOK = r"[0-9A-Za-z!#$%&'*+.^_`|~-]+"
# qdtext per RFC 7230 (obs-text excluded): HTAB / SP / %x21 / %x23-5B / %x5D-7E
_QS = r'"(?:\\[\t !-~]|[\t !#-\[\]-~])*"'
_PAIR = re.compile('(%s)=(%s|%s)' % (_TOK, _TOK, _QS))


def model_unquote(text):
    body = text[1:-1]
    out = []
    i = 0
    while i < len(body):
        if body[i] == '\\':
            if i + 1 < len(body):
                out.append(body[i + 1])
            i += 2
        else:
            out.append(body[i])
            i += 1
    return ''.join(out)


def model_scan(header):
    out = []
    cur = None
    pos = 0
    blocked = False  # a pair was read and no ';' / ',' has been seen since
    n = len(header)
    while pos < n:
        m = _PAIR.match(header, pos)
        ch = header[pos]
        if m and blocked:
            nxt = header.find(',', pos)
            if nxt < 0:
                break
            pos = nxt
        elif m:
            pos = m.end()
            blocked = True
            name, value = m.group(1).lower(), m.group(2)
            if value.startswith('"'):
                value = model_unquote(value)
            if cur is None:
                cur = {'src': None, 'dest': None, 'host': None, 'scheme': None}
            if name in ATTR:
                cur[ATTR[name]] = value.lower() if name == 'proto' else value
        elif ch == ',':
            blocked = False
            pos += 1
            if cur is not None:
                out.append(cur)
                cur = None
        elif ch == ';':
            blocked = False
            pos += 1
        elif ch == ' ' or ch == '\t':
            pos += 1
        else:
            nxt = header.find(',', pos)
            if nxt < 0:
                break
            pos = nxt
    if cur is not None:
        out.append(cur)
    return out


# --------------------------------------------------------------------------
# observation
# --------------------------------------------------------------------------


def stable(req, attr):
    first = getattr(req, attr)
    for _ in range(2):
        again = getattr(req, attr)
        if attr == 'forwarded' and first is not None:
            assert again is first  # memoised
        assert again == first or as_dicts_safe(again) == as_dicts_safe(first), attr
    return first


def as_dicts_safe(x):
    if isinstance(x, list) and x and isinstance(x[0], Forwarded):
        return as_dicts(x)
    return x


def check_request(side, req, header, elements, check_route=True):
    got = stable(req, 'forwarded')
    if header is None:
        assert got is None, (side, got)
        elements = []
    else:
        assert as_dicts(got) == elements, (side, header, as_dicts(got), elements)

    first = elements[0] if elements else None
    exp_scheme = (first and first['scheme']) or 'http'
    exp_host = (first and first['host']) or 'falconframework.org'
    assert stable(req, 'forwarded_scheme') == exp_scheme, (side, header)
    assert stable(req, 'forwarded_host') == exp_host, (side, header)
    assert stable(req, 'forwarded_uri') == exp_scheme + '://' + exp_host + '/p?q=1'
    assert stable(req, 'forwarded_prefix') == exp_scheme + '://' + exp_host
    assert stable(req, 'netloc') == 'falconframework.org'
    assert stable(req, 'scheme') == 'http'

    if check_route:
        route = expected_route(elements)
        if route is not None:
            got_route = stable(req, 'access_route')
            assert got_route == route, (side, header, got_route, route)
            assert stable(req, 'remote_addr') == REMOTE


# --------------------------------------------------------------------------
# generation
# --------------------------------------------------------------------------

NODES = [
    '192.0.2.43',
    '192.0.2.43:47011',
    '198.51.100.17',
    '[2001:db8:cafe::17]',
    '[2001:db8:cafe::17]:4711',
    '[::1]',
    '[::1]:80',
    'unknown',
    '_hidden',
    '_SEVKISEK',
    '_hidden:8080',
    'unknown:1',
    '127.0.0.1',
    '127.0.0.1:9',
    '10.0.0.1:0',
    '192.0.2.43:_obfport',  # RFC 7239 obfuscated port (route comparison skipped)
    '[2001:db8::1]:_p',
    '',
    'a b',
    'we"ird\\node',
]
HOSTS = [
    'example.com',
    'example.com:8080',
    'EXAMPLE.org',
    '[::1]:8000',
    'sub.example.com',
    'localhost',
    '',
    'h"o\\st',
]
PROTOS = ['http', 'https', 'HTTP', 'HttpS', 'ws', 'WSS', 'x-custom', '']
NAMES = {
    'for': ['for', 'For', 'FOR', 'fOr'],
    'by': ['by', 'By', 'BY'],
    'host': ['host', 'Host', 'HOST'],
    'proto': ['proto', 'Proto', 'PROTO', 'pRoTo'],
}
UNKNOWN = ['ext', 'secret', 'x-y', 'forr', 'b', 'hosts', 'prot', 'FORby', '_for', 'for.']


def gen_structure(rng, allow_dups, allow_empty):
    structure = []
    for _ in range(rng.randrange(1, 5)):
        if allow_empty and rng.random() < 0.1:
            structure.append([])
            continue
        pairs = []
        kinds = ['for', 'by', 'host', 'proto']
        rng.shuffle(kinds)
        kinds = kinds[: rng.randrange(0, 5)]
        if allow_dups and rng.random() < 0.3:
            kinds += [rng.choice(['for', 'by', 'host', 'proto'])]
        for kind in kinds:
            pool = {'for': NODES, 'by': NODES, 'host': HOSTS, 'proto': PROTOS}[kind]
            pairs.append((rng.choice(NAMES[kind]), rng.choice(pool)))
        for _ in range(rng.randrange(0, 2)):
            pairs.insert(
                rng.randrange(len(pairs) + 1),
                (rng.choice(UNKNOWN), rng.choice(NODES + HOSTS + PROTOS)),
            )
        if not pairs:
            pairs.append((rng.choice(NAMES['for']), rng.choice(NODES)))
        structure.append(pairs)
    return structure


HAND = [
    None,
    '',
    ' ',
    ',',
    ';',
    ',,;;, ,',
    'for=192.0.2.43',
    'For="[2001:db8:cafe::17]:4711"',
    'for=192.0.2.60;proto=http;by=203.0.113.43',
    'for=192.0.2.43, for=198.51.100.17',
    'for=192.0.2.43,for="[2001:db8:cafe::17]",for=unknown',
    'for=_hidden, for=_SEVKISEK',
    'proto=HTTPS',
    'PROTO=HTTPS;HOST=Example.COM',
    'host=""',
    'proto=""',
    'for=""',
    'for="',
    'for="a',
    'for="a\\"',
    'for="a\\',
    'for="\\\\"',
    'for="\\\\\\""',
    'for=a b',
    'for=a by=b',
    'for=a;by=b by=c;host=d, for=e',
    'for=a,,for=b',
    'for=a;;by=b',
    'for=a;',
    'for=a,',
    ';for=a',
    ',for=a',
    'for==a',
    'for=a=b',
    'for=a=b;by=c',
    'for=[::1]',
    'for=[::1];by=x, for=y',
    'for=1.2.3.4:80',
    '=a',
    'for=',
    'for',
    'for;by=a',
    'f\xf6r=a, for=b',
    'for=\xe9, for=b',
    'for="\xe9", by=c',
    'ext=1',
    'ext=1;secret=2, other=3',
    'ext=1, for=a',
    'for=a;ext="x,y";by=b',
    'for="a,b";by=c',
    'for="a;b";by=c',
    'for="a=b";by=c',
    'for=a;for=b',
    'proto=a;proto=B',
    '\tfor=a\t;\tby=b\t,\tfor=c\t',
    'for=a\nby=b, for=c',
    'for=a\x00, for=b',
]


def main():
    rng = random.Random(7239)
    n_struct = n_mut = 0

    # the helper-level contract: a parsed list of Forwarded objects
    assert _parse_forwarded_header('') == []
    el = Forwarded()
    assert (el.src, el.dest, el.host, el.scheme) == (None, None, None, None)

    # ---- structured (grammar) cases --------------------------------------
    structures = []
    for _ in range(300):
        structures.append((gen_structure(rng, False, False), False))
    for _ in range(200):
        structures.append((gen_structure(rng, True, True), True))

    headers_for_mutation = []
    for structure, lenient in structures:
        header = render(structure, rng, lenient)
        if any(ord(c) > 255 for c in header):
            continue
        headers_for_mutation.append(header)
        elements = expected_elements(structure)
        # the reference scanner must agree with the structural reading too
        assert model_scan(header) == elements, (header, model_scan(header), elements)
        assert as_dicts(_parse_forwarded_header(header)) == elements, header
        casing = CASINGS[n_struct % len(CASINGS)]
        for side, factory in FACTORIES:
            check_request(side, factory(casing, header), header, elements)
            # a different access history: derived accessors before .forwarded
            req = factory(casing, header)
            first = elements[0] if elements else None
            assert req.forwarded_host == ((first and first['host']) or 'falconframework.org')
            assert req.forwarded_scheme == ((first and first['scheme']) or 'http')
            assert as_dicts(req.forwarded) == elements
            # X-Forwarded-* are ignored whenever Forwarded is present
            req = factory(
                casing,
                header,
                extra=(
                    ('X-Forwarded-Proto', 'gopher'),
                    ('X-Forwarded-Host', 'other.example'),
                    ('X-Forwarded-For', '9.9.9.9'),
                ),
            )
            check_request(side, req, header, elements)
        n_struct += 1

    # ---- hand-written, mutated and hostile values ------------------------
    hostile = list(HAND)
    alphabet = 'for=by;host,proto" \\\t[]:._-aZ9\xe9='
    for _ in range(450):
        s = list(rng.choice(headers_for_mutation))
        for _ in range(rng.randrange(1, 4)):
            op = rng.randrange(4)
            pos = rng.randrange(len(s) + 1)
            if op == 0:
                s.insert(pos, rng.choice(alphabet))
            elif op == 1 and s:
                del s[min(pos, len(s) - 1)]
            elif op == 2 and s:
                s[min(pos, len(s) - 1)] = rng.choice(alphabet)
            elif op == 3 and len(s) > 1:
                i = min(pos, len(s) - 2)
                s[i], s[i + 1] = s[i + 1], s[i]
        hostile.append(''.join(s))
    for _ in range(150):
        hostile.append(''.join(rng.choice(alphabet) for _ in range(rng.randrange(0, 25))))

    for header in hostile:
        elements = model_scan(header) if header is not None else []
        casing = CASINGS[n_mut % len(CASINGS)]
        for side, factory in FACTORIES:
            # never raises; lenient reading agrees with the reference scanner
            check_request(side, factory(casing, header), header, elements)
        n_mut += 1

    # ---- hard-coded expectations taken from the UNMODIFIED tree ----------
    pinned = {
        'for=192.0.2.60;proto=HTTP;by=203.0.113.43;host=Example.com': [
            {'src': '192.0.2.60', 'dest': '203.0.113.43', 'host': 'Example.com', 'scheme': 'http'}
        ],
        'For="[2001:db8:cafe::17]:4711", for=unknown': [
            {'src': '[2001:db8:cafe::17]:4711', 'dest': None, 'host': None, 'scheme': None},
            {'src': 'unknown', 'dest': None, 'host': None, 'scheme': None},
        ],
        'ext=1': [{'src': None, 'dest': None, 'host': None, 'scheme': None}],
        'for=a by=b, for=c': [
            {'src': 'a', 'dest': None, 'host': None, 'scheme': None},
            {'src': 'c', 'dest': None, 'host': None, 'scheme': None},
        ],
        'for="a\\"b\\\\c";proto=""': [
            {'src': 'a"b\\c', 'dest': None, 'host': None, 'scheme': ''}
        ],
        'for=a;for=b;FOR=c': [{'src': 'c', 'dest': None, 'host': None, 'scheme': None}],
        ', ,': [],
        'for=': [],
    }
    for header, elements in pinned.items():
        assert as_dicts(_parse_forwarded_header(header)) == elements, header
        for side, factory in FACTORIES:
            check_request(side, factory('Forwarded', header), header, elements)

    req = wsgi_req('Forwarded', 'For="[2001:db8:cafe::17]:4711", for=192.0.2.43:1, for=unknown')
    assert req.access_route == ['2001:db8:cafe::17', '192.0.2.43', 'unknown', REMOTE]
    req = asgi_req('Forwarded', 'For="[2001:db8:cafe::17]:4711", for=192.0.2.43:1, for=unknown')
    assert req.access_route == ['2001:db8:cafe::17', '192.0.2.43', 'unknown', REMOTE]

    assert n_struct >= 450, n_struct
    print('structured headers: %d, hostile/mutated headers: %d (x WSGI/ASGI)' % (n_struct, n_mut))
    print('PASS')
    return 0


if __name__ == '__main__':
    sys.exit(main())
