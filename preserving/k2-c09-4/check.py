"""Check for change 4 (falcon/request.py: ``Request.get_header_as_datetime()``
gains an optional keyword-only ``default`` parameter, default ``None``).

Run as:  PYTHONPATH=<tree> /venv/bin/python check.py

Promise exercised (PROPERTY C09, date part): for every value of Date /
If-Modified-Since / If-Unmodified-Since (and get_header_as_datetime() on any
header, with and without obs_date, in every existing calling convention), on
WSGI and ASGI, in every header-name casing:

  * a value drawn from the RFC 9110 HTTP-date grammar (IMF-fixdate; with
    obs_date also rfc850-date and asctime-date) reads as exactly the instant an
    independent parser gives, as a timezone-aware UTC datetime;
  * a missing header reads as ``None`` (or a 400-class HTTPMissingHeader when
    ``required``) -- for every way today's callers can spell the call;
  * a date written by the response API reads back to the same instant;
  * repeated access gives the same value;
  * any other value gives either a lenient reading or a 400-class HTTPError
    (HTTPInvalidHeader), never another exception -- and agrees with a plain
    reference (datetime.strptime over the literal, spelled-out formats).

Where the tree under test offers the new ``default`` keyword it is exercised
as well (it must only matter when the header is absent and not required); on
the unmodified tree that part is skipped, everything else is identical.
"""

import datetime
import inspect
import random
import re
import sys

import falcon
import falcon.asgi
from falcon import testing

UTC = datetime.timezone.utc
BAD = '400'

DAYS = ('Mon', 'Tue', 'Wed', 'Thu', 'Fri', 'Sat', 'Sun')
LONG_DAYS = ('Monday', 'Tuesday', 'Wednesday', 'Thursday', 'Friday', 'Saturday', 'Sunday')
MONTHS = ('Jan', 'Feb', 'Mar', 'Apr', 'May', 'Jun', 'Jul', 'Aug', 'Sep', 'Oct', 'Nov', 'Dec')

# --------------------------------------------------------------------------
# request factories
# --------------------------------------------------------------------------


def wsgi_req(name, value):
    env = testing.create_environ()
    if value is not None:
        env['HTTP_' + name.upper().replace('-', '_')] = value
    return falcon.Request(env)


def asgi_req(name, value):
    scope = testing.create_scope()
    scope['headers'] = [tuple(h) for h in scope['headers']]
    if value is not None:
        scope['headers'].append((name.lower().encode('latin1'), value.encode('latin1')))
    return falcon.asgi.Request(scope, None)


FACTORIES = (('wsgi', wsgi_req), ('asgi', asgi_req))


def casings(name):
    return (name, name.lower(), name.upper(), name.swapcase())


HEADERS = (
    ('Date', 'date'),
    ('If-Modified-Since', 'if_modified_since'),
    ('If-Unmodified-Since', 'if_unmodified_since'),
)

# --------------------------------------------------------------------------
# independent formatter / parser for the RFC 9110 HTTP-date grammar
# --------------------------------------------------------------------------


def fmt_imf(dt):
    return '%s, %02d %s %04d %02d:%02d:%02d GMT' % (
        DAYS[dt.weekday()], dt.day, MONTHS[dt.month - 1], dt.year, dt.hour, dt.minute, dt.second,
    )


def fmt_rfc850(dt):
    return '%s, %02d-%s-%02d %02d:%02d:%02d GMT' % (
        LONG_DAYS[dt.weekday()], dt.day, MONTHS[dt.month - 1], dt.year % 100,
        dt.hour, dt.minute, dt.second,
    )


def fmt_asctime(dt):
    return '%s %s %2d %02d:%02d:%02d %04d' % (
        DAYS[dt.weekday()], MONTHS[dt.month - 1], dt.day, dt.hour, dt.minute, dt.second, dt.year,
    )


_IMF = re.compile(
    r'\A(Mon|Tue|Wed|Thu|Fri|Sat|Sun), (\d\d) (Jan|Feb|Mar|Apr|May|Jun|Jul|Aug|Sep|Oct|Nov|Dec)'
    r' (\d{4}) (\d\d):(\d\d):(\d\d) GMT\Z'
)


def rfc_imf(value):
    """Independent strict IMF-fixdate reading -> aware datetime or None."""
    m = _IMF.match(value)
    if not m:
        return None
    __, day, mon, year, hh, mm, ss = m.groups()
    try:
        return datetime.datetime(
            int(year), MONTHS.index(mon) + 1, int(day), int(hh), int(mm), int(ss), tzinfo=UTC
        )
    except ValueError:
        return None


# --------------------------------------------------------------------------
# plain reference for arbitrary values: strptime over spelled-out formats
# --------------------------------------------------------------------------

REF_FIXDATE = '%a, %d %b %Y %H:%M:%S GMT'
REF_OBS = (
    '%a, %d %b %Y %H:%M:%S %Z',
    '%a, %d-%b-%Y %H:%M:%S %Z',
    '%A, %d-%b-%y %H:%M:%S %Z',
    '%a %b %d %H:%M:%S %Y',
)


def reference(value, obs_date):
    if value is None:
        return None
    formats = REF_OBS if obs_date else (REF_FIXDATE,)
    for f in formats:
        try:
            return datetime.datetime.strptime(value, f).replace(tzinfo=UTC)
        except ValueError:
            continue
    return BAD


# --------------------------------------------------------------------------
# observation
# --------------------------------------------------------------------------


def observe(fn):
    outcomes = []
    for _ in range(3):
        try:
            got = fn()
        except falcon.HTTPError as ex:
            assert ex.status_code == 400, ex.status_code
            assert isinstance(ex, falcon.HTTPInvalidHeader), type(ex)
            assert 'RFC 7231, Section 7.1.1.1' in ex.description, ex.description
            got = BAD
        outcomes.append(got)
    assert outcomes[0] == outcomes[1] == outcomes[2], outcomes
    got = outcomes[0]
    if got is not None and got is not BAD:
        assert type(got) is datetime.datetime
        assert got.tzinfo is UTC and got.utcoffset() == datetime.timedelta(0)
        assert got.microsecond == 0
    return got


def check_value(value, n):
    """All accessors, both sides; returns the number of request histories."""
    exp_strict = reference(value, False)
    exp_obs = reference(value, True)

    strict = rfc_imf(value) if value is not None else None
    if strict is not None:
        assert exp_strict == strict, (value, exp_strict, strict)
        assert exp_obs == strict, (value, exp_obs, strict)

    count = 0
    header, attr = HEADERS[n % len(HEADERS)]
    incoming = casings(header)[n % 4]
    lookup = casings(header)[(n // 4) % 4]
    for side, factory in FACTORIES:
        req = factory(incoming, value)
        got = observe(lambda: getattr(req, attr))
        assert got == exp_strict, (side, header, value, got, exp_strict)
        got = observe(lambda: req.get_header_as_datetime(lookup))
        assert got == exp_strict, (side, lookup, value, got, exp_strict)
        got = observe(lambda: req.get_header_as_datetime(lookup, obs_date=True))
        assert got == exp_obs, (side, lookup, value, got, exp_obs)
        got = observe(lambda: req.get_header_as_datetime(lookup, False, False))
        assert got == exp_strict
        # reverse history on a fresh request
        req = factory(incoming, value)
        assert observe(lambda: req.get_header_as_datetime(lookup, obs_date=True)) == exp_obs
        assert observe(lambda: getattr(req, attr)) == exp_strict
        # an arbitrary (non-standard) header goes through the same reader
        req = factory('X-When', value)
        assert observe(lambda: req.get_header_as_datetime('x-when')) == exp_strict
        assert observe(lambda: req.get_header_as_datetime('X-WHEN', obs_date=True)) == exp_obs
        count += 3

    # the helper itself
    if value is not None:
        for obs, exp in ((False, exp_strict), (True, exp_obs)):
            try:
                got = falcon.http_date_to_dt(value, obs_date=obs)
            except ValueError:
                got = BAD
            assert got == exp, (value, obs, got, exp)
        try:
            assert falcon.http_date_to_dt(value) == exp_strict
        except ValueError:
            assert exp_strict is BAD
    return count


# --------------------------------------------------------------------------
# generation
# --------------------------------------------------------------------------


def rand_dt(rng, lo=1000, hi=9999):
    year = rng.randrange(lo, hi + 1)
    month = rng.randrange(1, 13)
    day = rng.randrange(1, 29) if rng.random() < 0.8 else rng.choice([28, 29, 30, 31])
    while True:
        try:
            return datetime.datetime(
                year, month, day, rng.randrange(24), rng.randrange(60), rng.randrange(60), tzinfo=UTC
            )
        except ValueError:
            day -= 1


HAND = [
    None,
    '',
    ' ',
    'GMT',
    'Tue, 15 Nov 1994 12:45:26 GMT',
    'Tue, 15 Nov 1994 12:45:26 gmt',
    'Tue, 15 Nov 1994 12:45:26 UTC',
    'Tue, 15 Nov 1994 12:45:26 EST',
    'Tue, 15 Nov 1994 12:45:26 +0000',
    'Tue, 15 Nov 1994 12:45:26',
    'Tue, 15 Nov 1994 12:45:26 ',
    'Tue, 15 Nov 1994 12:45:26 GMT ',
    ' Tue, 15 Nov 1994 12:45:26 GMT',
    'Tue, 15 Nov 1994 12:45:26 GMT GMT',
    'Tue,  15 Nov 1994 12:45:26 GMT',
    'Tue,15 Nov 1994 12:45:26 GMT',
    'Tue, 15 Nov 1994  12:45:26 GMT',
    'Tue, 15 Nov 1994\t12:45:26 GMT',
    'tue, 15 nov 1994 12:45:26 GMT',
    'TUE, 15 NOV 1994 12:45:26 GMT',
    'Mon, 15 Nov 1994 12:45:26 GMT',  # wrong weekday
    'Tuesday, 15 Nov 1994 12:45:26 GMT',
    'Tue, 5 Nov 1994 12:45:26 GMT',
    'Tue, 05 Nov 1994 2:45:26 GMT',
    'Tue, 15 Nov 1994 12:45 GMT',
    'Tue, 15 Nov 1994 12:45:60 GMT',
    'Tue, 15 Nov 1994 12:45:61 GMT',
    'Tue, 15 Nov 1994 12:45:62 GMT',
    'Tue, 15 Nov 1994 24:00:00 GMT',
    'Tue, 15 Nov 1994 23:60:00 GMT',
    'Tue, 31 Nov 1994 12:45:26 GMT',
    'Tue, 29 Feb 1995 12:45:26 GMT',
    'Thu, 29 Feb 1996 12:45:26 GMT',
    'Tue, 00 Nov 1994 12:45:26 GMT',
    'Tue, 32 Nov 1994 12:45:26 GMT',
    'Tue, 15 Nov 0000 12:45:26 GMT',
    'Tue, 15 Nov 0001 12:45:26 GMT',
    'Tue, 15 Nov 9999 23:59:59 GMT',
    'Tue, 15 Nov 10000 12:45:26 GMT',
    'Tue, 15 Nov 994 12:45:26 GMT',
    'Tue, 15 Nov 94 12:45:26 GMT',
    'Tue, 15 Nov -994 12:45:26 GMT',
    'Tue, 15 Nvm 1994 12:45:26 GMT',
    'Tue, 15 November 1994 12:45:26 GMT',
    'Tue, 15-Nov-1994 12:45:26 GMT',
    'Tue, 15-Nov-94 12:45:26 GMT',
    'Tuesday, 15-Nov-94 12:45:26 GMT',
    'Tuesday, 15-Nov-1994 12:45:26 GMT',
    'Sunday, 06-Nov-94 08:49:37 GMT',
    'Sunday, 06-Nov-68 08:49:37 GMT',
    'Sunday, 06-Nov-69 08:49:37 GMT',
    'Sunday, 06-Nov-00 08:49:37 GMT',
    'Sun Nov  6 08:49:37 1994',
    'Sun Nov 6 08:49:37 1994',
    'Sun Nov 06 08:49:37 1994',
    'Sun Nov  6 08:49:37 1994 GMT',
    'Sun, 06 Nov 1994 08:49:37 GMT',
    'Thu, 04 Apr 2013 10:28:54 GMT',
    'Thu, 04 Apr 2013',
    '2013-04-04T10:28:54Z',
    '1365071334',
    'Thu, 04 Apr 2013 10:28:54 GMT\n',
    'Thu, 04 Apr 2013 10:28:54 GMT\x00',
    'Thu, 04 Apr 2013 10:28:54 G\xb5T',
    'Thu, \xb2\xb3 Apr 2013 10:28:54 GMT',
    'Thu, 04 Apr 2013 10:28:54 GMT, Thu, 04 Apr 2013 10:28:54 GMT',
    '%a, %d %b %Y %H:%M:%S GMT',
    'Thu, 04 Apr 2013 10:28:54 %Z',
]


def main():
    rng = random.Random(9110)
    values = list(HAND)
    valid = []

    # grammar: IMF-fixdate
    for _ in range(300):
        valid.append(fmt_imf(rand_dt(rng)))
    values += valid
    # grammar: obs-date forms
    obs = []
    for _ in range(120):
        dt = rand_dt(rng, 1969, 2068)
        obs.append((fmt_rfc850(dt), dt))
    for _ in range(120):
        dt = rand_dt(rng)
        obs.append((fmt_asctime(dt), dt))
    values += [v for v, __ in obs]

    # mutations
    alphabet = '0123456789 ,:-GMTUCgmtadeJanFSu\t\xb5+Z%'
    pool = valid + [v for v, __ in obs]
    for _ in range(450):
        s = list(rng.choice(pool))
        for _ in range(rng.randrange(1, 4)):
            op = rng.randrange(4)
            pos = rng.randrange(len(s) + 1)
            if op == 0:
                s.insert(pos, rng.choice(alphabet))
            elif op == 1 and s:
                del s[min(pos, len(s) - 1)]
            elif op == 2 and s:
                s[min(pos, len(s) - 1)] = rng.choice(alphabet)
            elif op == 3 and len(s) > 1:
                i = min(pos, len(s) - 2)
                s[i], s[i + 1] = s[i + 1], s[i]
        values.append(''.join(s))
    # field-level mutations (out-of-range numbers, other zones)
    for _ in range(150):
        values.append(
            '%s, %02d %s %04d %02d:%02d:%02d %s'
            % (
                rng.choice(DAYS + LONG_DAYS),
                rng.randrange(0, 34),
                rng.choice(MONTHS + ('Foo',)),
                rng.randrange(0, 10001),
                rng.randrange(0, 26),
                rng.randrange(0, 63),
                rng.randrange(0, 63),
                rng.choice(['GMT', 'UTC', 'gmt', 'EST', 'Z', '', '+0000']),
            )
        )

    histories = 0
    for n, value in enumerate(values):
        histories += check_value(value, n)

    # grammar values read as the instant they were rendered from
    n_valid = 0
    for value in valid:
        dt = rfc_imf(value)
        assert dt is not None and fmt_imf(dt) == value
        for side, factory in FACTORIES:
            req = factory('If-Modified-Since', value)
            assert req.if_modified_since == dt
        n_valid += 1
    for value, dt in obs:
        for side, factory in FACTORIES:
            req = factory('Date', value)
            assert req.get_header_as_datetime('Date', obs_date=True) == dt, (value, dt)
            assert observe(lambda: req.date) is BAD, value  # strict reader: IMF-fixdate only

    # response API -> request API round trip
    n_rt = 0
    for _ in range(300):
        dt = rand_dt(rng)
        text = falcon.dt_to_http(dt)
        assert text == fmt_imf(dt), (text, fmt_imf(dt))
        naive = dt.replace(tzinfo=None)
        assert falcon.dt_to_http(naive) == text  # "assumed to be UTC"
        resp = falcon.Response()
        resp.last_modified = dt
        resp.expires = naive
        assert resp.get_header('Last-Modified') == text
        assert resp.get_header('Expires') == text
        aresp = falcon.asgi.Response()
        aresp.last_modified = dt
        assert aresp.get_header('last-modified') == text
        for side, factory in FACTORIES:
            req = factory('If-Modified-Since', resp.get_header('Last-Modified'))
            assert req.if_modified_since == dt
            req = factory('If-Unmodified-Since', resp.get_header('Expires'))
            assert req.if_unmodified_since == dt
            assert req.get_header_as_datetime('If-Unmodified-Since', obs_date=True) == dt
        assert falcon.http_date_to_dt(text) == dt
        assert falcon.http_date_to_dt(text, obs_date=True) == dt
        n_rt += 1
    now = falcon.http_now()
    assert rfc_imf(now) is not None and falcon.http_date_to_dt(now) == rfc_imf(now)

    # ---- missing header / calling conventions ----------------------------
    sig = inspect.signature(falcon.Request.get_header_as_datetime)
    params = list(sig.parameters)
    assert params[:4] == ['self', 'header', 'required', 'obs_date'], params
    assert sig.parameters['required'].default is False
    assert sig.parameters['obs_date'].default is False
    for extra_name in params[4:]:
        # anything beyond today's parameters must be optional and keyword-only
        extra_param = sig.parameters[extra_name]
        assert extra_param.kind is inspect.Parameter.KEYWORD_ONLY, extra_name
        assert extra_param.default is None, extra_name
    assert (
        falcon.asgi.Request.get_header_as_datetime is falcon.Request.get_header_as_datetime
    )
    has_default = 'default' in sig.parameters
    sentinel = datetime.datetime(2001, 2, 3, 4, 5, 6, tzinfo=UTC)
    good = 'Thu, 04 Apr 2013 10:28:54 GMT'
    good_dt = datetime.datetime(2013, 4, 4, 10, 28, 54, tzinfo=UTC)

    n_missing = 0
    for side, factory in FACTORIES:
        for header, attr in HEADERS:
            for present in (None, good, 'garbage', ''):
                # the header under test is absent; another date header may be there
                other = 'X-Other' if present is None else (
                    'Date' if header != 'Date' else 'If-Modified-Since'
                )
                req = factory(other, present)
                for lookup in casings(header):
                    assert observe(lambda: getattr(req, attr)) is None
                    assert observe(lambda: req.get_header_as_datetime(lookup)) is None
                    assert observe(lambda: req.get_header_as_datetime(lookup, False)) is None
                    assert observe(lambda: req.get_header_as_datetime(lookup, False, True)) is None
                    assert observe(lambda: req.get_header_as_datetime(lookup, obs_date=True)) is None
                    assert (
                        observe(lambda: req.get_header_as_datetime(header=lookup, required=False))
                        is None
                    )
                    for call in (
                        lambda: req.get_header_as_datetime(lookup, True),
                        lambda: req.get_header_as_datetime(lookup, required=True),
                        lambda: req.get_header_as_datetime(lookup, True, True),
                        lambda: req.get_header_as_datetime(lookup, required=True, obs_date=True),
                    ):
                        try:
                            call()
                        except falcon.HTTPMissingHeader as ex:
                            assert ex.status_code == 400
                            assert lookup in ex.description
                        else:
                            raise AssertionError('required header missing: no error')
                    if has_default:
                        got = req.get_header_as_datetime(lookup, default=sentinel)
                        assert got is sentinel
                        got = req.get_header_as_datetime(lookup, False, True, default=sentinel)
                        assert got is sentinel
                        assert req.get_header_as_datetime(lookup, default=None) is None
                        try:
                            req.get_header_as_datetime(lookup, True, default=sentinel)
                        except falcon.HTTPMissingHeader:
                            pass
                        else:
                            raise AssertionError('required wins over default')
                        # ... and the properties are unaffected by such calls
                        assert getattr(req, attr) is None
                    n_missing += 1

    if has_default:
        # a present header is never replaced by the default
        for side, factory in FACTORIES:
            for value in values[:400]:
                if value is None:
                    continue
                req = factory('Date', value)
                exp = reference(value, False)
                got = observe(lambda: req.get_header_as_datetime('Date', default=sentinel))
                assert got == exp, (side, value, got, exp)
                exp = reference(value, True)
                got = observe(
                    lambda: req.get_header_as_datetime('Date', obs_date=True, default=sentinel)
                )
                assert got == exp, (side, value, got, exp)
            req = factory('Date', good)
            assert req.get_header_as_datetime('Date', default=sentinel) == good_dt

    # a subclass that forwards positionally keeps working
    class MyRequest(falcon.Request):
        def when(self, name):
            return self.get_header_as_datetime(name, False, True)

    env = testing.create_environ(headers={'Date': 'Sunday, 06-Nov-94 08:49:37 GMT'})
    assert MyRequest(env).when('date') == datetime.datetime(1994, 11, 6, 8, 49, 37, tzinfo=UTC)
    assert MyRequest(env).when('if-modified-since') is None

    # hard-coded expectations taken from the UNMODIFIED tree
    D = datetime.datetime
    pinned = {
        ('Thu, 04 Apr 2013 10:28:54 GMT', False): D(2013, 4, 4, 10, 28, 54, tzinfo=UTC),
        ('Thu, 04 Apr 2013 10:28:54 GMT', True): D(2013, 4, 4, 10, 28, 54, tzinfo=UTC),
        ('Thu, 04 Apr 2013 10:28:54 UTC', False): BAD,
        ('Thu, 04 Apr 2013 10:28:54 UTC', True): D(2013, 4, 4, 10, 28, 54, tzinfo=UTC),
        ('Thu, 04-Apr-2013 10:28:54 GMT', False): BAD,
        ('Thu, 04-Apr-2013 10:28:54 GMT', True): D(2013, 4, 4, 10, 28, 54, tzinfo=UTC),
        ('Sunday, 06-Nov-94 08:49:37 GMT', False): BAD,
        ('Sunday, 06-Nov-94 08:49:37 GMT', True): D(1994, 11, 6, 8, 49, 37, tzinfo=UTC),
        ('Sun Nov  6 08:49:37 1994', False): BAD,
        ('Sun Nov  6 08:49:37 1994', True): D(1994, 11, 6, 8, 49, 37, tzinfo=UTC),
        ('mon, 4 apr 2013 1:2:3 GMT', False): D(2013, 4, 4, 1, 2, 3, tzinfo=UTC),
        # strptime() matches literal text case-insensitively (lenient reading)
        ('Thu, 04 Apr 2013 10:28:54 gmt', False): D(2013, 4, 4, 10, 28, 54, tzinfo=UTC),
        ('Thu, 04 Apr 2013 10:28:54 gmt', True): D(2013, 4, 4, 10, 28, 54, tzinfo=UTC),
        ('Thu, 04 Apr 2013 10:28:54 EST', True): BAD,
        ('Thu, 04 Apr 2013 24:00:00 GMT', False): BAD,
        ('Thu, 31 Apr 2013 10:28:54 GMT', False): BAD,
        ('', False): BAD,
        ('', True): BAD,
    }
    for (value, obs_flag), exp in pinned.items():
        for side, factory in FACTORIES:
            req = factory('Date', value)
            got = observe(lambda: req.get_header_as_datetime('Date', obs_date=obs_flag))
            assert got == exp, (side, value, obs_flag, got, exp)

    assert n_valid >= 300
    print(
        'values: %d (grammar: %d fixdate + %d obs), request histories: %d, round trips: %d, '
        'missing-header lookups: %d, default keyword exercised: %s'
        % (len(values), n_valid, len(obs), histories, n_rt, n_missing, has_default)
    )
    print('PASS')
    return 0


if __name__ == '__main__':
    sys.exit(main())
