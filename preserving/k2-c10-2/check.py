"""Property C10 check: URI encode/decode are total, lossless inverses with
RFC 3986 output; check-escaped encoders are idempotent; parse_host and
unquote_string agree with simple reference models.

Run as:  PYTHONPATH=<tree> /venv/bin/python check.py
"""
import inspect
import itertools
import os
import random
import sys

import falcon
from falcon.util import uri as U

FOCUS = 'decode short-path helper'

UNRESERVED = (
    'ABCDEFGHIJKLMNOPQRSTUVWXYZabcdefghijklmnopqrstuvwxyz0123456789-._~'
)
DELIMS = ":/?#[]@!$&'()*+,;="
ALL_ALLOWED = UNRESERVED + DELIMS
HEX = '0123456789ABCDEFabcdef'
HEXB = HEX.encode()

failures = []
ncases = 0


def fail(msg):
    failures.append(msg)
    if len(failures) > 20:
        report()


def report():
    for f in failures[:20]:
        print('FAIL:', f)
    print('FAIL (%d failures, %d cases)' % (len(failures), ncases))
    sys.exit(1)


# ---------------------------------------------------------------- references
def ref_decode(s, plus=True):
    if plus:
        s = s.replace('+', ' ')
    b = s.encode('utf-8')
    out = bytearray()
    i = 0
    n = len(b)
    while i < n:
        c = b[i]
        if c == 0x25 and i + 2 < n and b[i + 1] in HEXB and b[i + 2] in HEXB:
            out.append(int(b[i + 1:i + 3].decode('ascii'), 16))
            i += 3
        else:
            out.append(c)
            i += 1
    return out.decode('utf-8', 'replace')


def _ref_decode_tail_ok():
    # the "i + 2 < n" guard above must admit an escape that ends the string
    assert ref_decode('%41') == 'A' and ref_decode('x%4') == 'x%4'


def ref_escape_all(s, allowed):
    out = []
    for byte in s.encode('utf-8'):
        ch = chr(byte)
        if byte < 128 and ch in allowed:
            out.append(ch)
        else:
            out.append('%' + '0123456789ABCDEF'[byte >> 4] +
                       '0123456789ABCDEF'[byte & 15])
    return ''.join(out)


def ref_fully_escaped(s, allowed):
    i = 0
    n = len(s)
    while i < n:
        ch = s[i]
        if ch == '%':
            if i + 2 >= n:
                return False
            if not (s[i + 1] in HEX and s[i + 2] in HEX):
                return False
            # NOTE: like falcon, the scan restarts right after the '%', the
            # two hex digits are themselves allowed characters.
            i += 1
        elif ch in allowed:
            i += 1
        else:
            return False
    return True


def ref_encode(s, is_value, check):
    allowed = UNRESERVED if is_value else ALL_ALLOWED
    if all(c in allowed for c in s):
        return s
    if check and ref_fully_escaped(s, allowed):
        return s
    return ref_escape_all(s, allowed)


def ref_parse_host(host, default_port=None):
    if host[:1] == '[':
        idx = host.rfind(']:')
        if idx >= 0:
            return (host[1:idx], int(host[idx + 2:]))
        return (host[1:len(host) - 1], default_port)
    if host.count(':') != 1:
        return (host, default_port)
    idx = host.index(':')
    return (host[:idx], int(host[idx + 1:]))


def ref_unquote(q):
    if len(q) < 2 or q[0] != '"' or q[-1] != '"':
        return q
    body = q[1:-1]
    out = []
    i = 0
    while i < len(body):
        if body[i] == '\\':
            if i + 1 < len(body) and body[i + 1] == '\\':
                out.append('\\')
                i += 2
            else:
                i += 1
        else:
            out.append(body[i])
            i += 1
    return ''.join(out)


# ------------------------------------------------------------------- checks
ENCODERS = (
    ('encode', False, False),
    ('encode_value', True, False),
    ('encode_check_escaped', False, True),
    ('encode_value_check_escaped', True, True),
)


def rfc_shape_ok(out, allowed):
    i = 0
    n = len(out)
    while i < n:
        ch = out[i]
        if ch == '%':
            if i + 2 >= n:
                return False
            if out[i + 1] not in '0123456789ABCDEF' or \
                    out[i + 2] not in '0123456789ABCDEF':
                return False
            i += 3
        elif ch in allowed:
            i += 1
        else:
            return False
    return True


def check_string(s, joiners=False):
    global ncases
    ncases += 1
    # --- decode: equals reference, never fails, both '+' modes
    for plus in (True, False):
        try:
            got = U.decode(s, unquote_plus=plus)
        except Exception as ex:  # noqa
            fail('decode(%r, %r) raised %r' % (s, plus, ex))
            continue
        want = ref_decode(s, plus)
        if got != want or type(got) is not str:
            fail('decode(%r, %r) = %r, want %r' % (s, plus, got, want))
    if U.decode(s) != ref_decode(s, True):
        fail('decode default plus mode differs for %r' % (s,))
    if joiners:
        tokens = s.encode().split(b'%')
        want = ref_decode(s, False)
        for name in ('_join_tokens_bytearray', '_join_tokens_list',
                     '_join_tokens'):
            got = getattr(U, name)(list(tokens))
            if got != want:
                fail('%s(%r) = %r want %r' % (name, s, got, want))

    # --- encoders
    for name, is_value, check in ENCODERS:
        fn = getattr(U, name)
        allowed = UNRESERVED if is_value else ALL_ALLOWED
        try:
            out = fn(s)
        except Exception as ex:  # noqa
            fail('%s(%r) raised %r' % (name, s, ex))
            continue
        want = ref_encode(s, is_value, check)
        if out != want or type(out) is not str:
            fail('%s(%r) = %r, want %r' % (name, s, out, want))
            continue
        if not check:
            if not rfc_shape_ok(out, allowed):
                fail('%s(%r) = %r is not RFC 3986 shaped' % (name, s, out))
            # lossless: decoding the encoded value returns the original
            back = U.decode(out, unquote_plus=False)
            if back != s:
                fail('decode(%s(%r)) = %r' % (name, s, back))
            if is_value and U.decode(out, unquote_plus=True) != s:
                fail('decode+(%s(%r)) != original' % (name, s))
        else:
            # output alphabet: allowed + '%' only
            if out.rstrip(allowed + '%'):
                fail('%s(%r) = %r has a disallowed char' % (name, s, out))
            # idempotent
            again = fn(out)
            if again != out:
                fail('%s not idempotent on %r: %r -> %r' % (name, s, out, again))
            # an already fully escaped string is left unchanged
            plain = getattr(U, name.replace('_check_escaped', ''))(s)
            if fn(plain) != plain:
                fail('%s changed the escaped string %r' % (name, plain))


def check_host(host, dp):
    global ncases
    ncases += 1
    try:
        want = ref_parse_host(host, dp)
    except ValueError:
        want = ValueError
    try:
        got = U.parse_host(host, dp) if dp != 'omit' else U.parse_host(host)
    except ValueError:
        got = ValueError
    except Exception as ex:  # noqa
        fail('parse_host(%r) raised %r' % (host, ex))
        return
    if dp == 'omit':
        try:
            want = ref_parse_host(host)
        except ValueError:
            want = ValueError
    if got != want:
        fail('parse_host(%r, %r) = %r want %r' % (host, dp, got, want))
    elif got is not ValueError:
        if type(got) is not tuple or len(got) != 2:
            fail('parse_host(%r) shape %r' % (host, got))


def check_unquote(q):
    global ncases
    ncases += 1
    got = U.unquote_string(q)
    want = ref_unquote(q)
    if got != want:
        fail('unquote_string(%r) = %r want %r' % (q, got, want))


def main():
    _ref_decode_tail_ok()
    assert os.path.dirname(falcon.__file__).startswith(
        os.environ.get('PYTHONPATH', '').split(os.pathsep)[0] or '/'), \
        falcon.__file__
    assert U.decode.__module__ == 'falcon.util.uri', 'not the pure-Python decode'

    rnd = random.Random(20261001)

    # 1. exhaustive: all strings up to length 4 over the property's alphabet
    alphabet = ['%', '+', '4', '1', 'a', 'F', 'e', 'C', 'g', '/', '=', '-',
                '~', ' ', '\x00', '\u00e9', '\u20ac', '\U0001F600']
    for n in range(0, 4):
        for tup in itertools.product(alphabet, repeat=n):
            check_string(''.join(tup), joiners=(n <= 3))
    for tup in itertools.product(alphabet, repeat=4):
        check_string(''.join(tup))

    # 2. hard-coded corner cases (expectations taken from the unmodified tree)
    fixed = {
        '': '', '%': '%', '%%': '%%', '%4': '%4', '%41': 'A', '%4g': '%4g',
        '%g1': '%g1', '%%41': '%A', '%41%': 'A%', '+%2B+': ' + ',
        '%e9': '\ufffd', '%C3%A9': '\u00e9', '%c3%a9': '\u00e9',
        '%F0%9F%98%80': '\U0001F600', '%00': '\x00', '%2541': '%41',
        '%+1': '% 1', 'a%20b%2': 'a b%2',
        '%41%42%43%44%45%46%47%48': 'ABCDEFGH',
        '%41%42%43%44%45%46%4': 'ABCDEF%4',
        '%41%42%43%44%45%46%47%4': 'ABCDEFG%4',
        '%E2%82%AC%E2%82%AC%E2%82': '\u20ac\u20ac\ufffd',
    }
    for src, want in fixed.items():
        check_string(src, joiners=True)
        if U.decode(src) != want:
            fail('fixed decode(%r) = %r want %r' % (src, U.decode(src), want))
    enc_fixed = [
        ('encode', 'http://x/a b?q=%41', 'http://x/a%20b?q=%2541'),
        ('encode_check_escaped', 'http://x/a%20b?q=%41', 'http://x/a%20b?q=%41'),
        ('encode_check_escaped', 'http://x/a%20b?q=%4', 'http://x/a%2520b?q=%254'),
        ('encode_check_escaped', 'a b%20', 'a%20b%2520'),
        ('encode_value', 'a+b/c~', 'a%2Bb%2Fc~'),
        ('encode_value_check_escaped', 'a%2Bb%2fc~', 'a%2Bb%2fc~'),
        ('encode_value_check_escaped', 'a%2Bb/c', 'a%252Bb%2Fc'),
        ('encode_value_check_escaped', '%', '%25'),
        ('encode_value_check_escaped', '%zz', '%25zz'),
        ('encode_value_check_escaped', '%a', '%25a'),
        ('encode_value', '\u00e9\u20ac\U0001F600\x00',
         '%C3%A9%E2%82%AC%F0%9F%98%80%00'),
        ('encode', '\x7f\x80[]', '%7F%C2%80[]'),
    ]
    for name, src, want in enc_fixed:
        got = getattr(U, name)(src)
        if got != want:
            fail('fixed %s(%r) = %r want %r' % (name, src, got, want))
    for name, _, _ in ENCODERS:
        if getattr(U, name).__name__ != name or not getattr(U, name).__doc__:
            fail('%s lost its name/doc' % name)

    # 3. random strings up to several KB, crossing the < 8 escapes switch
    pool = alphabet + list('%%%%++0123456789abcdefABCDEFxyz&=,;:@[]!$\'()*"\\<>{}|^`\x7f\x80\xff')
    for k in range(700):
        if k < 400:
            length = rnd.randint(5, 40)
        elif k < 650:
            length = rnd.randint(40, 400)
        else:
            length = rnd.randint(1000, 6000)
        check_string(''.join(rnd.choice(pool) for _ in range(length)),
                     joiners=True)
    # exactly 0..12 escapes (tokens 1..13): both sides of `len(tokens) < 8`
    for nesc in range(0, 13):
        for _ in range(25):
            parts = []
            for _ in range(nesc):
                kind = rnd.randint(0, 5)
                if kind == 0:
                    parts.append('%')
                elif kind == 1:
                    parts.append('%' + rnd.choice(HEX))
                elif kind == 2:
                    parts.append('%' + rnd.choice(HEX) + rnd.choice('gG+ %'[:4]))
                else:
                    parts.append('%' + rnd.choice(HEX) + rnd.choice(HEX))
                parts.append(''.join(rnd.choice('ab+ /\u00e9')
                                     for _ in range(rnd.randint(0, 3))))
            s = ''.join(parts)
            if s.count('%') == nesc:
                check_string(s, joiners=True)
    # well-formed multi-byte escapes, both hex cases, long inputs
    for _ in range(150):
        txt = ''.join(rnd.choice('ab \u00e9\u20ac\U0001F600+%/')
                      for _ in range(rnd.randint(1, 60)))
        esc = ''.join('%%%02X' % b if rnd.random() < .5 else '%%%02x' % b
                      for b in txt.encode())
        check_string(esc, joiners=True)
        if U.decode(esc, unquote_plus=False) != txt:
            fail('decode of full escape of %r' % (txt,))

    # 4. authority forms for parse_host
    regnames = ['example.org', 'localhost', 'a', 'EXAMPLE.com', 'x-y.z_',
                'xn--bcher-kva.example', '%41.example', 'a.b.c.d.e', '']
    v4 = ['127.0.0.1', '0.0.0.0', '255.255.255.255', '10.1']
    v6 = ['::1', '::', '2001:db8::1', 'fe80::1%25eth0', '::ffff:192.0.2.1',
          '2001:0db8:85a3:0000:0000:8a2e:0370:7334', 'v1.fe:x']
    ports = ['', '0', '80', '8080', '65535', '00080', '99999', ' 80', '80 ',
             '+80', '-1', '8_0', 'http', '8.0', '\u0663']
    dps = ['omit', None, 0, 80, 443, -1]
    for dp in dps:
        for h in regnames + v4:
            check_host(h, dp)
            for p in ports:
                check_host(h + ':' + p, dp)
        for h in v6:
            check_host(h, dp)                 # bare IPv6: many colons
            check_host('[' + h + ']', dp)
            for p in ports:
                check_host('[' + h + ']:' + p, dp)
        for h in ['[', ']', '[]', '[]:', '[]:1', '[::1', '[::1]x', '[::1]:1]:2',
                  'a:b:c', 'a::', ':', '::', ':80', 'a:1:', 'x]:5', ']:5',
                  '[a]:5]:6', 'h:\u0661\u0662']:
            check_host(h, dp)
    for _ in range(600):
        h = ''.join(rnd.choice('ab1.:[]9 ') for _ in range(rnd.randint(1, 9)))
        check_host(h, rnd.choice(dps))
    # valid authorities: host and numeric port come back
    for h in regnames[:-1] + v4:
        for p in (0, 1, 80, 8080, 65535):
            if U.parse_host('%s:%d' % (h, p)) != (h, p):
                fail('valid authority %s:%d' % (h, p))
    for h in v6:
        for p in (0, 1, 80, 8080, 65535):
            if U.parse_host('[%s]:%d' % (h, p)) != (h, p):
                fail('valid authority [%s]:%d' % (h, p))
            if U.parse_host('[%s]' % h, p) != (h, p):
                fail('valid authority [%s] default' % (h,))

    # 5. unquote_string
    for n in range(0, 6):
        for tup in itertools.product(['"', '\\', 'a', ' '], repeat=n):
            check_unquote(''.join(tup))
    for _ in range(500):
        body = ''.join(rnd.choice('"\\\\ab\u00e9') for _ in range(rnd.randint(0, 30)))
        check_unquote('"' + body + '"')
        check_unquote(body)
    for bad in (None, 5):
        try:
            fail('unquote_string(%r) returned %r' % (bad, U.unquote_string(bad)))
        except TypeError:
            pass

    # 6. signatures today's callers rely on
    sig = inspect.signature(U.decode)
    if list(sig.parameters)[:2] != ['encoded_uri', 'unquote_plus'] or \
            sig.parameters['unquote_plus'].default is not True:
        fail('decode signature changed: %s' % sig)
    sig = inspect.signature(U.parse_host)
    if list(sig.parameters)[:2] != ['host', 'default_port'] or \
            sig.parameters['default_port'].default is not None:
        fail('parse_host signature changed: %s' % sig)
    if falcon.uri is not U or falcon.uri.encode is not U.encode:
        fail('falcon.uri alias broken')

    focus()

    if failures:
        report()
    print('PASS (%d cases; focus: %s)' % (ncases, FOCUS))


def focus():
    """Extra checks aimed at the code touched by this particular change."""
    # Change 2 moves the "fewer than 8 tokens" in-place joiner of decode()
    # out into a module-level helper: walk across the switch with every
    # kind of token at every position, and make sure no joiner mutates or
    # aliases its argument.
    global ncases
    kinds = ['', '4', '41', '4g', 'g1', '41x', 'C3', 'A9', 'c3', 'a9', '+',
             '2B', '00', 'E2', '82', 'AC', 'zzé', 'F0', '9F', '98', '80']
    rnd = random.Random(2)
    for ntok in range(1, 17):
        for _ in range(120):
            toks = [rnd.choice(['', 'a', 'a+b', '€'])] + \
                   [rnd.choice(kinds) for _ in range(ntok - 1)]
            s = '%'.join(toks)
            ncases += 1
            for plus in (True, False):
                if U.decode(s, unquote_plus=plus) != ref_decode(s, plus):
                    fail('focus decode(%r, %r) with %d tokens' % (s, plus, ntok))
            btoks = s.encode().split(b'%')
            assert len(btoks) == ntok
            for name in ('_join_tokens_inplace', '_join_tokens_bytearray',
                         '_join_tokens_list', '_join_tokens'):
                fn = getattr(U, name, None)
                if fn is None:
                    continue  # helper only exists in the patched tree
                arg = list(btoks)
                got = fn(arg)
                if got != ref_decode(s, False):
                    fail('focus %s(%r) = %r' % (name, arg, got))
                if arg != btoks or any(a is not b for a, b in zip(arg, btoks)):
                    fail('focus %s mutated its argument' % name)
    # exactly 7 and exactly 8 tokens, all well formed / all malformed
    for ntok, tok, want in ((7, '41', 'A'), (8, '41', 'A'), (7, 'g', '%g'),
                            (8, 'g', '%g'), (7, '', '%'), (8, '', '%')):
        s = 'x' + ('%' + tok) * (ntok - 1)
        if U.decode(s) != 'x' + want * (ntok - 1):
            fail('focus boundary decode(%r) = %r' % (s, U.decode(s)))
    # decode stays a plain function of (encoded_uri, unquote_plus=True)
    if U.decode('a+b') != 'a b' or U.decode('a+b', False) != 'a+b':
        fail('focus: positional unquote_plus')
    if U._join_tokens not in (U._join_tokens_list, U._join_tokens_bytearray):
        fail('focus: platform joiner selection changed')


if __name__ == '__main__':
    main()
