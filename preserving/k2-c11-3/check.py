"""Property C11 check: content negotiation + media handler resolution.

Run as:  PYTHONPATH=<falcon tree> /venv/bin/python check.py

Everything is generated from a *structured* description (type, subtype,
list of (name, value) parameters, raw q text); the structure is rendered to a
header string for falcon, while an independent reference model works on the
structure only.  The reference implements the documented specificity order

    (main type exact, subtype exact, params exactly equal, #matching params, q)

and a plain dict model of the handler mapping.  The script prints PASS and
exits 0 when falcon agrees with the model on every generated case.
"""

import asyncio  # noqa: F401  (kept so that the ASGI helpers import cleanly)
import copy
import math
import random
import sys

import falcon
from falcon import errors
from falcon import testing
from falcon.media.handlers import Handlers
from falcon.util import mediatypes

FOCUS = 'change 3: wildcard literals hoisted into module constants in falcon/util/mediatypes.py'
SEED = 20261001
rnd = random.Random(SEED)
failures = []
counts = {}


def count(name, n=1):
    counts[name] = counts.get(name, 0) + n


def fail(msg):
    failures.append(msg)
    if len(failures) > 20:
        report()


def report():
    if failures:
        print('FAIL (%d)' % len(failures))
        for f in failures[:20]:
            print('  ', f)
        sys.exit(1)
    print('cases:', ', '.join('%s=%d' % kv for kv in sorted(counts.items())))
    print('PASS')
    sys.exit(0)


# ---------------------------------------------------------------------------
# Structured generation
# ---------------------------------------------------------------------------

MAIN = ['text', 'application', 'image', '*', 'Text']
SUB = ['plain', 'html', 'json', 'xml', '*', 'JSON', 'vnd.api+json']
PNAMES = ['charset', 'level', 'v', 'Charset', 'LEVEL']
PLAIN_VALUES = ['1', '2', 'utf-8', 'UTF-8', 'a', '']
QUOTED_VALUES = ['a,b', 'a;b', 'x y', 'q=0', 'say "hi"', 'back\\slash', '1', ',']

Q_VALID = [
    '0', '0.', '0.0', '0.00', '0.000', '0.0000', '0.5', '0.50', '0.500', '0.1',
    '0.25', '0.75', '0.999', '0.001', '0.1234', '1', '1.', '1.0', '1.00', '1.000',
    '1.0000', '.5', '1e-1', '-0', '-0.0', '+0.5', '0.3', '0.7', '5e-1',
]
Q_INVALID = [
    '1.1', '-0.1', 'abc', 'nan', 'inf', '-inf', '', '2', '1.0001', '0x',
    '0.5.1', '--1', '1e3', 'NaN', 'Infinity',
]


class Member:
    """One comma separated member of an Accept-like header (or a media type)."""

    def __init__(self, raw=None, main=None, sub=None, params=(), ows=None):
        self.raw = raw  # literal invalid member text (no structure) or None
        self.main = main
        self.sub = sub
        self.params = list(params)  # [(name, value, quoted)], includes q
        self.ows = ows or ('', '', '', '')

    def render(self):
        if self.raw is not None:
            return self.raw
        lead, before_semi, after_semi, trail = self.ows
        if self.main == '*' and self.sub == '*' and self.ows[0] == '!':
            text = '*'
            lead = ''
        else:
            text = self.main + '/' + self.sub
        out = lead + text
        for name, value, quoted in self.params:
            if name is None:
                # a parameter without "=": ignored by the parser
                out += before_semi + ';' + after_semi + value
                continue
            if quoted:
                value = '"' + value.replace('\\', '\\\\').replace('"', '\\"') + '"'
            out += before_semi + ';' + after_semi + name + '=' + value
        return out + trail

    # -- reference view -----------------------------------------------------
    def valid_type(self):
        return self.raw is None

    def pdict(self):
        d = {}
        for name, value, _quoted in self.params:
            if name is None:
                continue
            d[name.lower()] = value
        return d


def gen_params(with_q, allow_quoted, q_invalid_ok):
    params = []
    for _ in range(rnd.choice([0, 0, 0, 1, 1, 2, 3])):
        name = rnd.choice(PNAMES)
        if allow_quoted and rnd.random() < 0.3:
            params.append((name, rnd.choice(QUOTED_VALUES), True))
        else:
            params.append((name, rnd.choice(PLAIN_VALUES), False))
    if rnd.random() < 0.07:
        params.insert(rnd.randrange(len(params) + 1), (None, 'flag', False))
    if rnd.random() < 0.05:
        params.insert(rnd.randrange(len(params) + 1), (None, '', False))
    if with_q and rnd.random() < 0.6:
        if q_invalid_ok and rnd.random() < 0.08:
            qtext = rnd.choice(Q_INVALID)
        else:
            qtext = rnd.choice(Q_VALID)
        qname = rnd.choice(['q', 'q', 'q', 'Q'])
        quoted = allow_quoted and rnd.random() < 0.1
        params.insert(rnd.randrange(len(params) + 1), (qname, qtext, quoted))
        if rnd.random() < 0.05:
            # duplicate q: the last one wins
            params.append((qname, rnd.choice(Q_VALID), False))
    return params


def gen_ows():
    sp = ['', '', '', ' ', '  ', '\t']
    return (rnd.choice(sp), rnd.choice(sp), rnd.choice(sp), rnd.choice(sp))


def gen_member(kind, allow_quoted=True, invalid_ok=True):
    """kind: 'range' (Accept member) or 'type' (candidate)."""
    r = rnd.random()
    if invalid_ok and r < 0.04:
        return Member(raw=rnd.choice(['text', '', ' ', 'nonsense', 'text html', ';q=1']))
    if kind == 'range':
        main = rnd.choice(MAIN + ['text', 'application', '*'])
        sub = rnd.choice(SUB + ['*', '*', 'html', 'json'])
        if main == '*' and rnd.random() < 0.7:
            sub = '*'
    else:
        main = rnd.choice(['text', 'application', 'image', 'text', 'application', '*', 'Text'])
        sub = rnd.choice(['plain', 'html', 'json', 'xml', 'json', 'html', '*', 'JSON', 'vnd.api+json'])
    params = gen_params(
        with_q=(kind == 'range') or rnd.random() < 0.05,
        allow_quoted=allow_quoted,
        q_invalid_ok=invalid_ok,
    )
    ows = gen_ows()
    if main == '*' and sub == '*' and rnd.random() < 0.15:
        ows = ('!',) + ows[1:]  # render the lone "*" legacy wildcard
    return Member(main=main, sub=sub, params=params, ows=ows)


def gen_header(max_members=5, allow_quoted=True, invalid_ok=True):
    n = rnd.choice([1, 1, 2, 2, 3, 3, 4, max_members])
    members = [gen_member('range', allow_quoted, invalid_ok) for _ in range(n)]
    if rnd.random() < 0.25 and members:
        members.append(copy.copy(rnd.choice(members)))  # exact duplicate
    if rnd.random() < 0.2 and members:
        # same range, different q  ->  tie on the first four components
        m = rnd.choice(members)
        if m.raw is None:
            m2 = Member(main=m.main, sub=m.sub, ows=gen_ows(),
                        params=[p for p in m.params if (p[0] or '').lower() != 'q']
                        + [('q', rnd.choice(Q_VALID), False)])
            members.insert(rnd.randrange(len(members) + 1), m2)
    return members


def render_header(members):
    return ','.join(m.render() for m in members)


# ---------------------------------------------------------------------------
# Reference model
# ---------------------------------------------------------------------------

class RefInvalidType(Exception):
    pass


class RefInvalidRange(Exception):
    pass


def ref_parse_range(m):
    if not m.valid_type():
        raise RefInvalidRange()
    params = m.pdict()
    q = 1.0
    if 'q' in params:
        try:
            q = float(params.pop('q'))
        except ValueError:
            raise RefInvalidRange()
        if math.isnan(q) or math.isinf(q) or q < 0.0 or q > 1.0:
            raise RefInvalidRange()
    return (m.main.strip(), m.sub.strip(), q, params)


def ref_parse_type(m):
    if not m.valid_type():
        raise RefInvalidType()
    return (m.main.strip(), m.sub.strip(), m.pdict())


NOT_MATCHING = (-1, -1, -1, -1, 0.0)


def ref_score(rng, typ):
    rmain, rsub, q, rparams = rng
    tmain, tsub, tparams = typ
    if rmain == '*' or tmain == '*':
        s1 = 0
    elif rmain == tmain:
        s1 = 1
    else:
        return NOT_MATCHING
    if rsub == '*' or tsub == '*':
        s2 = 0
    elif rsub == tsub:
        s2 = 1
    else:
        return NOT_MATCHING
    common = set(rparams) & set(tparams)
    for name in common:
        if rparams[name] != tparams[name]:
            return NOT_MATCHING
    s3 = 1 if set(rparams) == set(tparams) else 0
    return (s1, s2, s3, len(common), q)


def ref_quality(type_member, header_members):
    typ = ref_parse_type(type_member)  # the media type is parsed first
    ranges = [ref_parse_range(m) for m in header_members]
    best = None
    for rng in ranges:
        s = ref_score(rng, typ)
        if best is None or s > best:
            best = s
    return best[-1]


def ref_best_match(type_members, header_members):
    best_q = None
    best = None
    for tm in type_members:
        q = ref_quality(tm, header_members)
        if best_q is None or q > best_q:
            best_q, best = q, tm
    if best is None or not best_q > 0.0:
        return None
    return best


# ---------------------------------------------------------------------------
# 1. quality() / best_match()
# ---------------------------------------------------------------------------

def run_quality(type_member, header_members):
    mt = type_member.render()
    header = render_header(header_members)
    try:
        expected = ('ok', ref_quality(type_member, header_members))
    except RefInvalidType:
        expected = ('type', None)
    except RefInvalidRange:
        expected = ('range', None)
    try:
        got = ('ok', mediatypes.quality(mt, header))
    except errors.InvalidMediaRange as ex:
        got = ('range', None)
        if not isinstance(ex, ValueError):
            fail('InvalidMediaRange is not a ValueError')
    except errors.InvalidMediaType as ex:
        got = ('type', None)
        if not isinstance(ex, ValueError):
            fail('InvalidMediaType is not a ValueError')
    except Exception as ex:  # any other exception is undocumented
        got = ('other', repr(ex))
    if got != expected:
        fail('quality(%r, %r): expected %r, got %r' % (mt, header, expected, got))
    count('quality')
    return expected


def run_best_match(type_members, header_members):
    mts = [t.render() for t in type_members]
    header = render_header(header_members)
    try:
        best = ref_best_match(type_members, header_members)
        expected = ('ok', best.render() if best is not None else '')
    except RefInvalidType:
        expected = ('type', None)
    except RefInvalidRange:
        expected = ('range', None)
    arg = rnd.choice([list, tuple, iter])(mts)
    try:
        got = ('ok', mediatypes.best_match(arg, header))
    except errors.InvalidMediaRange:
        got = ('range', None)
    except errors.InvalidMediaType:
        got = ('type', None)
    except Exception as ex:
        got = ('other', repr(ex))
    if got != expected:
        fail('best_match(%r, %r): expected %r, got %r' % (mts, header, expected, got))
    if expected[0] == 'ok' and expected[1]:
        # a chosen candidate never has q == 0 / no matching range
        q = mediatypes.quality(expected[1], header)
        if not q > 0.0:
            fail('best_match chose %r with quality %r' % (expected[1], q))
    count('best_match')
    return expected


def section_negotiation(n_quality, n_best):
    for i in range(n_quality):
        quoted = rnd.random() < 0.5
        header = gen_header(allow_quoted=quoted, invalid_ok=rnd.random() < 0.6)
        t = gen_member('type', allow_quoted=rnd.random() < 0.5)
        if rnd.random() < 0.3:
            # derive the candidate from one of the ranges -> exact matches
            src = rnd.choice(header)
            if src.raw is None and src.main != '*' and src.sub != '*':
                t = Member(main=src.main, sub=src.sub, ows=gen_ows(),
                           params=[p for p in src.params
                                   if (p[0] or '').lower() != 'q' or rnd.random() < 0.1])
                if rnd.random() < 0.3:
                    t.params.append((rnd.choice(PNAMES), rnd.choice(PLAIN_VALUES), False))
                if rnd.random() < 0.3 and t.params:
                    t.params.pop(rnd.randrange(len(t.params)))
        run_quality(t, header)
    for i in range(n_best):
        header = gen_header(allow_quoted=rnd.random() < 0.5, invalid_ok=rnd.random() < 0.5)
        k = rnd.choice([0, 1, 2, 3, 4, 6])
        types = [gen_member('type', allow_quoted=rnd.random() < 0.3,
                            invalid_ok=rnd.random() < 0.3) for _ in range(k)]
        run_best_match(types, header)

    # hard-coded expectations taken from the unmodified tree / the docs
    fixed = [
        ('text/html', 'text/*;q=0.3, text/html;q=0.7, text/html;level=1', 0.7),
        ('text/html;level=1', 'text/*;q=0.3, text/html;q=0.7, text/html;level=1', 1.0),
        ('text/plain', 'text/*;q=0.3, text/html;q=0.7, text/html;level=1', 0.3),
        ('image/jpeg', 'text/*;q=0.3, text/html;q=0.7, */*;q=0.5', 0.5),
        ('text/html;level=2', 'text/html;level=1, text/html;q=0.4', 0.4),
        ('text/html;level=3', 'text/*;q=0.3, text/html;level=2;q=0.4, */*;q=0.5', 0.3),
        ('text/html;level=2', 'text/html;level=1, text/*;level=3', 0.0),
        ('application/json', 'application/json;q=0, */*', 0.0),
        ('application/json', 'application/*;q=0, */*;q=1', 0.0),
        ('application/json', '*/*;q=0', 0.0),
        ('application/json', 'text/html', 0.0),
        ('application/json', '*', 1.0),
        ('application/json', 'application/json;q=0.5, application/json;q=0.8', 0.8),
        ('application/json', 'application/json;q=1.000', 1.0),
        ('application/json', 'application/json;q=0.000', 0.0),
        ('application/json', 'application/json;Q=0.25', 0.25),
        ('text/plain;format="a,b"', 'text/plain;format="a,b";q=0.5, */*;q=0.1', 0.5),
    ]
    for mt, header, q in fixed:
        got = mediatypes.quality(mt, header)
        if got != q:
            fail('fixed quality(%r, %r) = %r, expected %r' % (mt, header, got, q))
        count('fixed')
    for mt, header, exc in [
        ('application/json', 'application/json;q=1.1', errors.InvalidMediaRange),
        ('application/json', 'application/json;q=-1', errors.InvalidMediaRange),
        ('application/json', 'application/json;q=nan', errors.InvalidMediaRange),
        ('application/json', 'application/json;q=inf', errors.InvalidMediaRange),
        ('application/json', 'application/json;q=-inf', errors.InvalidMediaRange),
        ('application/json', 'application/json;q=', errors.InvalidMediaRange),
        ('application/json', 'application/json;q=x', errors.InvalidMediaRange),
        ('application/json', 'application/json,', errors.InvalidMediaRange),
        ('application/json', 'json', errors.InvalidMediaRange),
        ('json', 'application/json', errors.InvalidMediaType),
        ('json', 'json', errors.InvalidMediaType),
    ]:
        try:
            mediatypes.quality(mt, header)
        except Exception as ex:
            if type(ex) is not exc:
                fail('fixed error quality(%r, %r): %r' % (mt, header, ex))
        else:
            fail('fixed error quality(%r, %r): no exception' % (mt, header))
        count('fixed')
    if mediatypes.best_match([], 'text/html') != '':
        fail('best_match([]) != ""')
    if mediatypes.best_match(iter(()), '*/*') != '':
        fail('best_match(iter(())) != ""')
    # ties: the first candidate with the highest quality wins
    if mediatypes.best_match(['text/a', 'text/b'], 'text/*') != 'text/a':
        fail('tie 1')
    if mediatypes.best_match(['text/b', 'text/a'], 'text/*') != 'text/b':
        fail('tie 2')
    if mediatypes.best_match(['text/a', 'text/b'], 'text/a;q=0.5,text/b;q=0.5') != 'text/a':
        fail('tie 3')
    if mediatypes.best_match(['text/a', 'text/b'], 'text/a;q=0,text/b;q=0') != '':
        fail('all zero')


# ---------------------------------------------------------------------------
# 2. private building blocks (exist in both trees)
# ---------------------------------------------------------------------------

def section_internals(n):
    MR = mediatypes._MediaRange
    MT = mediatypes._MediaType
    # q validation in _MediaRange.parse
    for qtext in Q_VALID + Q_INVALID + ['0.9999999', '1.0000001', '1e-400', '-1e-400',
                                        '1e400', ' 0.5 ', '0_1', '1_0', '٠.٥']:
        text = 'a/b;q=' + qtext
        try:
            expected = float(qtext.strip())
            ok = (not math.isnan(expected)) and 0.0 <= expected <= 1.0
        except ValueError:
            ok = False
        try:
            mr = MR.parse(text)
            got = True
        except errors.InvalidMediaRange as ex:
            got = False
            if str(ex) != MR._Q_VALUE_ERROR_MESSAGE:
                fail('unexpected message for %r: %s' % (text, ex))
        if got != ok:
            fail('_MediaRange.parse(%r): accepted=%r expected=%r' % (text, got, ok))
        elif ok and (mr.quality != expected or 'q' in mr.params):
            fail('_MediaRange.parse(%r): quality=%r params=%r' % (text, mr.quality, mr.params))
        count('parse_q')
    if MR.parse('a/b').quality != 1.0 or MR.parse('*').main_type != '*':
        fail('parse defaults')
    if MR.parse('*').subtype != '*' or MT.parse('*').subtype != '*':
        fail('lone * is not */*')
    if MR._NOT_MATCHING != NOT_MATCHING:
        fail('_NOT_MATCHING changed')

    # match_score on directly constructed objects
    tokens = ['*', 'text', 'json', 'Text', '', '**', '* ']
    pnames = ['a', 'b', 'c']
    pvals = ['1', '2', '', '*']
    for i in range(n):
        def mk():
            return {rnd.choice(pnames): rnd.choice(pvals)
                    for _ in range(rnd.choice([0, 0, 1, 2, 3]))}
        q = rnd.choice([0.0, 0.5, 1.0, 0.001])
        mr = MR(rnd.choice(tokens), rnd.choice(tokens), q, mk())
        mt = MT(rnd.choice(tokens), rnd.choice(tokens), mk())
        if rnd.random() < 0.3:
            mt = MT(mr.main_type, mr.subtype, dict(mr.params))
        if rnd.random() < 0.2:
            mt.params = mr.params  # aliasing
        before = (dict(mr.params), dict(mt.params))
        got = mr.match_score(mt)
        expected = ref_score((mr.main_type, mr.subtype, q, mr.params),
                             (mt.main_type, mt.subtype, mt.params))
        if got != expected or type(got) is not tuple or len(got) != 5:
            fail('match_score(%r, %r) = %r, expected %r' % (mr, mt, got, expected))
        if [type(x) for x in got] != [int, int, int, int, float]:
            fail('match_score types %r' % (got,))
        if before != (mr.params, mt.params):
            fail('match_score mutated params')
        count('match_score')

    # parse_header: fast path and quoted path agree with the structure
    for i in range(n // 2):
        m = gen_member('type', allow_quoted=rnd.random() < 0.5, invalid_ok=False)
        key, params = mediatypes.parse_header(m.render())
        exp_key = '*' if m.ows[0] == '!' and m.main == m.sub == '*' else m.main + '/' + m.sub
        if key != exp_key or params != m.pdict():
            fail('parse_header(%r) = %r' % (m.render(), (key, params)))
        count('parse_header')


# ---------------------------------------------------------------------------
# 3. Handlers mapping histories
# ---------------------------------------------------------------------------

class H:
    """A handler stand-in; some have the sync fast-path attributes."""

    def __init__(self, name, fast):
        self.name = name
        if fast:
            self._serialize_sync = ('ser', name)
            self._deserialize_sync = ('des', name)

    def __repr__(self):
        return 'H(%s)' % self.name


_hcount = [0]


def new_handler():
    _hcount[0] += 1
    return H(_hcount[0], rnd.random() < 0.5)


def gen_key_pool():
    pool = []
    for _ in range(8):
        m = gen_member('type', allow_quoted=rnd.random() < 0.15, invalid_ok=False)
        m.ows = ('', '', rnd.choice(['', ' ']), '')
        pool.append(m)
    pool.append(Member(main='application', sub='json'))
    pool.append(Member(main='application', sub='x-www-form-urlencoded'))
    pool.append(Member(main='text', sub='*'))
    pool.append(Member(main='*', sub='*'))
    if rnd.random() < 0.3:
        pool.append(Member(raw='nonsense'))  # a key that is not a media type
    return pool


def ref_resolve(model, members_by_key, ct_members, ct_text, default_text, default_members):
    """model: {key text: handler}; returns handler or None (=unsupported)."""
    if ct_text == '*/*' or not ct_text:
        ct_text, ct_members = default_text, default_members
    h = model.get(ct_text)
    if h:
        return h
    try:
        best = ref_best_match([members_by_key[k] for k in model], ct_members)
    except (RefInvalidType, RefInvalidRange):
        best = None
    if best is None:
        return None
    return model[best.render()]


def gen_query(pool):
    """A resolution request: (content type text, its members, default, raise)."""
    # content type to resolve: a key, a key with extra params, a fresh header
    r = rnd.random()
    if r < 0.1:
        ct_text, ct_members = rnd.choice([None, '', '*/*']), None
    elif r < 0.45:
        m = rnd.choice(pool)
        ct_members = [m]
        ct_text = m.render()
    elif r < 0.7:
        m = copy.copy(rnd.choice(pool))
        if m.raw is None:
            m.params = list(m.params) + [rnd.choice([
                ('charset', 'utf-8', False), ('q', '0', False), ('q', '0.5', False),
                ('boundary', 'a,b', True), ('q', '7', False)])]
        ct_members = [m]
        ct_text = m.render()
    else:
        ct_members = gen_header(max_members=3, allow_quoted=rnd.random() < 0.3,
                                invalid_ok=rnd.random() < 0.3)
        ct_text = render_header(ct_members)
    dm = rnd.choice(pool[:10])
    return (ct_text, ct_members, dm.render(), [dm], rnd.random() < 0.5)


def check_resolve(handlers, model, members_by_key, query):
    ct_text, ct_members, default_text, default_members, raise_nf = query

    expected = ref_resolve(model, members_by_key, ct_members, ct_text,
                           default_text, default_members)
    for attempt in range(2):  # the second call is served from the LRU cache
        try:
            if raise_nf and rnd.random() < 0.5:
                got = handlers._resolve(ct_text, default_text)
            else:
                got = handlers._resolve(ct_text, default_text, raise_nf)
        except falcon.HTTPUnsupportedMediaType:
            got = '415'
        except Exception as ex:
            got = repr(ex)
        if expected is None:
            exp = '415' if raise_nf else (None, None, None)
        else:
            exp = (expected, getattr(expected, '_serialize_sync', None),
                   getattr(expected, '_deserialize_sync', None))
        same = (got == exp) and (
            not isinstance(exp, tuple) or all(a is b for a, b in zip(got, exp)))
        if not same:
            fail('resolve(%r, %r, %r) with keys %r: expected %r, got %r'
                 % (ct_text, default_text, raise_nf, list(model), exp, got))
        count('resolve')


def section_handlers(n_histories, n_steps):
    for hist in range(n_histories):
        pool = gen_key_pool()
        members_by_key = {m.render(): m for m in pool}
        keys = list(members_by_key)
        # (handlers, model) pairs that are alive; copies join this list
        init_keys = rnd.sample(keys, rnd.randrange(0, 5))
        model = {k: new_handler() for k in init_keys}
        if rnd.random() < 0.15:
            handlers = Handlers()
            model = dict(handlers.data)
            for k in model:
                members_by_key[k] = Member(main=k.split('/')[0], sub=k.split('/')[1])
            keys = list(members_by_key)
            pool = pool + [members_by_key[k] for k in model]
        else:
            handlers = Handlers(dict(model))
        alive = [(handlers, model)]
        probes = [gen_query(pool) for _ in range(6)]
        for step in range(n_steps):
            handlers, model = rnd.choice(alive)
            op = rnd.choice(['set', 'set', 'del', 'update', 'update_kw', 'pop', 'pop_default',
                             'popitem', 'clear', 'copy', 'copy_mod', 'setdefault', 'ior',
                             'replace_same_key', 'del_missing', 'resolve', 'resolve'])
            k = rnd.choice(keys)
            if op == 'set':
                h = new_handler()
                handlers[k] = h
                model[k] = h
            elif op == 'replace_same_key' and model:
                k = rnd.choice(list(model))
                h = new_handler()
                handlers[k] = h
                model[k] = h
            elif op == 'del' and model:
                k = rnd.choice(list(model))
                del handlers[k]
                del model[k]
            elif op == 'del_missing' and k not in model:
                try:
                    del handlers[k]
                    fail('del of a missing key did not raise')
                except KeyError:
                    pass
            elif op == 'update':
                new = {kk: new_handler() for kk in rnd.sample(keys, rnd.randrange(0, 4))}
                if rnd.random() < 0.5:
                    handlers.update(new)
                else:
                    handlers.update(list(new.items()))
                model.update(new)
            elif op == 'update_kw':
                h = new_handler()
                handlers.update(**{'text/kw': h})
                model['text/kw'] = h
                members_by_key['text/kw'] = Member(main='text', sub='kw')
                if 'text/kw' not in keys:
                    keys.append('text/kw')
                    pool.append(members_by_key['text/kw'])
            elif op == 'pop' and model:
                k = rnd.choice(list(model))
                if handlers.pop(k) is not model.pop(k):
                    fail('pop returned a wrong handler')
            elif op == 'pop_default':
                sentinel = object()
                got = handlers.pop(k, sentinel)
                if got is not model.pop(k, sentinel):
                    fail('pop(default) returned a wrong handler')
            elif op == 'popitem' and model:
                kk, vv = handlers.popitem()
                if model.pop(kk) is not vv:
                    fail('popitem returned a wrong handler')
            elif op == 'clear':
                if rnd.random() < 0.3:
                    handlers.clear()
                    model.clear()
            elif op == 'copy':
                how = rnd.choice(['copy', 'copy.copy', 'ctor'])
                if how == 'copy':
                    c = handlers.copy()
                elif how == 'copy.copy':
                    c = copy.copy(handlers)
                else:
                    c = Handlers(handlers)
                if type(c) is not Handlers or c is handlers or c.data is handlers.data:
                    fail('bad copy')
                if len(alive) < 4:
                    alive.append((c, dict(model)))
                else:
                    alive[rnd.randrange(1, 4)] = (c, dict(model))
            elif op == 'copy_mod' and model:
                # mutate a copy, then verify that the original is unaffected
                c = handlers.copy()
                kk = rnd.choice(list(model))
                c[kk] = new_handler()
                del c[kk]
            elif op == 'setdefault':
                h = new_handler()
                got = handlers.setdefault(k, h)
                if got is not model.setdefault(k, h):
                    fail('setdefault returned a wrong handler')
            elif op == 'ior':
                new = {kk: new_handler() for kk in rnd.sample(keys, rnd.randrange(0, 3))}
                before = handlers
                handlers |= new
                if handlers is not before:
                    fail('|= rebinds')
                model.update(new)
            if dict(handlers.data) != model or list(handlers) != list(model):
                fail('mapping content diverged after %s' % op)
            count('mutations')
            # resolve on every live mapping after every operation: the same
            # probes again and again (cache coherence) plus a fresh query
            for hh, mm in alive:
                for query in probes:
                    check_resolve(hh, mm, members_by_key, query)
                check_resolve(hh, mm, members_by_key, gen_query(pool))

    # hard-coded expectations
    j1, j2, x = H('j1', True), H('j2', False), H('x', False)
    hs = Handlers({'application/json': j1})
    assert hs._resolve('application/json', 'application/json')[0] is j1
    assert hs._resolve('application/json; charset=utf-8', 'application/json')[0] is j1
    assert hs._resolve(None, 'application/json') == (j1, ('ser', 'j1'), ('des', 'j1'))
    assert hs._resolve('*/*', 'application/json')[0] is j1
    hs['application/json'] = j2
    assert hs._resolve('application/json', 'application/json') == (j2, None, None)
    assert hs._resolve('application/json; charset=utf-8', 'application/json')[0] is j2
    assert hs._resolve('', 'application/json')[0] is j2
    hs['text/xml'] = x
    assert hs._resolve('text/xml;v=1', 'application/json')[0] is x
    del hs['text/xml']
    assert hs._resolve('text/xml;v=1', 'application/json', False) == (None, None, None)
    try:
        hs._resolve('text/xml;v=1', 'application/json')
        fail('no 415')
    except falcon.HTTPUnsupportedMediaType as ex:
        assert ex.description == 'text/xml;v=1 is an unsupported media type.'
    assert hs._resolve('application/json;q=0', 'application/json', False)[0] is None
    hs.clear()
    assert hs._resolve('application/json', 'application/json', False)[0] is None
    assert list(hs.copy()) == []
    if not falcon.constants.PYPY:
        info = Handlers()._resolve.cache_info()
        assert info.maxsize == 64 and info.currsize == 0, info
        assert Handlers()._create_resolver().cache_info().maxsize == 64
    count('fixed', 14)


# ---------------------------------------------------------------------------
# 4. Request.client_accepts / client_prefers (WSGI and ASGI)
# ---------------------------------------------------------------------------

def make_reqs(accept_text):
    if accept_text is None:
        return [testing.create_req(), testing.create_asgi_req()]
    headers = {'Accept': accept_text}
    return [testing.create_req(headers=headers), testing.create_asgi_req(headers=headers)]


def section_request(n):
    for i in range(n):
        r = rnd.random()
        if r < 0.05:
            members, text = [Member(main='*', sub='*')], None
        elif r < 0.1:
            members, text = [Member(main='*', sub='*')], ''
        else:
            members = gen_header(allow_quoted=rnd.random() < 0.4, invalid_ok=rnd.random() < 0.5)
            text = render_header(members).strip()
            if not text:
                members = [Member(main='*', sub='*')]
        k = rnd.choice([0, 1, 2, 3, 5])
        types = [gen_member('type', allow_quoted=rnd.random() < 0.3,
                            invalid_ok=rnd.random() < 0.2) for _ in range(k)]
        if rnd.random() < 0.2 and members[0].raw is None:
            types.append(members[0])  # candidate text may equal the header text
        for req in make_reqs(text):
            accept = req.accept
            if accept != (text or '*/*'):
                fail('req.accept = %r for header %r' % (accept, text))
                continue
            # client_prefers
            try:
                best = ref_best_match(types, members)
                expected = best.render() if best is not None else None
            except (RefInvalidType, RefInvalidRange):
                expected = None
            got = req.client_prefers(rnd.choice([list, tuple, iter])([t.render() for t in types]))
            if got != expected:
                fail('%s.client_prefers(%r) with Accept %r: expected %r, got %r' % (
                    type(req).__module__, [t.render() for t in types], accept, expected, got))
            count('client_prefers')
            # client_accepts
            for t in types[:3] + [Member(main='application', sub='json')]:
                tt = t.render()
                if accept == tt or accept == '*/*':
                    expected = True
                else:
                    try:
                        expected = ref_quality(t, members) != 0.0
                    except (RefInvalidType, RefInvalidRange):
                        expected = False
                got = req.client_accepts(tt)
                if got is not expected:
                    fail('%s.client_accepts(%r) with Accept %r: expected %r, got %r' % (
                        type(req).__module__, tt, accept, expected, got))
                count('client_accepts')

    for req in make_reqs('application/json;q=0, text/*;q=0.2, */*;q=0.1'):
        assert req.client_accepts('application/json') is False
        assert req.client_accepts('text/plain') is True
        assert req.client_accepts('image/png') is True
        assert req.client_prefers(['application/json']) is None
        assert req.client_prefers(['application/json', 'image/png', 'text/x']) == 'text/x'
        assert req.client_prefers([]) is None
        assert req.client_prefers(['nonsense']) is None
        assert req.client_accepts('nonsense') is False
    for req in make_reqs('text/html;q=7'):
        assert req.client_accepts('text/html') is False
        assert req.client_accepts('text/html;q=7') is True  # literal shortcut
        assert req.client_prefers(['text/html']) is None
    for req in make_reqs(None) + make_reqs(''):
        assert req.client_accepts('anything') is True
        assert req.client_prefers(['a/b', 'c/d']) == 'a/b'
    count('fixed', 30)


def guarded(func, *args):
    import traceback
    try:
        func(*args)
    except AssertionError:
        tb = traceback.extract_tb(sys.exc_info()[2])[-1]
        fail('hard-coded expectation failed at line %s: %s' % (tb.lineno, tb.line))


def main(weights):
    if 'negotiation' in weights:
        guarded(section_negotiation, *weights['negotiation'])
    if 'internals' in weights:
        guarded(section_internals, weights['internals'])
    if 'handlers' in weights:
        guarded(section_handlers, *weights['handlers'])
    if 'request' in weights:
        guarded(section_request, weights['request'])
    report()


if __name__ == '__main__':
    main({'negotiation': (2000, 1000), 'internals': 3000, 'handlers': (25, 30), 'request': 250})
