"""Check for PROPERTY C12 (media round trips; request media parsed at most once).

Self-contained.  Run as:  PYTHONPATH=<falcon tree> /venv/bin/python check.py
Prints PASS and exits 0 when every assertion holds, on the unmodified tree as
well as on the tree with change 3 applied.  All expectations are either a
reference model written here (json / urllib semantics, the documented caching
contract) or values observed on the UNMODIFIED tree.
"""

import asyncio
import io
import json
import random
import sys

import falcon
import falcon.asgi
from falcon import errors
from falcon import media as fmedia
import falcon.testing as testing

# --------------------------------------------------------------------------
# Tiny assertion helpers
# --------------------------------------------------------------------------

CASES = 0


def check(cond, *info):
    global CASES
    CASES += 1
    if not cond:
        import traceback

        traceback.print_stack(limit=6)
        print('FAIL', *[repr(i)[:400] for i in info])
        sys.exit(1)


# --------------------------------------------------------------------------
# Generators
# --------------------------------------------------------------------------

ALPHABETS = [
    'abcXYZ019 _-',
    '"\\/\b\f\n\r\t\x00\x1f\x7f',
    '\u00e9\u00fc\u0416\u4e2d\u20ac\u2028\u2029\ufeff\ufffd',
    '\U0001f600\U0001f40d\U00010348\U0010ffff',
    '&=+%#;,?[]{}:\'<>',
]


def rand_str(rng, maxlen=12):
    n = rng.choice([0, 1, 1, 2, 3, 5, maxlen])
    alpha = rng.choice(ALPHABETS + [''.join(ALPHABETS)])
    return ''.join(rng.choice(alpha) for _ in range(n))


def rand_scalar(rng):
    k = rng.randrange(9)
    if k == 0:
        return None
    if k == 1:
        return rng.choice([True, False])
    if k == 2:
        return rng.choice([0, 1, -1, 2**31, -(2**63), 2**64 + 1, 10**40, -(10**25)])
    if k == 3:
        return rng.randint(-1000, 1000)
    if k == 4:
        return rng.choice([0.0, -0.0, 1.5, -2.25, 1e-300, 1.7976931348623157e308, 0.1])
    if k == 5:
        return rng.uniform(-1e6, 1e6)
    return rand_str(rng)


def rand_doc(rng, depth=0):
    if depth >= 4 or rng.random() < 0.35:
        return rand_scalar(rng)
    if rng.random() < 0.5:
        return [rand_doc(rng, depth + 1) for _ in range(rng.randrange(0, 4))]
    return {rand_str(rng): rand_doc(rng, depth + 1) for _ in range(rng.randrange(0, 4))}


FIXED_DOCS = [
    {},
    [],
    '',
    0,
    False,
    [None],
    {'': ''},
    {'a': {'b': {'c': [1, 2.5, 'x', None, True, {'d': []}]}}},
    '\U0001f600',
    'line\u2028sep',
    '\\u0041',
    '"quoted"',
    10**60,
    -(2**70),
    [[[[[[]]]]]],
    {'k\n': 'v\t', '\u20ac': ['\x00']},
]


def same_doc(a, b):
    # Equality that also tells apart 1 / 1.0 / True and -0.0 / 0.0.
    if type(a) is not type(b):
        return False
    if isinstance(a, dict):
        return list(a.keys()) == list(b.keys()) and all(
            same_doc(a[k], b[k]) for k in a
        )
    if isinstance(a, list):
        return len(a) == len(b) and all(same_doc(x, y) for x, y in zip(a, b))
    if isinstance(a, float):
        return repr(a) == repr(b)
    return a == b


def rand_form(rng):
    form = {}
    for _ in range(rng.randrange(0, 5)):
        key = rand_str(rng) or 'k'
        if rng.random() < 0.3:
            form[key] = [rand_str(rng) for _ in range(rng.randrange(0, 4))]
        else:
            form[key] = rand_str(rng)
    return form


def form_model(form):
    # What URLEncodedFormHandler(keep_blank=True, csv=False) documents.
    out = {}
    for k, v in form.items():
        if isinstance(v, list):
            if not v:
                continue
            out[k] = v[0] if len(v) == 1 else list(v)
        else:
            out[k] = v
    return out


def rand_cuts(rng, n):
    kind = rng.randrange(5)
    if kind == 0 or n == 0:
        return [n]
    if kind == 1:
        return [1] * n
    if kind == 2:
        c = rng.randint(1, n)
        return [c, n - c]
    if kind == 3:
        # includes empty chunks
        out, left = [], n
        while left:
            c = rng.randint(0, min(left, 7))
            out.append(c)
            left -= c
        return out
    out, left = [], n
    while left:
        c = rng.randint(1, left)
        out.append(c)
        left -= c
    return out


# --------------------------------------------------------------------------
# Instrumented transports
# --------------------------------------------------------------------------


class CountingIO(io.BytesIO):
    def __init__(self, data):
        super().__init__(data)
        self.calls = 0

    def read(self, *a):
        self.calls += 1
        return super().read(*a)

    def readline(self, *a):
        self.calls += 1
        return super().readline(*a)

    def readinto(self, *a):  # pragma: no cover
        self.calls += 1
        return super().readinto(*a)


class Receive:
    def __init__(self, body, cuts):
        self.chunks = []
        pos = 0
        for c in cuts:
            self.chunks.append(body[pos : pos + c])
            pos += c
        assert pos == len(body)
        if not self.chunks:
            self.chunks = [b'']
        self.i = 0
        self.calls = 0

    async def __call__(self):
        self.calls += 1
        if self.i < len(self.chunks):
            chunk = self.chunks[self.i]
            self.i += 1
            event = {'type': 'http.request'}
            if chunk or self.calls % 2:
                event['body'] = chunk
            if self.i < len(self.chunks):
                event['more_body'] = True
            elif self.calls % 3:
                event['more_body'] = False
            return event
        return {'type': 'http.disconnect'}


class _CountingMixin:
    def _install(self):
        self.n_des = 0
        self.n_ser = 0

        def dumps(obj):
            self.n_ser += 1
            return json.dumps(obj, ensure_ascii=False)

        fmedia.JSONHandler.__init__(self, dumps=dumps)
        self.n_ser = 0  # __init__ probes dumps() once


class CountingJSONHandler(_CountingMixin, fmedia.JSONHandler):
    """A subclass: disables the _serialize_sync/_deserialize_sync shortcuts."""

    def __init__(self):
        self._install()

    def deserialize(self, stream, content_type, content_length):
        self.n_des += 1
        return super().deserialize(stream, content_type, content_length)

    async def deserialize_async(self, stream, content_type, content_length):
        self.n_des += 1
        return await super().deserialize_async(stream, content_type, content_length)


def fast_counting_handler():
    """A plain JSONHandler (shortcuts enabled) whose dumps() calls are counted."""
    box = type('Box', (), {})()
    box.n_ser = 0

    def dumps(obj):
        box.n_ser += 1
        return json.dumps(obj, ensure_ascii=False)

    handler = fmedia.JSONHandler(dumps=dumps)
    box.n_ser = 0
    assert type(handler) is fmedia.JSONHandler
    return handler, box


class BoomError(Exception):
    pass


class BoomHandler(fmedia.BaseHandler):
    """Handler failing with a non-HTTP error; the error must be cached too."""

    exhaust_stream = True

    def __init__(self):
        self.n_des = 0

    def deserialize(self, stream, content_type, content_length):
        self.n_des += 1
        stream.read(1)
        raise BoomError('boom %d' % self.n_des)

    async def deserialize_async(self, stream, content_type, content_length):
        self.n_des += 1
        await stream.read(1)
        raise BoomError('boom %d' % self.n_des)

    def serialize(self, media, content_type):  # pragma: no cover
        raise BoomError('ser')


def make_options(kind):
    """kind: 'default' | 'counting' | 'boom'."""
    opts = falcon.RequestOptions()
    handler = None
    if kind == 'counting':
        handler = CountingJSONHandler()
        opts.media_handlers[falcon.MEDIA_JSON] = handler
        opts.media_handlers['application/vnd.api+json'] = handler
    elif kind == 'boom':
        handler = BoomHandler()
        opts.media_handlers[falcon.MEDIA_JSON] = handler
    return opts, handler


def wsgi_req(body, content_type, opts):
    headers = {}
    if content_type is not None:
        headers['Content-Type'] = content_type
    env = testing.create_environ(method='POST', path='/', headers=headers, body=body)
    stream = CountingIO(body)
    env['wsgi.input'] = stream
    env['CONTENT_LENGTH'] = str(len(body))
    return falcon.Request(env, options=opts), stream


def asgi_req(body, content_type, opts, cuts):
    headers = {'Content-Length': str(len(body))}
    if content_type is not None:
        headers['Content-Type'] = content_type
    scope = testing.create_scope(method='POST', path='/', headers=headers)
    receive = Receive(body, cuts)
    return falcon.asgi.Request(scope, receive, options=opts), receive


# --------------------------------------------------------------------------
# The reference model for a get_media() history
# --------------------------------------------------------------------------

JSON_CTYPES = [
    None,
    '',
    '*/*',
    'application/json',
    'application/json; charset=utf-8',
    'application/json;charset=UTF-8',
    'application/json; charset="utf-8"; foo="a,b"',
]
PLUS_JSON = 'application/vnd.api+json'
UNSUPPORTED_CTYPES = ['text/plain', 'application/JSON', 'garbage', 'application/xml']
FORM_CTYPES = [
    'application/x-www-form-urlencoded',
    'application/x-www-form-urlencoded; charset=utf-8',
]

SENTINELS = [None, {}, [], 0, '', 'dflt', {'x': 1}, falcon.MediaNotFoundError('mine')]


def rand_ops(rng):
    ops = []
    for _ in range(rng.randint(1, 7)):
        k = rng.randrange(3)
        if k == 0:
            ops.append(('get',))
        elif k == 1:
            ops.append(('media',))
        else:
            ops.append(('default', rng.choice(SENTINELS)))
    return ops


def run_history_sync(req, ops):
    """Returns list of ('ret', obj) | ('exc', exc)."""
    out = []
    for op in ops:
        try:
            if op[0] == 'get':
                r = req.get_media()
            elif op[0] == 'media':
                r = req.media
            else:
                r = req.get_media(default_when_empty=op[1])
            out.append(('ret', r))
        except Exception as e:  # noqa
            out.append(('exc', e))
    return out


async def run_history_async(req, ops):
    out = []
    for op in ops:
        try:
            if op[0] == 'get':
                r = await req.get_media()
            elif op[0] == 'media':
                r = await req.media
            else:
                r = await req.get_media(default_when_empty=op[1])
            out.append(('ret', r))
        except Exception as e:  # noqa
            out.append(('exc', e))
    return out


def judge_history(ops, out, first, tag):
    """first: ('value', doc|None-for-any) | ('notfound',) | ('malformed',) |
    ('boom',) | ('unsupported',)."""
    cached_val = None
    cached_exc = None
    for idx, (op, (kind, obj)) in enumerate(zip(ops, out)):
        info = (tag, idx, op, kind, obj)
        if first[0] == 'unsupported':
            check(kind == 'exc', *info)
            check(isinstance(obj, falcon.HTTPUnsupportedMediaType), *info)
            check(obj.status_code == 415, *info)
            continue
        if first[0] == 'value':
            check(kind == 'ret', *info)
            if idx == 0:
                cached_val = obj
                if len(first) > 1:
                    check(same_doc(obj, first[1]), first[1], *info)
            else:
                check(obj is cached_val, *info)
            continue
        if first[0] == 'notfound':
            if op[0] == 'default':
                check(kind == 'ret', *info)
                check(obj is op[1], *info)
            else:
                check(kind == 'exc', *info)
                check(type(obj) is errors.MediaNotFoundError, *info)
                check(obj.status_code == 400, *info)
                if cached_exc is None:
                    cached_exc = obj
                check(obj is cached_exc, *info)
            continue
        # malformed / boom: default is never honoured, same error re-raised
        check(kind == 'exc', *info)
        if first[0] == 'malformed':
            check(type(obj) is errors.MediaMalformedError, *info)
            check(obj.status_code == 400, *info)
            check(isinstance(obj, falcon.HTTPBadRequest), *info)
        else:
            check(type(obj) is BoomError and obj.args == ('boom 1',), *info)
        if cached_exc is None:
            cached_exc = obj
        check(obj is cached_exc, *info)


# Optional hook(req, n_ops_done, results_so_far, first) invoked before every
# operation of a history and once more after the last one.
BETWEEN_OPS = None


def _hook(req, n, out, first):
    if BETWEEN_OPS is not None:
        BETWEEN_OPS(req, n, out, first)


def history_case(rng, body, ctype, first, opts_kind='default', ops=None):
    """Run the same history on WSGI and on ASGI (random chunking)."""
    ops = ops or rand_ops(rng)

    # ---- WSGI
    opts, handler = make_options(opts_kind)
    req, stream = wsgi_req(body, ctype, opts)
    out = []
    reads_after_first = None
    for i, op in enumerate(ops):
        _hook(req, i, out, first)
        out.extend(run_history_sync(req, [op]))
        if i == 0:
            reads_after_first = stream.calls
            pos_after_first = stream.tell()
    _hook(req, len(ops), out, first)
    judge_history(ops, out, first, ('wsgi', body, ctype, opts_kind))
    check(stream.calls == reads_after_first, 'wsgi stream touched again', body, ops)
    check(stream.tell() == pos_after_first, 'wsgi stream moved', body, ops)
    if first[0] == 'unsupported':
        check(stream.calls == 0, 'stream read for unsupported type')
    else:
        # the body was consumed exactly once and completely
        check(stream.tell() == len(body), 'wsgi body not consumed', body, ops)
        check(req.bounded_stream.eof, 'wsgi bounded stream not at EOF')
        if handler is not None:
            check(handler.n_des == 1, 'handler called', handler.n_des, ops)

    # ---- ASGI
    opts, handler = make_options(opts_kind)
    cuts = rand_cuts(rng, len(body))
    req, receive = asgi_req(body, ctype, opts, cuts)

    async def go():
        out = []
        calls = None
        for i, op in enumerate(ops):
            _hook(req, i, out, first)
            out.extend(await run_history_async(req, [op]))
            if i == 0:
                calls = receive.calls
        _hook(req, len(ops), out, first)
        return out, calls

    out, calls_after_first = asyncio.run(go())
    judge_history(ops, out, first, ('asgi', body, ctype, opts_kind, cuts))
    check(receive.calls == calls_after_first, 'asgi receive called again', body, ops)
    if first[0] == 'unsupported':
        check(receive.calls == 0, 'receive called for unsupported type')
    else:
        check(sum(map(len, receive.chunks[: receive.i])) == len(body), 'asgi body not consumed', cuts)
        check(req.stream.eof, 'asgi stream not at EOF')
        if handler is not None:
            check(handler.n_des == 1, 'handler called', handler.n_des, ops)


# --------------------------------------------------------------------------
# Response rendering + round trip
# --------------------------------------------------------------------------


def render_sync(doc, ctype, counting):
    ropts = falcon.ResponseOptions()
    handler = None
    if counting == 'sub':
        handler = CountingJSONHandler()
        ropts.media_handlers[falcon.MEDIA_JSON] = handler
        ropts.media_handlers[PLUS_JSON] = handler
    elif counting == 'fast':
        fast, handler = fast_counting_handler()
        ropts.media_handlers[falcon.MEDIA_JSON] = fast
        ropts.media_handlers[PLUS_JSON] = fast
    resp = falcon.Response(options=ropts)
    if ctype:
        resp.content_type = ctype
    resp.media = doc
    check(resp.media is doc)
    first = resp.render_body()
    second = resp.render_body()
    if doc is None:
        check(first is None and second is None, 'None media renders no body')
        return None
    check(type(first) is bytes, first)
    check(second is first, 'render cache (sync)')
    check(resp._media_rendered is first)
    if handler is not None:
        check(handler.n_ser == 1, 'serialize calls', handler.n_ser)
    if not ctype:
        check(resp.content_type == ropts.default_media_type)
    # data wins over media, text wins over data, and neither spoils the cache
    resp.data = b'raw'
    check(resp.render_body() == b'raw')
    resp.text = 'txt\u20ac'
    check(resp.render_body() == 'txt\u20ac'.encode())
    resp.text = None
    resp.data = None
    check(resp.render_body() is first, 'cache survives data/text')
    # re-assigning media invalidates the cache
    resp.media = [doc]
    third = resp.render_body()
    check(third is not first and resp.render_body() is third)
    if handler is not None:
        check(handler.n_ser == 2, 'serialize calls', handler.n_ser)
    check(same_doc(json.loads(third.decode('utf-8')), [doc]), 'wrapped doc', doc)
    return first


def render_async(doc, ctype, counting):
    ropts = falcon.ResponseOptions()
    handler = None
    if counting == 'sub':
        handler = CountingJSONHandler()
        ropts.media_handlers[falcon.MEDIA_JSON] = handler
        ropts.media_handlers[PLUS_JSON] = handler
    elif counting == 'fast':
        fast, handler = fast_counting_handler()
        ropts.media_handlers[falcon.MEDIA_JSON] = fast
        ropts.media_handlers[PLUS_JSON] = fast
    resp = falcon.asgi.Response(options=ropts)
    if ctype:
        resp.content_type = ctype
    resp.media = doc

    async def go():
        first = await resp.render_body()
        second = await resp.render_body()
        if doc is None:
            check(first is None and second is None)
            return None
        check(type(first) is bytes, first)
        check(second is first, 'render cache (async)')
        check(resp._media_rendered is first)
        if handler is not None:
            check(handler.n_ser == 1, 'serialize calls', handler.n_ser)
        resp.data = b'raw'
        check(await resp.render_body() == b'raw')
        resp.text = 'txt'
        check(await resp.render_body() == b'txt')
        resp.text = None
        resp.data = None
        check(await resp.render_body() is first)
        resp.media = [doc]
        third = await resp.render_body()
        check(third is not first and (await resp.render_body()) is third)
        if handler is not None:
            check(handler.n_ser == 2, 'serialize calls', handler.n_ser)
        return first

    return asyncio.run(go())


def json_roundtrip_case(rng, doc):
    ctype = rng.choice(JSON_CTYPES + [PLUS_JSON])
    counting = rng.choice(['sub', 'fast'] if ctype == PLUS_JSON else ['sub', 'fast', None])
    body_s = render_sync(doc, ctype, counting)
    body_a = render_async(doc, ctype, counting)
    check(body_s == body_a, 'WSGI/ASGI bodies differ', doc)
    if doc is None:
        return
    # independent reference decode
    check(same_doc(json.loads(body_s.decode('utf-8')), doc), 'reference decode', doc)
    history_case(
        rng,
        body_s,
        ctype,
        ('value', doc),
        opts_kind='counting' if (counting or ctype == PLUS_JSON) else 'default',
    )


def form_roundtrip_case(rng, form):
    ctype = rng.choice(FORM_CTYPES)
    ropts = falcon.ResponseOptions()
    resp = falcon.Response(options=ropts)
    resp.content_type = ctype
    resp.media = form
    body = resp.render_body()
    check(resp.render_body() is body)
    aresp = falcon.asgi.Response(options=falcon.ResponseOptions())
    aresp.content_type = ctype
    aresp.media = form

    async def go():
        b = await aresp.render_body()
        check((await aresp.render_body()) is b)
        return b

    check(asyncio.run(go()) == body, 'form WSGI/ASGI bodies differ')
    check(type(body) is bytes and body.isascii(), body)
    history_case(rng, body, ctype, ('value', form_model(form)))


# --------------------------------------------------------------------------
# End to end through the App objects (the ASGI App inlines render_body())
# --------------------------------------------------------------------------


class EchoSync:
    def __init__(self):
        self.doc = None

    def on_get(self, req, resp):
        resp.media = self.doc

    def on_post(self, req, resp):
        a = req.get_media()
        b = req.media
        c = req.get_media(default_when_empty='unused')
        assert a is b is c
        resp.media = a

    def on_put(self, req, resp):
        d = req.get_media(default_when_empty={'empty': True})
        e = req.get_media(default_when_empty=None)
        resp.media = {'first': d, 'second': e}
        req.get_media()  # raises the cached error when the body was empty


class EchoAsync:
    def __init__(self):
        self.doc = None

    async def on_get(self, req, resp):
        resp.media = self.doc

    async def on_post(self, req, resp):
        a = await req.get_media()
        b = await req.media
        c = await req.get_media(default_when_empty='unused')
        assert a is b is c
        resp.media = a

    async def on_put(self, req, resp):
        d = await req.get_media(default_when_empty={'empty': True})
        e = await req.get_media(default_when_empty=None)
        resp.media = {'first': d, 'second': e}
        await req.get_media()


def end_to_end(rng, docs, bad_bodies):
    wres, ares = EchoSync(), EchoAsync()
    wapp = falcon.App()
    wapp.add_route('/', wres)
    aapp = falcon.asgi.App()
    aapp.add_route('/', ares)
    wc, ac = testing.TestClient(wapp), testing.TestClient(aapp)
    hdr = {'Content-Type': 'application/json'}
    for doc in docs:
        bodies = []
        for client, res in ((wc, wres), (ac, ares)):
            res.doc = doc
            r = client.simulate_get('/')
            check(r.status_code == 200, r.status, doc)
            if doc is None:
                check(r.content == b'')
                continue
            check(r.headers['content-type'] == 'application/json', r.headers)
            check(same_doc(json.loads(r.content.decode('utf-8')), doc), doc)
            bodies.append(r.content)
            r2 = client.simulate_post('/', body=r.content, headers=hdr)
            check(r2.status_code == 200, r2.status, r2.content, doc)
            check(r2.content == r.content, 'echo differs', doc)
        check(len(set(bodies)) <= 1, 'apps disagree', doc)
    for client in (wc, ac):
        for body in bad_bodies:
            r = client.simulate_post('/', body=body, headers=hdr)
            check(r.status_code == 400, r.status, body)
            doc = json.loads(r.content.decode('utf-8'))
            if body:
                check(doc['title'] == 'Invalid JSON', doc)
            else:
                check(doc['title'] == 'Invalid JSON', doc)
                check(doc['description'] == 'Could not parse an empty JSON body', doc)
        # default_when_empty on an empty body, then the cached error
        r = client.simulate_put('/', body=b'', headers=hdr)
        check(r.status_code == 400, r.status)
        r = client.simulate_put('/', body=b'[1]', headers=hdr)
        check(r.status_code == 200 and r.json == {'first': [1], 'second': [1]}, r.content)
        r = client.simulate_post('/', body=b'{}', headers={'Content-Type': 'text/x-nope'})
        check(r.status_code == 415, r.status)


# --------------------------------------------------------------------------
# Direct handler checks (JSON error mapping, form handler)
# --------------------------------------------------------------------------


def bad_json_bodies(rng, docs):
    out = [
        b'{',
        b'}',
        b'[1,',
        b'nul',
        b'\xff',
        b'\xfe\xff\x00[\x00]',
        b'"\xed\xa0\x80"',
        b'{"a": 1,}',
        b"{'a': 1}",
        b'\x00',
        b' ',
        b'\n\n',
        b'[1] x',
        b'"\\ud800',
        b'\xef\xbb\xbf[]',
        '[1]'.encode('utf-16'),
        '{"a": "\u00e9"}'.encode('latin-1'),
        '"\u4e2d"'.encode('utf-32'),
    ]
    for doc in docs:
        s = json.dumps(doc, ensure_ascii=False).encode('utf-8')
        if len(s) > 1:
            out.append(s[: rng.randint(1, len(s) - 1)])
        out.append(s + b'\xc3')
        out.append(json.dumps(doc).encode('utf-16'))
    good = []
    for b in out:
        try:
            json.loads(b.decode('utf-8'))
        except ValueError:
            good.append(b)
    return good


def handler_direct(rng, docs, bad):
    h = fmedia.JSONHandler()
    for hh in (h, CountingJSONHandler()):
        for fn in ('sync', 'async', 'fast'):
            def call(b, hh=hh, fn=fn):
                if fn == 'sync':
                    return hh.deserialize(io.BytesIO(b), 'application/json', len(b))
                if fn == 'fast':
                    return hh._deserialize(b)

                class S:
                    async def read(self):
                        return b

                return asyncio.run(hh.deserialize_async(S(), 'application/json', len(b)))

            try:
                call(b'')
                check(False, 'no error for empty body')
            except errors.MediaNotFoundError as e:
                check(type(e) is errors.MediaNotFoundError and e.status_code == 400)
                check(e.title == 'Invalid JSON', e.title)
                check(e.description == 'Could not parse an empty JSON body', e.description)
                check(e.__cause__ is None)
            for b in bad[: (None if fn != 'async' else 40)]:
                try:
                    call(b)
                    check(False, 'no error', b)
                except errors.MediaMalformedError as e:
                    check(type(e) is errors.MediaMalformedError and e.status_code == 400)
                    check(e.title == 'Invalid JSON', e.title)
                    check(isinstance(e.__cause__, ValueError), e.__cause__)
                    check(e.description.startswith('Could not parse JSON body - '), e.description)
                    check(e.description == 'Could not parse JSON body - %s' % (e.__cause__,))
            for doc in docs[: (None if fn != 'async' else 40)]:
                s = hh.serialize(doc, 'application/json')
                check(type(s) is bytes)
                check(s == json.dumps(doc, ensure_ascii=False).encode('utf-8'), doc)
                check(same_doc(call(s), doc), doc)
    check(h._serialize_sync == h.serialize and h._deserialize_sync == h._deserialize)
    check(getattr(CountingJSONHandler(), '_serialize_sync', None) is None)
    check(getattr(CountingJSONHandler(), '_deserialize_sync', None) is None)
    # bytes-producing dumps
    hb = fmedia.JSONHandler(dumps=lambda o: json.dumps(o).encode('ascii'))
    for doc in docs[:50]:
        s = hb.serialize(doc, None)
        check(type(s) is bytes and same_doc(hb._deserialize(s), doc), doc)
        check(asyncio.run(hb.serialize_async(doc, None)) == s)

    u = fmedia.URLEncodedFormHandler()
    check(u._deserialize(b'') == {})
    check(u._serialize_sync == u.serialize and u._deserialize_sync == u._deserialize)
    for b in [b'a=\xff', 'k=\u00e9'.encode('utf-8'), 'k=\u00e9'.encode('latin-1'),
              'a=b'.encode('utf-16'), b'\x80', b'a=1&\xc3\xa9=2']:
        for fn in (u._deserialize, lambda x: u.deserialize(io.BytesIO(x), None, len(x))):
            try:
                fn(b)
                check(False, 'no error', b)
            except errors.MediaMalformedError as e:
                check(e.status_code == 400 and e.title == 'Invalid URL-encoded', e.title)
                check(isinstance(e.__cause__, UnicodeDecodeError))
    fixed = {
        b'a=1': {'a': '1'},
        b'=v': {'': 'v'},
        b'a': {'a': ''},
        b'a=': {'a': ''},
        b'a=1&a=2': {'a': ['1', '2']},
        b'a=%ff': {'a': '\ufffd'},
        b'a=%zz': {'a': '%zz'},
        b'a=1,2': {'a': '1,2'},
        b'&&': {},
        b'a=b=c': {'a': 'b=c'},
        b'%E2%82%AC=x+y%2B': {'\u20ac': 'x y+'},
    }
    for b, want in fixed.items():
        check(u._deserialize(b) == want, b)
    # arbitrary ASCII garbage: a dict or a 400, never anything else
    for _ in range(200):
        b = bytes(rng.choice(b'ab=&%+;,19 \xc3\xa9\xff') for _ in range(rng.randrange(0, 12)))
        try:
            check(isinstance(u._deserialize(b), dict))
        except errors.MediaMalformedError as e:
            check(e.status_code == 400)


# --------------------------------------------------------------------------


def run_core(seed=20241001):
    rng = random.Random(seed)
    docs = list(FIXED_DOCS) + [rand_doc(rng) for _ in range(260)]
    bad = bad_json_bodies(rng, docs[:60])

    handler_direct(rng, docs, bad)

    # 1. lossless JSON round trip + cached value histories, WSGI/ASGI/chunkings
    for doc in docs + [None]:
        json_roundtrip_case(rng, doc)

    # 2. forms
    for _ in range(150):
        form_roundtrip_case(rng, rand_form(rng))
    for ctype in FORM_CTYPES:
        history_case(rng, b'', ctype, ('value', {}))
        history_case(rng, b'a=\xff', ctype, ('malformed',))

    # 3. empty bodies: every history, default handler and subclassed handler
    all_ops = [('get',), ('media',)] + [('default', s) for s in SENTINELS]
    for ctype in JSON_CTYPES:
        for kind in ('default', 'counting'):
            for a in all_ops:
                for b in all_ops:
                    history_case(rng, b'', ctype, ('notfound',), kind, [a, b, a])
            for _ in range(10):
                history_case(rng, b'', ctype, ('notfound',), kind)
    history_case(rng, b'', PLUS_JSON, ('notfound',), 'counting')

    # 4. undecodable bodies
    for body in bad:
        history_case(rng, body, rng.choice(JSON_CTYPES), ('malformed',),
                     rng.choice(['default', 'counting']))
    for a in all_ops:
        for b in all_ops:
            history_case(rng, b'{"a":', 'application/json', ('malformed',), 'default', [a, b, a])

    # 5. a handler failing with a foreign error: cached and re-raised as is
    for body in (b'', b'x', b'[1, 2, 3]'):
        for _ in range(10):
            history_case(rng, body, 'application/json', ('boom',), 'boom')

    # 6. unsupported content types never touch the stream
    for ctype in UNSUPPORTED_CTYPES + [PLUS_JSON]:
        for body in (b'', b'[1]', b'{'):
            history_case(rng, body, ctype, ('unsupported',))

    # 7. through the apps
    end_to_end(rng, docs[:80] + [None], [b''] + bad[:25])


# --------------------------------------------------------------------------
# FOCUS (change 3): the errors JSONHandler maps to (type, status, title,
# description, cause, serialized form), over many undecodable bodies.
# --------------------------------------------------------------------------


def _ref_error(body):
    try:
        json.loads(body.decode('utf-8'))
    except ValueError as e:
        return e
    return None


def focus():
    rng = random.Random(99)
    alphabet = b'{}[]",:0123456789.-+eE tfn\\u\xc3\xa9\xff\xf0\x9f\x98\x80 \n\x00abc'
    bodies = [bytes(rng.choice(alphabet) for _ in range(rng.randint(1, 14))) for _ in range(500)]
    handlers = [fmedia.JSONHandler(), CountingJSONHandler(),
                fmedia.JSONHandler(loads=json.loads, dumps=json.dumps)]
    n_bad = 0
    for body in bodies:
        ref = _ref_error(body)
        for h in handlers:
            for mode in ('fast', 'sync', 'async'):
                try:
                    if mode == 'fast':
                        got = h._deserialize(body)
                    elif mode == 'sync':
                        got = h.deserialize(io.BytesIO(body), None, None)
                    else:
                        class S:
                            async def read(self):
                                return body

                        got = asyncio.run(h.deserialize_async(S(), None, None))
                    check(ref is None, 'expected an error', body)
                    check(same_doc(got, json.loads(body.decode('utf-8'))), body)
                except errors.MediaMalformedError as e:
                    n_bad += 1
                    check(ref is not None, 'unexpected error', body)
                    check(type(e) is errors.MediaMalformedError)
                    check(e.status == falcon.HTTP_400 and e.status_code == 400)
                    check(e.title == 'Invalid JSON')
                    check(type(e.__cause__) is type(ref) and str(e.__cause__) == str(ref))
                    check(e.description == 'Could not parse JSON body - ' + str(ref))
                    check(e._media_type == 'JSON')
                    d = e.to_dict()
                    check(d == {'title': 'Invalid JSON',
                                'description': 'Could not parse JSON body - ' + str(ref)}, d)
                    check(json.loads(e.to_json()) == d)
    check(n_bad > 1000, n_bad)

    for h in handlers:
        for empty in (b'', bytearray(), memoryview(b'')):
            try:
                h._deserialize(empty)
                check(False, 'no error')
            except errors.MediaNotFoundError as e:
                check(type(e) is errors.MediaNotFoundError and e.status_code == 400)
                check(e.to_dict() == {'title': 'Invalid JSON',
                                      'description': 'Could not parse an empty JSON body'})
                check(e.__cause__ is None and e.__context__ is None)

    # loads() raising something that is not a ValueError is not remapped
    def bad_loads(s):
        raise KeyError('nope')

    h = fmedia.JSONHandler(loads=bad_loads)
    try:
        h._deserialize(b'[]')
        check(False, 'no error')
    except KeyError as e:
        check(e.args == ('nope',))

    # ... and the bodies the apps send for those errors
    class Res:
        def on_post(self, req, resp):
            resp.media = req.get_media()

    class ARes:
        async def on_post(self, req, resp):
            resp.media = await req.get_media()

    wapp = falcon.App()
    wapp.add_route('/', Res())
    aapp = falcon.asgi.App()
    aapp.add_route('/', ARes())
    for client in (testing.TestClient(wapp), testing.TestClient(aapp)):
        for body in [b''] + bodies[:120]:
            ref = _ref_error(body) if body else None
            r = client.simulate_post('/', body=body, headers={'Content-Type': 'application/json'})
            if not body:
                check(r.status_code == 400)
                check(r.json == {'title': 'Invalid JSON',
                                 'description': 'Could not parse an empty JSON body'}, r.json)
            elif ref is None:
                check(r.status_code == 200, body, r.content)
            else:
                check(r.status_code == 400, body, r.status)
                check(r.json == {'title': 'Invalid JSON',
                                 'description': 'Could not parse JSON body - ' + str(ref)}, r.json)


if __name__ == '__main__':
    run_core()
    core_cases = CASES
    focus()
    print('PASS (%d core + %d focus assertions)' % (core_cases, CASES - core_cases))
