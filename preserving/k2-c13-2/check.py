"""check.py for change 2 (kind 6, extraction of a private helper).

The change moves the duplicated "parse and cache the Content-Disposition header,
return its parameters" block of BodyPart.name and BodyPart.filename into the new
private method BodyPart._get_content_disposition_params() (inherited by the ASGI
BodyPart).  The section that bears on it most directly is F (accessors on both
BodyPart classes in random access orders, missing/empty/invalid headers, errors
raised repeatedly and not cached, cache shared by name and filename); sections
A, C, G, H, I check name/filename of every part of every parsed form.
"""
import asyncio
import hashlib
import io
import json
import random
import signal
import sys
from urllib.parse import quote

import falcon
import falcon.asgi
from falcon import errors
from falcon import testing
from falcon.asgi import multipart as amp
from falcon.asgi.reader import BufferedReader as AsyncReader
from falcon.media import multipart as mp
from falcon.util import BufferedReader as SyncReader

MPE = errors.MultipartParseError

# Overall watchdog: a hang is a failure, not a timeout of the caller.
signal.signal(signal.SIGALRM, lambda *a: (_ for _ in ()).throw(SystemExit('HANG')))
signal.alarm(900)

FAILURES = []
COUNTS = {}
DIGEST = hashlib.sha256()


def fail(section, msg):
    FAILURES.append('[%s] %s' % (section, msg))
    if len(FAILURES) > 25:
        report()


def count(section, n=1):
    COUNTS[section] = COUNTS.get(section, 0) + n


def record(obj):
    DIGEST.update(repr(obj).encode('utf-8', 'backslashreplace'))
    DIGEST.update(b'\n')


def report():
    for line in FAILURES[:25]:
        print('FAIL', line[:600])
    print('cases:', COUNTS)
    print('digest:', DIGEST.hexdigest())
    if FAILURES:
        print('FAILED (%d)' % len(FAILURES))
        sys.exit(1)


# ---------------------------------------------------------------------------
# Reference encoder / model
# ---------------------------------------------------------------------------

BCHARS = "0123456789abcdefghijklmnopqrstuvwxyzABCDEFGHIJKLMNOPQRSTUVWXYZ'()+_,-./:=?"
NAME_CHARS = 'abcXYZ019 _-.;=€é'
HEADER_CASES = [
    ('Content-Disposition', 'Content-Type'),
    ('content-disposition', 'content-type'),
    ('CONTENT-DISPOSITION', 'CONTENT-TYPE'),
    ('Content-disposition', 'cOnTeNt-TyPe'),
]


class Part:
    def __init__(self, name, filename, ext, content_type, content, hcase, extra):
        self.name = name
        self.filename = filename  # expected filename (or None)
        self.ext = ext  # None or charset: encode filename as filename*
        self.content_type = content_type  # None => header omitted
        self.content = content
        self.hcase = hcase
        self.extra = extra  # list of extra (ignored / allowed) raw header lines

    @property
    def expected_content_type(self):
        return self.content_type if self.content_type is not None else 'text/plain'

    def headers_block(self):
        cd_name, ct_name = self.hcase
        lines = []
        cd = 'form-data; name="%s"' % self.name
        if self.filename is not None:
            if self.ext:
                raw = self.filename.encode(self.ext)
                cd += "; filename*=%s''%s" % (self.ext, quote(raw, safe=''))
                if self.extra and self.extra[0].startswith(b'X-Both'):
                    # filename* wins over a plain filename given alongside
                    cd += '; filename="fallback.bin"'
            else:
                cd += '; filename="%s"' % self.filename
        lines.append(('%s: %s' % (cd_name, cd)).encode('utf-8'))
        if self.content_type is not None:
            lines.append(('%s: %s' % (ct_name, self.content_type)).encode('ascii'))
        lines.extend(self.extra)
        return b'\r\n'.join(lines)

    def expected(self):
        return (self.name, self.filename, self.expected_content_type, self.content)


class Form:
    def __init__(self, boundary, parts, preamble, epilogue, final_crlf):
        self.boundary = boundary
        self.parts = parts
        self.preamble = preamble
        self.epilogue = epilogue
        self.final_crlf = final_crlf

    @property
    def dash_boundary(self):
        return b'--' + self.boundary.encode('ascii')

    @property
    def delimiter(self):
        return b'\r\n' + self.dash_boundary

    def encode(self, tail=None):
        out = [self.preamble, self.dash_boundary]
        for i, part in enumerate(self.parts):
            out += [b'\r\n', part.headers_block(), b'\r\n\r\n', part.content]
            out.append(self.delimiter)
        if tail is not None:
            out.append(tail)
        else:
            out.append(b'--')
            if self.final_crlf:
                out.append(b'\r\n')
            out.append(self.epilogue)
        return b''.join(out)

    def content_type(self, rnd=None):
        if rnd is not None and rnd.random() < 0.3:
            return 'multipart/form-data; boundary="%s"' % self.boundary
        if rnd is not None and rnd.random() < 0.2:
            return 'multipart/form-data; charset=utf-8; BOUNDARY=%s ' % self.boundary
        return 'multipart/form-data; boundary=' + self.boundary


def gen_boundary(rnd):
    r = rnd.random()
    if r < 0.15:
        n = rnd.choice([1, 2, 3])
    elif r < 0.3:
        n = rnd.choice([68, 69, 70])
    else:
        n = rnd.randint(1, 40)
    r = rnd.random()
    if r < 0.15:
        return '-' * n
    if r < 0.3:
        alphabet = '-a'
    else:
        alphabet = BCHARS
    b = ''.join(rnd.choice(alphabet) for _ in range(n))
    return b


def gen_content(rnd, form_delim, kind=None):
    dash_boundary = form_delim[2:]
    tokens = [b'\r', b'\n', b'-', b'--', b'\r\n', b'\r\n\r\n', b'\r\n-', b'\r\n--']
    tokens += [form_delim[:k] for k in range(1, len(form_delim))][-6:]
    tokens += [dash_boundary, dash_boundary + b'--', b'\n' + dash_boundary]
    tokens += [form_delim[: len(form_delim) // 2], b'Content-Type: x\r\n']
    for _ in range(50):
        r = rnd.random()
        if r < 0.1:
            n = 0
        elif r < 0.6:
            n = rnd.randint(1, 12)
        elif r < 0.9:
            n = rnd.randint(10, 60)
        else:
            n = rnd.randint(60, 400)
        chunks = []
        for _ in range(n):
            r = rnd.random()
            if r < 0.45:
                chunks.append(rnd.choice(tokens))
            elif r < 0.7:
                chunks.append(bytes([rnd.randrange(256)]))
            else:
                chunks.append(rnd.choice([b'a', b'b', b' ', b'\x00', b'\xff', b'=', b'&']))
        content = b''.join(chunks)
        if (content + form_delim).find(form_delim) == len(content):
            return content
    return b''


def gen_text(rnd, charset):
    s = ''.join(
        rnd.choice('abc \r\n-€é' if charset == 'utf-8' else 'abc \r\n-é')
        for _ in range(rnd.randint(0, 40))
    )
    return s.encode(charset)


def gen_part(rnd, form_delim, idx):
    name = ''.join(rnd.choice(NAME_CHARS) for _ in range(rnd.randint(0, 12)))
    name = name.strip()  # parse_header strips the parameter values
    filename = None
    ext = None
    r = rnd.random()
    if r < 0.3:
        filename = ''.join(rnd.choice('abc019 _-.é') for _ in range(rnd.randint(1, 12)))
        filename = filename.strip() or 'f'
    elif r < 0.5:
        ext = rnd.choice(['utf-8', 'UTF-8', 'iso-8859-1', 'latin-1'])
        filename = ''.join(
            rnd.choice("abc 019_-.;'\"%é/\\") for _ in range(rnd.randint(1, 12))
        )
        if ext.lower() == 'utf-8' and rnd.random() < 0.5:
            filename += '€世'
    extra = []
    r = rnd.random()
    if ext and r < 0.3:
        extra.append(b'X-Both: 1')
    elif r < 0.45:
        extra.append(b'X-Custom: whatever: else')
    elif r < 0.55:
        extra.append(b'Content-Transfer-Encoding: binary')
    elif r < 0.6:
        extra.append(b'Content-Length: 99999')
    elif r < 0.65:
        extra.append(b'no-colon-space-line')

    r = rnd.random()
    kind = 'bin'
    if r < 0.12:
        content_type = 'application/json'
        doc = {'i': idx, 's': '€-\r\n--', 'l': [rnd.randint(-5, 5) for _ in range(rnd.randint(0, 5))]}
        content = json.dumps(doc, ensure_ascii=rnd.random() < 0.5).encode('utf-8')
        kind = 'json'
    elif r < 0.2:
        content_type = 'application/x-www-form-urlencoded'
        content = b'a=1&b=%d&c=x+y' % idx
        kind = 'urlencoded'
    elif r < 0.35:
        charset = rnd.choice(['utf-8', 'iso-8859-1'])
        content_type = rnd.choice(['text/plain; charset=%s', 'text/plain;charset=%s', 'TEXT/PLAIN; Charset=%s']) % charset
        if content_type.startswith('TEXT'):
            # NOTE: parse_header does not lowercase the main type, so get_text
            #   returns None here -- that is today's behaviour, modelled below.
            pass
        content = gen_text(rnd, charset)
        kind = 'text'
    elif r < 0.55:
        content_type = None
        content = gen_text(rnd, 'utf-8') if rnd.random() < 0.6 else gen_content(rnd, form_delim)
        kind = 'text'
    else:
        content_type = rnd.choice(['application/octet-stream', 'image/png', 'text/html; charset=utf-8', 'application/x-unknown'])
        content = gen_content(rnd, form_delim)
    if (content + form_delim).find(form_delim) != len(content):
        content = b''
    p = Part(name, filename, ext, content_type, content, rnd.choice(HEADER_CASES), extra)
    p.kind = kind
    return p


def gen_form(rnd, nparts=None):
    boundary = gen_boundary(rnd)
    delim = b'\r\n--' + boundary.encode()
    if nparts is None:
        nparts = rnd.choice([0, 1, 1, 2, 2, 3, 4, 6])
    parts = [gen_part(rnd, delim, i) for i in range(nparts)]
    preamble = b''
    r = rnd.random()
    if r < 0.15:
        preamble = b'\r\n'
    elif r < 0.3:
        for _ in range(20):
            preamble = gen_content(rnd, delim)[:40] + rnd.choice([b'', b'\r\n'])
            if (preamble + delim[2:]).find(delim[2:]) == len(preamble):
                break
        else:
            preamble = b'preamble\r\n'
    epilogue = b''
    r = rnd.random()
    if r < 0.2:
        epilogue = rnd.choice([b'epilogue', b'\r\n', b'--', delim, delim + b'--\r\n', b'\r\n\r\n'])
    final_crlf = rnd.random() < 0.7
    return Form(boundary, parts, preamble, epilogue, final_crlf)


def model_text(part):
    """What get_text() is documented (and observed) to return."""
    ct = part.expected_content_type
    main, _, params = ct.partition(';')
    if main.strip() != 'text/plain':
        return ('ok', None)
    charset = 'utf-8'
    for p in params.split(';'):
        k, eq, v = p.partition('=')
        if eq and k.strip().lower() == 'charset':
            charset = v.strip()
    try:
        return ('ok', part.content.decode(charset))
    except (ValueError, LookupError):
        return ('mpe', 'invalid text or charset: ' + charset)


# ---------------------------------------------------------------------------
# Transports
# ---------------------------------------------------------------------------


def gen_sizes(rnd, total):
    r = rnd.random()
    if r < 0.2:
        mode = [1]
    elif r < 0.35:
        mode = [1, 2, 3]
    elif r < 0.55:
        mode = [rnd.randint(1, 20)]
    elif r < 0.8:
        mode = [rnd.randint(1, 100) for _ in range(7)]
    else:
        mode = [max(total, 1)]
    return mode


class ChunkedIO:
    def __init__(self, data, sizes):
        self._data = data
        self._pos = 0
        self._sizes = sizes
        self._i = 0

    def read(self, n=-1):
        remaining = len(self._data) - self._pos
        if n is None or n < 0:
            n = remaining
        k = self._sizes[self._i % len(self._sizes)]
        self._i += 1
        n = min(n, k, remaining)
        result = self._data[self._pos : self._pos + n]
        self._pos += n
        return result


async def achunks(data, sizes, empties=False):
    pos = 0
    i = 0
    while pos < len(data):
        k = sizes[i % len(sizes)]
        i += 1
        if empties and i % 5 == 0:
            yield b''
        yield data[pos : pos + k]
        pos += k
    if empties:
        yield b''


def pick_chunk_size(rnd, form):
    dlen = len(form.delimiter)
    r = rnd.random()
    if r < 0.3:
        return None
    if r < 0.55:
        return dlen + rnd.randint(1, 9)
    if r < 0.75:
        return max(dlen + 1, rnd.choice([32, 64, 100, 128]))
    return rnd.choice([256, 1000, 4096])


def make_options(**kw):
    opts = mp.MultipartParseOptions()
    for k, v in kw.items():
        setattr(opts, k, v)
    return opts


def sync_form(body, ctype, sizes, chunk_size, opts=None, via='handler'):
    handler = falcon.media.MultipartFormHandler(opts)
    raw = ChunkedIO(body, sizes)
    if chunk_size is None:
        stream = raw
    else:
        stream = SyncReader(raw.read, len(body), chunk_size)
    return handler.deserialize(stream, ctype, len(body))


async def async_form(body, ctype, sizes, chunk_size, opts=None, empties=False):
    handler = falcon.media.MultipartFormHandler(opts)
    source = achunks(body, sizes, empties)
    if chunk_size is None:
        stream = source
    else:
        stream = AsyncReader(source, chunk_size)
    return await handler.deserialize_async(stream, ctype, len(body))


# ---------------------------------------------------------------------------
# Consumption patterns
# ---------------------------------------------------------------------------

PATTERNS = ['skip', 'full', 'partial', 'multi', 'data', 'text', 'media', 'read_until', 'line_or_iter', 'pipe', 'exhaust', 'zero']


def plan_for(rnd, part):
    pat = rnd.choice(PATTERNS)
    if pat == 'media' and part.kind not in ('json', 'urlencoded'):
        pat = 'data'
    arg = None
    n = len(part.content)
    if pat == 'partial':
        arg = rnd.choice([0, 1, max(n - 1, 0), n, n + 1, rnd.randint(0, n + 3)])
    elif pat == 'multi':
        arg = [rnd.randint(0, 9) for _ in range(rnd.randint(1, 6))]
    elif pat == 'read_until':
        arg = rnd.choice([b'\n', b'\r\n', b'-', b'--', b'zz', b'\r\n--'])
    return (pat, arg)


def expected_for(part, plan):
    pat, arg = plan
    c = part.content
    if pat in ('skip', 'exhaust'):
        return None
    if pat in ('full', 'data', 'pipe'):
        return c
    if pat == 'zero':
        return b''
    if pat == 'partial':
        return c[:arg]
    if pat == 'multi':
        out = []
        pos = 0
        for k in arg:
            out.append(c[pos : pos + k])
            pos += k
        return out
    if pat == 'text':
        return model_text(part)
    if pat == 'media':
        if part.kind == 'json':
            return json.loads(c.decode('utf-8'))
        return {'a': '1', 'b': c.split(b'&')[1][2:].decode(), 'c': 'x y'}
    if pat == 'read_until':
        pos = c.find(arg)
        return c if pos < 0 else c[:pos]
    if pat == 'line_or_iter':
        return None  # computed per-side
    raise AssertionError(pat)


def sync_consume(part, plan):
    pat, arg = plan
    if pat == 'skip':
        return None
    if pat == 'exhaust':
        part.stream.exhaust()
        assert part.stream.read() == b''
        return None
    if pat == 'full':
        return part.stream.read()
    if pat == 'zero':
        return part.stream.read(0)
    if pat == 'partial':
        return part.stream.read(arg)
    if pat == 'multi':
        return [part.stream.read(k) for k in arg]
    if pat == 'data':
        d = part.get_data()
        assert part.get_data() is d and part.data is d
        return d
    if pat == 'text':
        try:
            t = part.get_text()
            assert part.text == t
            return ('ok', t)
        except MPE as ex:
            return ('mpe', ex.description)
    if pat == 'media':
        m = part.get_media()
        assert part.media is m
        return m
    if pat == 'read_until':
        return part.stream.read_until(arg)
    if pat == 'pipe':
        dest = io.BytesIO()
        part.stream.pipe(dest)
        return dest.getvalue()
    raise AssertionError(pat)


class AsyncDest:
    def __init__(self):
        self.buf = io.BytesIO()

    async def write(self, data):
        self.buf.write(data)


async def async_consume(part, plan):
    pat, arg = plan
    if pat == 'skip':
        return None
    if pat == 'exhaust':
        await part.stream.exhaust()
        assert await part.stream.read() == b''
        return None
    if pat == 'full':
        return await part.stream.read()
    if pat == 'zero':
        return await part.stream.read(0)
    if pat == 'partial':
        return await part.stream.read(arg)
    if pat == 'multi':
        return [await part.stream.read(k) for k in arg]
    if pat == 'data':
        d = await part.get_data()
        assert (await part.get_data()) is d and (await part.data) is d
        return d
    if pat == 'text':
        try:
            t = await part.get_text()
            assert (await part.text) == t
            return ('ok', t)
        except MPE as ex:
            return ('mpe', ex.description)
    if pat == 'media':
        m = await part.get_media()
        assert (await part.media) is m
        return m
    if pat == 'read_until':
        return await part.stream.read_until(arg)
    if pat == 'pipe':
        dest = AsyncDest()
        await part.stream.pipe(dest)
        return dest.buf.getvalue()
    raise AssertionError(pat)


def check_meta(section, label, part, ref, order):
    got = {}
    for attr in order:
        got[attr] = getattr(part, attr)
    # second access must be stable (cached)
    for attr in order:
        if getattr(part, attr) != got[attr]:
            fail(section, '%s: unstable %s' % (label, attr))
    exp = {'name': ref.name, 'filename': ref.filename, 'content_type': ref.expected_content_type}
    for attr in order:
        if got[attr] != exp[attr]:
            fail(section, '%s: %s %r != %r' % (label, attr, got[attr], exp[attr]))


META_ORDERS = [
    ('name', 'filename', 'content_type'),
    ('filename', 'name', 'content_type'),
    ('content_type', 'filename', 'name'),
    ('filename', 'content_type', 'name'),
    ('name', 'content_type'),
    ('filename',),
]


def run_sync_valid(section, form, body, ctype, sizes, chunk_size, plans, orders, opts=None):
    label = 'sync b=%r cs=%r sizes=%r' % (form.boundary, chunk_size, sizes[:8])
    f = sync_form(body, ctype, sizes, chunk_size, opts)
    n = 0
    for part in f:
        if n >= len(form.parts):
            fail(section, '%s: extra part' % label)
            return
        ref = form.parts[n]
        plan = plans[n]
        check_meta(section, label, part, ref, orders[n])
        if plan[0] == 'line_or_iter':
            got = part.stream.readline()
            pos = ref.content.find(b'\n')
            exp = ref.content if pos < 0 else ref.content[: pos + 1]
        else:
            got = sync_consume(part, plan)
            exp = expected_for(ref, plan)
        if got != exp:
            fail(section, '%s: part %d plan %r: %r != %r (content %r)' % (label, n, plan, got, exp, ref.content))
        n += 1
    if n != len(form.parts):
        fail(section, '%s: %d parts != %d' % (label, n, len(form.parts)))


async def run_async_valid(section, form, body, ctype, sizes, chunk_size, plans, orders, opts=None, empties=False):
    label = 'async b=%r cs=%r sizes=%r' % (form.boundary, chunk_size, sizes[:8])
    f = await async_form(body, ctype, sizes, chunk_size, opts, empties)
    n = 0
    async for part in f:
        if n >= len(form.parts):
            fail(section, '%s: extra part' % label)
            return
        ref = form.parts[n]
        plan = plans[n]
        check_meta(section, label, part, ref, orders[n])
        if plan[0] == 'line_or_iter':
            got = b''.join([chunk async for chunk in part.stream])
            exp = ref.content
        else:
            got = await async_consume(part, plan)
            exp = expected_for(ref, plan)
        if got != exp:
            fail(section, '%s: part %d plan %r: %r != %r (content %r)' % (label, n, plan, got, exp, ref.content))
        n += 1
    if n != len(form.parts):
        fail(section, '%s: %d parts != %d' % (label, n, len(form.parts)))


def guarded(section, label, fn):
    try:
        fn()
    except SystemExit:
        raise
    except BaseException as ex:
        fail(section, '%s: unexpected %s: %s' % (label, type(ex).__name__, ex))


def arun(coro):
    return asyncio.run(coro)


# ---------------------------------------------------------------------------
# Section A: valid forms x chunkings x consumption patterns
# ---------------------------------------------------------------------------


def section_valid(seed, cases):
    rnd = random.Random(seed)
    for i in range(cases):
        form = gen_form(rnd)
        body = form.encode()
        ctype = form.content_type(rnd)
        plans = [plan_for(rnd, p) for p in form.parts]
        orders = [rnd.choice(META_ORDERS) for p in form.parts]
        for rep in range(2):
            sizes = gen_sizes(rnd, len(body))
            cs = pick_chunk_size(rnd, form)
            guarded('valid', 'sync #%d %r' % (i, body[:80]),
                    lambda: run_sync_valid('valid', form, body, ctype, sizes, cs, plans, orders))
            count('valid-sync')
            sizes = gen_sizes(rnd, len(body))
            cs = pick_chunk_size(rnd, form)
            empties = rnd.random() < 0.3
            guarded('valid', 'async #%d %r' % (i, body[:80]),
                    lambda: arun(run_async_valid('valid', form, body, ctype, sizes, cs, plans, orders, empties=empties)))
            count('valid-async')
        record(('valid', i, len(body), len(form.parts)))


# ---------------------------------------------------------------------------
# Section B: limits at exact thresholds
# ---------------------------------------------------------------------------


def sync_collect(body, ctype, sizes, cs, opts, reader='data'):
    """Parse everything; return (list of part tuples, terminal error or None)."""
    out = []
    try:
        f = sync_form(body, ctype, sizes, cs, opts)
        for part in f:
            rec = []
            for attr in ('name', 'filename', 'content_type'):
                try:
                    rec.append(getattr(part, attr))
                except MPE as ex:
                    rec.append('MPE:' + str(ex.description))
            if reader == 'data':
                rec.append(part.get_data())
            elif reader == 'stream':
                rec.append(part.stream.read())
            else:
                rec.append(None)
            out.append(tuple(rec))
    except MPE as ex:
        return out, 'MPE:' + str(ex.description)
    return out, None


async def async_collect(body, ctype, sizes, cs, opts, reader='data'):
    out = []
    try:
        f = await async_form(body, ctype, sizes, cs, opts)
        async for part in f:
            rec = []
            for attr in ('name', 'filename', 'content_type'):
                try:
                    rec.append(getattr(part, attr))
                except MPE as ex:
                    rec.append('MPE:' + str(ex.description))
            if reader == 'data':
                rec.append(await part.get_data())
            elif reader == 'stream':
                rec.append(await part.stream.read())
            else:
                rec.append(None)
            out.append(tuple(rec))
    except MPE as ex:
        return out, 'MPE:' + str(ex.description)
    return out, None


def both_collect(section, label, body, ctype, rnd, form, opts_kw, reader='data'):
    results = []
    for side in ('sync', 'async'):
        sizes = gen_sizes(rnd, len(body))
        cs = pick_chunk_size(rnd, form) if form is not None else None
        opts = make_options(**opts_kw)
        try:
            if side == 'sync':
                res = sync_collect(body, ctype, sizes, cs, opts, reader)
            else:
                res = arun(async_collect(body, ctype, sizes, cs, opts, reader))
        except SystemExit:
            raise
        except BaseException as ex:
            fail(section, '%s %s: unexpected %s: %s (cs=%r sizes=%r)' % (label, side, type(ex).__name__, ex, cs, sizes[:8]))
            res = ('EXC', type(ex).__name__)
        results.append(res)
    return results


def section_limits(seed, cases):
    rnd = random.Random(seed)
    for i in range(cases):
        form = gen_form(rnd, nparts=rnd.choice([1, 2, 3, 5]))
        body = form.encode()
        ctype = form.content_type()
        n = len(form.parts)
        exp_all = [p.expected() for p in form.parts]

        # part count
        for limit in sorted({0, -1, 1, max(n - 1, 1), n, n + 1}):
            for res in both_collect('limit-count', 'count #%d limit=%d n=%d' % (i, limit, n), body, ctype, rnd, form, {'max_body_part_count': limit}):
                if limit <= 0 or n <= limit:
                    exp = (exp_all, None)
                else:
                    exp = (exp_all[:limit], 'MPE:maximum number of form body parts exceeded')
                if res != exp:
                    fail('limit-count', '#%d limit=%d n=%d: %r != %r' % (i, limit, n, res, exp))
                count('limit-count')

        # buffered part size
        j = rnd.randrange(n)
        size = len(form.parts[j].content)
        for limit in sorted({max(size - 1, 0), size, size + 1}):
            for res in both_collect('limit-size', 'size #%d' % i, body, ctype, rnd, form, {'max_body_part_buffer_size': limit}):
                first_bad = next((k for k, p in enumerate(form.parts) if len(p.content) > limit), None)
                if first_bad is None:
                    exp = (exp_all, None)
                else:
                    exp = (exp_all[:first_bad], 'MPE:body part is too large')
                if res != exp:
                    fail('limit-size', '#%d limit=%d: %r != %r' % (i, limit, res, exp))
                count('limit-size')
            # the limit does not apply to direct stream reads
            for res in both_collect('limit-size', 'size-stream #%d' % i, body, ctype, rnd, form, {'max_body_part_buffer_size': limit}, reader='stream'):
                if res != (exp_all, None):
                    fail('limit-size', '#%d stream limit=%d: %r' % (i, limit, res))
                count('limit-size')

        # headers block size
        j = rnd.randrange(n)
        hsize = len(form.parts[j].headers_block())
        for limit in sorted({max(hsize - 1, 1), hsize, hsize + 1}):
            for res in both_collect('limit-headers', 'headers #%d' % i, body, ctype, rnd, form, {'max_body_part_headers_size': limit}):
                first_bad = next((k for k, p in enumerate(form.parts) if len(p.headers_block()) > limit), None)
                if first_bad is None:
                    exp = (exp_all, None)
                else:
                    exp = (exp_all[:first_bad], 'MPE:incomplete body part headers')
                if res != exp:
                    fail('limit-headers', '#%d limit=%d hsizes=%r: %r != %r' % (i, limit, [len(p.headers_block()) for p in form.parts], res, exp))
                count('limit-headers')
        record(('limits', i, n))


# ---------------------------------------------------------------------------
# Section C: single-edit corruptions
# ---------------------------------------------------------------------------

EDIT_BYTES = [b'\r', b'\n', b'-', b':', b' ', b'"', b';', b'\xff', b'a', b'=', b"'", b'%', b'*']


def section_corrupt(seed, cases):
    rnd = random.Random(seed)
    for i in range(cases):
        form = gen_form(rnd, nparts=rnd.choice([1, 1, 2, 3]))
        body = form.encode()
        ctype = form.content_type()
        for _ in range(6):
            pos = rnd.randrange(len(body))
            kind = rnd.choice(['del', 'ins', 'rep', 'trunc', 'trunc', 'delrange'])
            if kind == 'del':
                bad = body[:pos] + body[pos + 1 :]
            elif kind == 'ins':
                bad = body[:pos] + rnd.choice(EDIT_BYTES) + body[pos:]
            elif kind == 'rep':
                bad = body[:pos] + rnd.choice(EDIT_BYTES) + body[pos + 1 :]
            elif kind == 'trunc':
                bad = body[:pos]
            else:
                bad = body[:pos] + body[pos + rnd.randint(1, 8) :]
            res = both_collect('corrupt', 'corrupt #%d %s@%d %r' % (i, kind, pos, bad[:200]), bad, ctype, rnd, form, {})
            if res[0] != res[1]:
                fail('corrupt', '#%d %s@%d sync/async disagree: %r vs %r (body %r)' % (i, kind, pos, res[0], res[1], bad))
            record(('corrupt', i, kind, pos, res[0]))
            count('corrupt', 2)


# ---------------------------------------------------------------------------
# Section D: boundary extraction / validation
# ---------------------------------------------------------------------------


def one_part_body(boundary):
    b = boundary.encode()
    return b'--' + b + b'\r\nContent-Disposition: form-data; name="x"\r\n\r\nv\r\n--' + b + b'--\r\n'


def section_boundary(seed):
    rnd = random.Random(seed)
    cases = []
    for n in list(range(0, 6)) + list(range(66, 76)) + [100, 1000]:
        base = ''.join(rnd.choice(BCHARS) for _ in range(n))
        if base.endswith(' '):
            base = base[:-1] + 'x'
        for ws in ('', ' ', '   ', '\t', ' \t '):
            for quoted in (False, True):
                for key in ('boundary', 'BOUNDARY', 'Boundary'):
                    cases.append((base, ws, quoted, key))
    for base, ws, quoted, key in cases:
        if quoted:
            ctype = 'multipart/form-data; %s="%s%s"' % (key, base, ws)
        else:
            ctype = 'multipart/form-data; %s=%s%s' % (key, base, ws)
        ok = 1 <= len(base) <= 70
        body = one_part_body(base)
        for side in ('sync', 'async'):
            handler = falcon.media.MultipartFormHandler()
            try:
                if side == 'sync':
                    f = handler.deserialize(io.BytesIO(body), ctype, len(body))
                    got = [(p.name, p.get_data()) for p in f]
                else:
                    async def go():
                        f = await handler.deserialize_async(achunks(body, [7]), ctype, len(body))
                        return [(p.name, await p.get_data()) async for p in f]
                    got = arun(go())
                outcome = ('ok', got)
            except errors.HTTPInvalidHeader as ex:
                outcome = ('invalid', ex.description, ex.status)
            except SystemExit:
                raise
            except BaseException as ex:
                outcome = ('EXC', type(ex).__name__, str(ex))
            if ok:
                exp = ('ok', [('x', b'v')])
            else:
                exp = ('invalid', 'The value provided for the "Content-Type" header is invalid. The boundary parameter must consist of 1 to 70 characters', '400 Bad Request')
            if outcome != exp:
                fail('boundary', '%s %r: %r != %r' % (side, ctype, outcome, exp))
            count('boundary')
    # missing boundary specifier
    for ctype in ('multipart/form-data', 'multipart/form-data; charset=utf-8', 'multipart/form-data; boundary', 'multipart/form-data; boundar=abc', 'multipart/form-data;', 'multipart/form-data; "boundary"=x'):
        for side in ('sync', 'async'):
            handler = falcon.media.MultipartFormHandler()
            try:
                if side == 'sync':
                    handler.deserialize(io.BytesIO(b''), ctype, 0)
                else:
                    arun(handler.deserialize_async(achunks(b'', [1]), ctype, 0))
                outcome = 'ok'
            except errors.HTTPInvalidHeader as ex:
                outcome = ex.description
            except SystemExit:
                raise
            except BaseException as ex:
                outcome = ('EXC', type(ex).__name__, str(ex))
            exp = 'The value provided for the "Content-Type" header is invalid. No boundary specifier found in %r' % ctype
            if outcome != exp:
                fail('boundary', 'missing %s %r: %r' % (side, ctype, outcome))
            count('boundary')
    # duplicate parameter: the last one wins (dict semantics)
    ctype = 'multipart/form-data; boundary=first; boundary=second'
    body = one_part_body('second')
    f = falcon.media.MultipartFormHandler().deserialize(io.BytesIO(body), ctype, len(body))
    if [(p.name, p.data) for p in f] != [('x', b'v')]:
        fail('boundary', 'duplicate parameter')
    count('boundary')


# ---------------------------------------------------------------------------
# Section E: part count corner cases (live option reads, odd values)
# ---------------------------------------------------------------------------


def section_count_corners(seed):
    rnd = random.Random(seed)
    for i in range(40):
        n = rnd.randint(2, 7)
        form = gen_form(rnd, nparts=n)
        body = form.encode()
        ctype = form.content_type()
        exp_all = [p.expected() for p in form.parts]
        start = rnd.randint(1, n)
        switch_at = rnd.randint(0, n - 1)
        switch_to = rnd.choice([0, -3, 1, n, n + 2, True, False])

        # Model: remaining starts at `start` (read once), decremented per part;
        # error iff remaining < 0 < current option value (read live).
        def model():
            remaining = start
            cur = start
            out = []
            for k in range(n):
                remaining -= 1
                if remaining < 0 < cur:
                    return out, 'MPE:maximum number of form body parts exceeded'
                out.append(exp_all[k])
                if k == switch_at:
                    cur = switch_to
            return out, None

        exp = model()

        def sync_run():
            opts = make_options(max_body_part_count=start)
            out = []
            try:
                f = sync_form(body, ctype, gen_sizes(rnd, len(body)), pick_chunk_size(rnd, form), opts)
                for k, part in enumerate(f):
                    out.append((part.name, part.filename, part.content_type, part.get_data()))
                    if k == switch_at:
                        opts.max_body_part_count = switch_to
            except MPE as ex:
                return out, 'MPE:' + ex.description
            return out, None

        async def async_run():
            opts = make_options(max_body_part_count=start)
            out = []
            try:
                f = await async_form(body, ctype, gen_sizes(rnd, len(body)), pick_chunk_size(rnd, form), opts)
                k = 0
                async for part in f:
                    out.append((part.name, part.filename, part.content_type, await part.get_data()))
                    if k == switch_at:
                        opts.max_body_part_count = switch_to
                    k += 1
            except MPE as ex:
                return out, 'MPE:' + ex.description
            return out, None

        for side, fn in (('sync', sync_run), ('async', lambda: arun(async_run()))):
            try:
                got = fn()
            except SystemExit:
                raise
            except BaseException as ex:
                got = ('EXC', type(ex).__name__, str(ex))
            if got != exp:
                fail('count-corners', '%s #%d start=%r switch=%r@%d n=%d: %r != %r' % (side, i, start, switch_to, switch_at, n, got, exp))
            count('count-corners')


# ---------------------------------------------------------------------------
# Section F: BodyPart accessors in isolation (both classes)
# ---------------------------------------------------------------------------


class _NoStream:
    def read(self, *a):
        raise AssertionError('accessors must not touch the stream')


def section_accessors(seed, cases):
    rnd = random.Random(seed)
    opts = mp.MultipartParseOptions()
    for i in range(cases):
        ref = gen_part(rnd, b'\r\n--zzzzzzzzzz', i)
        headers = {}
        block = ref.headers_block()
        for line in block.split(b'\r\n'):
            k, sep, v = line.partition(b': ')
            if sep and k.lower() in (b'content-type', b'content-disposition'):
                headers[k.lower()] = v
        mode = rnd.choice(['normal', 'normal', 'normal', 'missing', 'badutf8', 'badct', 'badcharset', 'empty'])
        exp_name, exp_filename = ref.name, ref.filename
        if mode == 'missing':
            headers.pop(b'content-disposition')
            exp_name = exp_filename = None
        elif mode == 'empty':
            headers[b'content-disposition'] = b''
            exp_name = exp_filename = None
        elif mode == 'badutf8':
            headers[b'content-disposition'] = b'form-data; name="\xff\xfe"'
            exp_name = exp_filename = ('MPE', 'invalid Content-Disposition header in a body part')
        elif mode == 'badcharset':
            headers[b'content-disposition'] = b"form-data; name=\"n\"; filename*=nope-8''abc"
            exp_name = 'n'
            exp_filename = ('MPE', 'invalid text or charset: nope-8')
        exp_ct = ref.expected_content_type
        if mode == 'badct':
            headers[b'content-type'] = b'text/\xe9'
            exp_ct = ('MPE', 'invalid Content-Type header in a body part')
        exp = {'name': exp_name, 'filename': exp_filename, 'content_type': exp_ct}
        if isinstance(exp_filename, tuple):
            exp['secure_filename'] = exp_filename
        elif not exp_filename:
            exp['secure_filename'] = ('MPE', 'filename may not be an empty string')
        else:
            try:
                exp['secure_filename'] = falcon.secure_filename(exp_filename)
            except ValueError as ex:
                exp['secure_filename'] = ('MPE', str(ex))
        for cls in (mp.BodyPart, amp.BodyPart):
            part = cls(_NoStream(), dict(headers), opts)
            seq = [rnd.choice(['name', 'filename', 'content_type', 'secure_filename']) for _ in range(rnd.randint(1, 8))]
            for attr in seq:
                try:
                    got = getattr(part, attr)
                except MPE as ex:
                    got = ('MPE', ex.description)
                except SystemExit:
                    raise
                except BaseException as ex:
                    got = ('EXC', type(ex).__name__, str(ex))
                if got != exp[attr]:
                    fail('accessors', '%s %s mode=%s seq=%r headers=%r: %r != %r' % (cls.__module__, attr, mode, seq, headers, got, exp[attr]))
                count('accessors')
            # the parsed Content-Disposition is cached and shared by name/filename
            if mode == 'normal':
                part = cls(_NoStream(), dict(headers), opts)
                first = rnd.choice(['name', 'filename'])
                getattr(part, first)
                part._headers[b'content-disposition'] = b'form-data; name="other"; filename="other"'
                other = 'filename' if first == 'name' else 'name'
                if getattr(part, other) != exp[other]:
                    fail('accessors', 'cache not shared between name and filename')
                if getattr(part, first) != exp[first]:
                    fail('accessors', 'cached value changed')
        record(('accessors', i, mode, repr(exp)))


# ---------------------------------------------------------------------------
# Section G: closing delimiter / dash handling
# ---------------------------------------------------------------------------

TAILS = [b'--', b'--\r\n', b'--garbage', b'---', b'--\r', b'----\r\n', b'-- ', b'--\n',
         b'', b'-', b'-\r\n', b'-x', b'- -', b' --', b'x--', b'\r', b'\n', b'\r\n', b'\r\n\r\n',
         b'\r\n\r\n\r\n', b'\r-', b'\r\n-', b'\r\n--', b'\t--', b'\x00-', b'-\x2d'[:1] + b'\r\n--']


def section_closing(seed, cases):
    rnd = random.Random(seed)
    for i in range(cases):
        if i < 6:
            boundary = ['-', '--', '---', '-' * 70, 'a', '-a-'][i]
            form = gen_form(rnd, nparts=rnd.choice([0, 1, 2]))
            form.boundary = boundary
            delim = form.delimiter
            form.preamble = b''
            for p in form.parts:
                if (p.content + delim).find(delim) != len(p.content):
                    p.content = b'-\r\n-'
                    p.content_type = 'application/octet-stream'
        else:
            form = gen_form(rnd, nparts=rnd.choice([0, 1, 2, 3]))
        n = len(form.parts)
        exp_all = [p.expected() for p in form.parts]
        ctype = form.content_type()
        for tail in TAILS:
            body = form.encode(tail=tail)
            res = both_collect('closing', 'closing #%d tail=%r' % (i, tail), body, ctype, rnd, form, {})
            for side, r in zip(('sync', 'async'), res):
                if tail.startswith(b'--'):
                    if r != (exp_all, None):
                        fail('closing', '%s #%d b=%r tail=%r: %r != %r' % (side, i, form.boundary, tail, r, (exp_all, None)))
                else:
                    parts, err = r if len(r) == 2 and isinstance(r[0], list) else ([], None)
                    if err is None or not err.startswith('MPE:'):
                        fail('closing', '%s #%d b=%r tail=%r: expected a parse error, got %r' % (side, i, form.boundary, tail, r))
                    elif parts[:n] != exp_all:
                        fail('closing', '%s #%d b=%r tail=%r: wrong parts %r' % (side, i, form.boundary, tail, r))
                count('closing')
            if res[0] != res[1]:
                fail('closing', '#%d tail=%r sync/async disagree %r %r' % (i, tail, res[0], res[1]))
            record(('closing', i, tail, res[0]))


# ---------------------------------------------------------------------------
# Section H: iteration histories (resume, re-iterate, subclass)
# ---------------------------------------------------------------------------


def section_histories(seed, cases):
    rnd = random.Random(seed)
    for i in range(cases):
        n = rnd.randint(1, 5)
        form = gen_form(rnd, nparts=n)
        form.preamble = b''
        body = form.encode()
        ctype = form.content_type()
        exp_all = [p.expected() for p in form.parts]
        k = rnd.randint(1, n)
        opts_limit = rnd.choice([64, n, k])

        def sync_run():
            opts = make_options(max_body_part_count=opts_limit)
            f = sync_form(body, ctype, gen_sizes(rnd, len(body)), pick_chunk_size(rnd, form), opts)
            first = []
            for part in f:
                first.append((part.name, part.filename, part.content_type, part.stream.read()))
                if len(first) == k:
                    break
            second = []
            err = None
            try:
                for part in f:
                    second.append((part.name, part.filename, part.content_type, part.get_data()))
            except MPE as ex:
                err = 'MPE:' + ex.description
            third = None
            try:
                third = len(list(f))
            except MPE as ex:
                third = 'MPE:' + ex.description
            return first, second, err, third

        async def async_run():
            opts = make_options(max_body_part_count=opts_limit)
            f = await async_form(body, ctype, gen_sizes(rnd, len(body)), pick_chunk_size(rnd, form), opts)
            first = []
            async for part in f:
                first.append((part.name, part.filename, part.content_type, await part.stream.read()))
                if len(first) == k:
                    break
            second = []
            err = None
            try:
                async for part in f:
                    second.append((part.name, part.filename, part.content_type, await part.get_data()))
            except MPE as ex:
                err = 'MPE:' + ex.description
            third = None
            try:
                third = len([p async for p in f])
            except MPE as ex:
                third = 'MPE:' + ex.description
            return first, second, err, third

        results = []
        for side, fn in (('sync', sync_run), ('async', lambda: arun(async_run()))):
            try:
                got = fn()
            except SystemExit:
                raise
            except BaseException as ex:
                got = ('EXC', type(ex).__name__, str(ex))
                fail('histories', '%s #%d: %r' % (side, i, got))
            results.append(got)
            if got[0] != exp_all[:k]:
                fail('histories', '%s #%d first: %r != %r' % (side, i, got[0], exp_all[:k]))
            count('histories')
        if results[0] != results[1]:
            fail('histories', '#%d sync/async disagree: %r vs %r' % (i, results[0], results[1]))
        record(('histories', i, k, n, opts_limit, results[0]))

    # Subclasses that do not chain up __init__ keep working.
    class SyncSub(mp.MultipartForm):
        def __init__(self, stream, boundary, opts):
            self._stream = stream
            self._boundary = boundary
            self._dash_boundary = b'--' + boundary
            self._parse_options = opts

    class AsyncSub(amp.MultipartForm):
        def __init__(self, stream, boundary, opts):
            self._stream = stream
            self._boundary = boundary
            self._dash_boundary = b'--' + boundary
            self._parse_options = opts

    for i in range(20):
        form = gen_form(rnd)
        body = form.encode()
        exp_all = [p.expected() for p in form.parts]
        f = SyncSub(SyncReader(io.BytesIO(body).read, len(body)), form.boundary.encode(), make_options())
        got = [(p.name, p.filename, p.content_type, p.data) for p in f]
        if got != exp_all:
            fail('histories', 'sync subclass: %r != %r' % (got, exp_all))

        async def go():
            f = AsyncSub(AsyncReader(achunks(body, [13])), form.boundary.encode(), make_options())
            return [(p.name, p.filename, p.content_type, await p.data) async for p in f]

        got = arun(go())
        if got != exp_all:
            fail('histories', 'async subclass: %r != %r' % (got, exp_all))
        count('histories', 2)


# ---------------------------------------------------------------------------
# Section I: end to end through WSGI and ASGI apps (400 mapping)
# ---------------------------------------------------------------------------


class SyncResource:
    def on_post(self, req, resp):
        out = []
        for part in req.get_media():
            out.append([part.name, part.filename, part.content_type, part.get_data().hex()])
        resp.media = out


class AsyncResource:
    async def on_post(self, req, resp):
        out = []
        form = await req.get_media()
        async for part in form:
            out.append([part.name, part.filename, part.content_type, (await part.get_data()).hex()])
        resp.media = out


def section_e2e(seed, cases):
    rnd = random.Random(seed)
    wsgi_app = falcon.App()
    wsgi_app.add_route('/', SyncResource())
    asgi_app = falcon.asgi.App()
    asgi_app.add_route('/', AsyncResource())
    clients = [('wsgi', testing.TestClient(wsgi_app)), ('asgi', testing.TestClient(asgi_app))]
    for i in range(cases):
        form = gen_form(rnd)
        body = form.encode()
        ctype = form.content_type(rnd)
        if not form.boundary.replace('-', '').replace('_', '').isalnum():
            # NOTE: The *handler lookup* (not the multipart parser) does not
            #   cope with tspecials such as a comma in an unquoted parameter.
            ctype = 'multipart/form-data; boundary="%s"' % form.boundary
        exp = [[p.name, p.filename, p.expected_content_type, p.content.hex()] for p in form.parts]
        variants = [('valid', body)]
        if body:
            pos = rnd.randrange(len(body))
            variants.append(('trunc', body[:pos]))
            variants.append(('rep', body[:pos] + rnd.choice(EDIT_BYTES) + body[pos + 1 :]))
        for vname, data in variants:
            outcomes = []
            for cname, client in clients:
                try:
                    result = client.simulate_post('/', body=data, headers={'Content-Type': ctype})
                except SystemExit:
                    raise
                except BaseException as ex:
                    fail('e2e', '%s %s #%d: unexpected %s: %s' % (cname, vname, i, type(ex).__name__, ex))
                    continue
                if result.status_code == 200:
                    outcomes.append((200, result.json))
                elif result.status_code == 400:
                    doc = result.json
                    if doc.get('title') != 'Malformed multipart/form-data request media':
                        fail('e2e', '%s %s #%d: unexpected 400 %r' % (cname, vname, i, doc))
                    outcomes.append((400, doc))
                else:
                    fail('e2e', '%s %s #%d: status %s %r' % (cname, vname, i, result.status, result.text[:200]))
                    outcomes.append((result.status_code, None))
                count('e2e')
            if vname == 'valid':
                for o in outcomes:
                    if o != (200, exp):
                        fail('e2e', 'valid #%d: %r != %r' % (i, o, exp))
            if len(outcomes) == 2 and outcomes[0] != outcomes[1]:
                fail('e2e', '%s #%d wsgi/asgi disagree: %r vs %r' % (vname, i, outcomes[0], outcomes[1]))
            record(('e2e', i, vname, outcomes[:1]))
    # invalid boundary parameter -> 400 invalid header on both
    for ctype, desc in (
        ('multipart/form-data', "No boundary specifier found in 'multipart/form-data'"),
        ('multipart/form-data; boundary=' + 'x' * 71, 'The boundary parameter must consist of 1 to 70 characters'),
        ('multipart/form-data; boundary=', 'The boundary parameter must consist of 1 to 70 characters'),
    ):
        for cname, client in clients:
            result = client.simulate_post('/', body=b'--x--', headers={'Content-Type': ctype})
            if result.status_code != 400 or result.json.get('title') != 'Invalid header value' or desc not in result.json.get('description', ''):
                fail('e2e', '%s %r: %s %r' % (cname, ctype, result.status, result.text[:300]))
            count('e2e')


EXPECTED_DIGEST = '382036890df54a4670a4848b9e651de93f93ddecfe012d52dfcf1420c5863966'  # taken from the UNMODIFIED tree


def main():
    section_valid(1301, 700)
    section_limits(1302, 100)
    section_corrupt(1303, 300)
    section_boundary(1304)
    section_count_corners(1305)
    section_accessors(1306, 400)
    section_closing(1307, 40)
    section_histories(1308, 120)
    section_e2e(1309, 60)
    report()
    digest = DIGEST.hexdigest()
    if EXPECTED_DIGEST is not None and digest != EXPECTED_DIGEST:
        print('FAILED: outcome digest %s differs from the unmodified tree (%s)' % (digest, EXPECTED_DIGEST))
        sys.exit(1)
    print('PASS')


if __name__ == '__main__':
    main()
