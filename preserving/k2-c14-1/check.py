"""Differential check of falcon's buffered readers against a flat byte cursor.

Run as:  PYTHONPATH=<falcon tree> /venv/bin/python check.py

For many generated (data, source chunking, chunk_size, max length, operation
history) cases -- including nested delimited sub-readers -- every operation on
falcon.util.reader.BufferedReader (sync, pure Python) and on
falcon.asgi.reader.BufferedReader (async) must return exactly what the same
operation returns on a trivial cursor over the whole byte string.
"""

import asyncio
import inspect
import io
import itertools
import random
import sys

import falcon
from falcon.asgi.reader import BufferedReader as AsyncReader
from falcon.errors import DelimiterError
from falcon.util.reader import BufferedReader as SyncReader

ALPHABET = b'ab\n-'
DELIMS = [b'a', b'\n', b'-', b'ab', b'--', b'a\n', b'-a', b'ab-', b'--a', b'a-b\n']
FAILURES = []
COUNT = {'cases': 0, 'ops': 0}


# ---------------------------------------------------------------------------
# The reference model: one cursor over one byte string.
# ---------------------------------------------------------------------------
class Cursor:
    def __init__(self, data):
        self.data = data
        self.pos = 0

    def rest(self):
        return self.data[self.pos :]

    def read(self, size):
        if size is None or size < 0:
            size = len(self.data)
        out = self.data[self.pos : self.pos + size]
        self.pos += len(out)
        return out

    def peek(self, size, chunk_size):
        if size < 0 or size > chunk_size:
            size = chunk_size
        return self.data[self.pos : self.pos + size]

    def read_until(self, delim, size, consume):
        """Returns (output, delimiter_error)."""
        avail = self.rest()
        n = len(avail) if (size is None or size < 0) else min(size, len(avail))
        idx = avail.find(delim)
        if idx >= 0:
            n = min(n, idx)
        out = avail[:n]
        self.pos += n
        if consume:
            if self.data[self.pos : self.pos + len(delim)] == delim:
                self.pos += len(delim)
            else:
                return out, True
        return out, False

    def readline(self, size):
        avail = self.rest()
        n = len(avail) if (size is None or size < 0) else min(size, len(avail))
        idx = avail.find(b'\n')
        if idx >= 0:
            n = min(n, idx + 1)
        self.pos += n
        return avail[:n]

    def sub(self, delim):
        avail = self.rest()
        idx = avail.find(delim)
        end = len(avail) if idx < 0 else idx
        return Cursor(avail[:end])


# ---------------------------------------------------------------------------
# Sources
# ---------------------------------------------------------------------------
def split(data, rng, mode):
    """Split data into chunks according to mode."""
    if mode == 'whole':
        return [data] if data else []
    if mode == 'bytes':
        return [data[i : i + 1] for i in range(len(data))]
    chunks = []
    i = 0
    while i < len(data):
        n = rng.choice([1, 1, 2, 3, 5, 8, 13])
        chunks.append(data[i : i + n])
        i += n
    if mode == 'empties':
        out = []
        for c in chunks:
            while rng.random() < 0.3:
                out.append(b'')
            out.append(c)
        while rng.random() < 0.5:
            out.append(b'')
        return out
    return chunks


class SyncSource:
    """read(size) over pre-split chunks; performs short reads at chunk borders.

    Never returns more than `size`, and returns b'' only at the EOF.
    """

    def __init__(self, chunks):
        self.chunks = [c for c in chunks if c]
        self.total = 0
        self.calls = 0

    def read(self, size):
        assert size > 0, 'the reader must not ask the source for <= 0 bytes'
        self.calls += 1
        if not self.chunks:
            return b''
        head = self.chunks[0]
        out = head[:size]
        if len(out) == len(head):
            self.chunks.pop(0)
        else:
            self.chunks[0] = head[size:]
        self.total += len(out)
        return out


async def async_source(chunks):
    for c in chunks:
        yield c


class Sink:
    def __init__(self):
        self.buf = io.BytesIO()

    def write(self, data):
        assert isinstance(data, bytes)
        self.buf.write(data)


class AsyncSink(Sink):
    async def write(self, data):
        assert isinstance(data, bytes)
        self.buf.write(data)


# ---------------------------------------------------------------------------
# Operation histories
# ---------------------------------------------------------------------------
def sizes(rng, chunk_size):
    return rng.choice(
        [None, -1, 0, 1, 2, 3, chunk_size - 1, chunk_size, chunk_size + 1,
         2 * chunk_size, 3 * chunk_size + 1, 10 ** 6]
    )


def pick_delim(rng, chunk_size):
    ok = [d for d in DELIMS if len(d) <= chunk_size]
    return rng.choice(ok)


def gen_history(rng, chunk_size, length, depth=0, is_async=False):
    ops = []
    for _ in range(length):
        kinds = ['read', 'read', 'peek', 'read_until', 'read_until', 'pipe_until',
                 'check']
        if not is_async:
            kinds += ['readline', 'readlines']
        else:
            kinds += ['tell']
        if depth < 2:
            kinds += ['delimit']
        if rng.random() < 0.08:
            kinds = ['pipe', 'exhaust', 'readall'] if is_async else ['pipe', 'exhaust']
        kind = rng.choice(kinds)
        if kind == 'read':
            ops.append(('read', sizes(rng, chunk_size)))
        elif kind == 'peek':
            s = sizes(rng, chunk_size)
            ops.append(('peek', -1 if s is None else s))
        elif kind == 'read_until':
            s = sizes(rng, chunk_size)
            ops.append(('read_until', pick_delim(rng, chunk_size),
                        -1 if s is None else s, rng.random() < 0.4))
        elif kind == 'pipe_until':
            ops.append(('pipe_until', pick_delim(rng, chunk_size),
                        rng.random() < 0.5, rng.random() < 0.4))
        elif kind == 'readline':
            s = sizes(rng, chunk_size)
            ops.append(('readline', -1 if s is None else s))
        elif kind == 'readlines':
            ops.append(('readlines', rng.choice([-1, 0, 1, 3, 7, 100])))
        elif kind == 'delimit':
            ops.append(('delimit', pick_delim(rng, chunk_size),
                        gen_history(rng, chunk_size, rng.randrange(0, 4), depth + 1,
                                    is_async)))
        else:
            ops.append((kind,))
    return ops


def fail(ctx, op, got, want):
    FAILURES.append('%s\n   op=%r\n   got =%r\n   want=%r' % (ctx, op, got, want))


# ---------------------------------------------------------------------------
# Drivers
# ---------------------------------------------------------------------------
def run_sync(reader, cur, ops, chunk_size, ctx):
    """Returns False if the history must stop (after a mismatch)."""
    for op in ops:
        COUNT['ops'] += 1
        kind = op[0]
        if kind == 'read':
            got, want = reader.read(op[1]), cur.read(op[1])
        elif kind == 'peek':
            got, want = reader.peek(op[1]), cur.peek(op[1], chunk_size)
        elif kind == 'read_until':
            want = cur.read_until(op[1], op[2], op[3])
            try:
                got = (reader.read_until(op[1], op[2], op[3]), False)
            except DelimiterError as ex:
                assert str(ex.args[0]) == 'expected delimiter missing', ex.args
                got = (want[0], True)  # the data read is lost to the caller
        elif kind == 'pipe_until':
            sink = Sink() if op[2] else None
            want = cur.read_until(op[1], -1, op[3])
            try:
                reader.pipe_until(op[1], sink, op[3])
                err = False
            except DelimiterError as ex:
                assert str(ex.args[0]) == 'expected delimiter missing', ex.args
                err = True
            got = (sink.buf.getvalue() if sink else want[0], err)
        elif kind == 'readline':
            got, want = reader.readline(op[1]), cur.readline(op[1])
        elif kind == 'readlines':
            hint = op[1]
            want = []
            total = 0
            while True:
                line = cur.readline(-1)
                if not line:
                    break
                want.append(line)
                if hint >= 0:
                    total += len(line)
                    if total >= hint:
                        break
            got = reader.readlines(hint)
        elif kind == 'pipe':
            sink = Sink()
            reader.pipe(sink)
            got, want = sink.buf.getvalue(), cur.read(-1)
        elif kind == 'exhaust':
            reader.exhaust()
            cur.read(-1)
            got, want = reader.read(), b''
        elif kind == 'check':
            got, want = reader.peek(), cur.peek(-1, chunk_size)
        elif kind == 'delimit':
            sub_cur = cur.sub(op[1])
            sub = reader.delimit(op[1])
            assert type(sub) is type(reader)
            assert sub._chunk_size == reader._chunk_size
            if not run_sync(sub, sub_cur, op[2], chunk_size, ctx + ' >sub'):
                return False
            # Exhaust the sub-reader; the parent continues at the delimiter.
            got, want = sub.read(), sub_cur.read(-1)
            if got != want:
                fail(ctx, ('sub-final-read', op[1]), got, want)
                return False
            if sub.read(1) != b'' or sub.peek() != b'':
                fail(ctx, ('sub-after-eof', op[1]), 'data', b'')
                return False
            cur.pos += len(sub_cur.data)
            got, want = reader.peek(), cur.peek(-1, chunk_size)
        else:
            raise AssertionError(kind)

        if got != want:
            fail(ctx, op, got, want)
            return False
    return True


async def run_async(reader, cur, ops, chunk_size, ctx):
    for op in ops:
        COUNT['ops'] += 1
        kind = op[0]
        if kind == 'read':
            got, want = await reader.read(op[1]), cur.read(op[1])
        elif kind == 'readall':
            got, want = await reader.readall(), cur.read(-1)
        elif kind == 'peek':
            got, want = await reader.peek(op[1]), cur.peek(op[1], chunk_size)
        elif kind == 'read_until':
            want = cur.read_until(op[1], op[2], op[3])
            try:
                got = (await reader.read_until(op[1], op[2], op[3]), False)
            except DelimiterError as ex:
                assert str(ex.args[0]) == 'expected delimiter missing', ex.args
                got = (want[0], True)
        elif kind == 'pipe_until':
            sink = AsyncSink() if op[2] else None
            want = cur.read_until(op[1], -1, op[3])
            try:
                await reader.pipe_until(op[1], sink, op[3])
                err = False
            except DelimiterError as ex:
                assert str(ex.args[0]) == 'expected delimiter missing', ex.args
                err = True
            got = (sink.buf.getvalue() if sink else want[0], err)
        elif kind == 'pipe':
            sink = AsyncSink()
            await reader.pipe(sink)
            got, want = (sink.buf.getvalue(), True), (cur.read(-1), reader.eof)
        elif kind == 'exhaust':
            await reader.exhaust()
            cur.read(-1)
            got, want = (await reader.read(), reader.eof), (b'', True)
        elif kind == 'check':
            got, want = await reader.peek(), cur.peek(-1, chunk_size)
        elif kind == 'tell':
            got, want = reader.tell(), cur.pos
        elif kind == 'delimit':
            sub_cur = cur.sub(op[1])
            sub = reader.delimit(op[1])
            assert type(sub) is type(reader)
            assert sub._chunk_size == reader._chunk_size
            if not await run_async(sub, sub_cur, op[2], chunk_size, ctx + ' >sub'):
                return False
            got, want = await sub.read(), sub_cur.read(-1)
            if got != want:
                fail(ctx, ('sub-final-read', op[1]), got, want)
                return False
            if await sub.read(1) != b'' or await sub.peek() != b'' or not sub.eof:
                fail(ctx, ('sub-after-eof', op[1]), 'data', b'')
                return False
            if sub.tell() != len(sub_cur.data):
                fail(ctx, ('sub-tell', op[1]), sub.tell(), len(sub_cur.data))
                return False
            cur.pos += len(sub_cur.data)
            got, want = await reader.peek(), cur.peek(-1, chunk_size)
        else:
            raise AssertionError(kind)

        if got != want:
            fail(ctx, op, got, want)
            return False

        # Position and end-of-stream indicators.
        if reader.tell() != cur.pos:
            fail(ctx, ('tell-after', op), reader.tell(), cur.pos)
            return False
        if reader.eof and cur.pos != len(cur.data):
            fail(ctx, ('eof-after', op), True, False)
            return False
    return True


def sync_case(data, chunks, chunk_size, max_len, ops, ctx):
    COUNT['cases'] += 1
    source = SyncSource(chunks)
    reader = SyncReader(source.read, max_len, chunk_size)
    cur = Cursor(data[:max_len])
    try:
        if run_sync(reader, cur, ops, chunk_size, ctx):
            got, want = reader.read(), cur.read(-1)
            if got != want:
                fail(ctx, 'final-read', got, want)
            elif reader.read(1) != b'' or reader.peek() != b'':
                fail(ctx, 'after-eof', 'data', b'')
        if source.total > max_len:
            fail(ctx, 'max-length', source.total, max_len)
    except Exception as ex:  # noqa
        fail(ctx, 'exception', repr(ex), None)


def async_case(data, chunks, chunk_size, ops, ctx):
    COUNT['cases'] += 1

    async def go():
        reader = AsyncReader(async_source(chunks), chunk_size)
        cur = Cursor(data)
        if await run_async(reader, cur, ops, chunk_size, ctx):
            # Finish by iterating over what is left.
            got = b''.join([c async for c in reader])
            want = cur.read(-1)
            if got != want:
                fail(ctx, 'final-iteration', got, want)
            elif not reader.eof or reader.tell() != len(data):
                fail(ctx, 'final-indicators', (reader.eof, reader.tell()),
                     (True, len(data)))

    try:
        asyncio.run(go())
    except Exception as ex:  # noqa
        fail(ctx, 'exception', repr(ex), None)


def gen_data(rng, n):
    weights = rng.choice([(1, 1, 1, 1), (6, 2, 1, 1), (3, 3, 1, 3), (1, 1, 0, 6)])
    return bytes(rng.choices(ALPHABET, weights=weights, k=n))


def random_cases(seed, n_cases):
    rng = random.Random(seed)
    for i in range(n_cases):
        chunk_size = rng.choice([1, 2, 2, 3, 3, 4, 5, 7, 8, 16])
        n = rng.choice([0, 1, 2, 3, 5, 8, 13, 21, 34, 55, 200])
        if chunk_size == 1 and rng.random() < 0.5:
            n = rng.choice([130, 200, 300])  # beyond _max_join_size (128 chunks)
        data = gen_data(rng, n)
        mode = rng.choice(['whole', 'bytes', 'random', 'random', 'empties'])
        chunks = split(data, rng, mode)
        length = rng.choice([1, 2, 3, 5, 8, 12])

        ops = gen_history(rng, chunk_size, length, is_async=False)
        max_len = rng.choice([len(data)] * 3 + [len(data) + 5, len(data) // 2,
                                                max(len(data) - 1, 0)])
        ctx = 'sync #%d data=%r chunks=%r cs=%d max=%d ops=%r' % (
            i, data, chunks, chunk_size, max_len, ops)
        sync_case(data, [c for c in chunks], chunk_size, max_len, ops, ctx)

        ops = gen_history(rng, chunk_size, length, is_async=True)
        ctx = 'async #%d data=%r chunks=%r cs=%d ops=%r' % (
            i, data, chunks, chunk_size, ops)
        async_case(data, chunks, chunk_size, ops, ctx)


def exhaustive_cases():
    """All data strings up to length 4 over {a, b, -}, short histories."""
    rng = random.Random(7)
    alphabet = b'ab-'
    short_ops = [
        [('read_until', b'ab', -1, False), ('read', 1)],
        [('read_until', b'ab', -1, True), ('read', -1)],
        [('read_until', b'-', 2, True), ('read_until', b'-', -1, False)],
        [('read_until', b'a-', 1, False), ('peek', 2), ('read', 2)],
        [('peek', 1), ('read_until', b'b', 3, False), ('read', None)],
        [('pipe_until', b'ab', True, True), ('read', 1)],
        [('pipe_until', b'-', True, False), ('peek', -1), ('read_until', b'-', 0, True)],
        [('delimit', b'-', [('read', 1)]), ('read', 1), ('read', -1)],
        [('delimit', b'ab', [('read_until', b'b', -1, False), ('read', 1)]),
         ('read_until', b'ab', -1, True)],
        [('delimit', b'-', [('delimit', b'b', [('read', 1)]), ('read', 2)]),
         ('read', 1)],
        [('read', 1), ('delimit', b'a', [('peek', 1), ('read', 0)]), ('read', 2)],
    ]
    for n in range(0, 5):
        for tup in itertools.product(alphabet, repeat=n):
            data = bytes(tup)
            for chunk_size in (2, 3):
                for mode in ('whole', 'bytes', 'empties'):
                    chunks = split(data, rng, mode)
                    for ops in short_ops:
                        ctx = 'sync-exh data=%r chunks=%r cs=%d ops=%r' % (
                            data, chunks, chunk_size, ops)
                        sync_case(data, list(chunks), chunk_size, len(data), ops, ctx)
                        ctx = 'async-exh data=%r chunks=%r cs=%d ops=%r' % (
                            data, chunks, chunk_size, ops)
                        async_case(data, chunks, chunk_size, ops, ctx)


def delimiter_length_cases():
    """The delimiter length must be within [1, chunk_size] for both readers."""
    for chunk_size in (1, 2, 3, 5):
        for dlen in range(0, 8):
            delim = (b'-a-a-a-a')[:dlen]
            bad = not (1 <= dlen <= chunk_size)
            data = b'bb' + delim + b'bbbbbbbbbb'
            COUNT['cases'] += 2

            reader = SyncReader(SyncSource([data]).read, len(data), chunk_size)
            for call in (
                lambda: reader.read_until(delim),
                lambda: reader.read_until(delim, 3, True),
                lambda: reader.pipe_until(delim),
                lambda: reader.delimit(delim).read(1),
            ):
                try:
                    call()
                    raised = False
                except ValueError as ex:
                    raised = True
                    msg = 'delimiter length must be within [1, chunk_size]'
                    if str(ex) != msg:
                        fail('sync delimiter length', (chunk_size, delim), str(ex), msg)
                except DelimiterError:
                    raised = False
                if raised != bad:
                    fail('sync delimiter length', (chunk_size, delim), raised, bad)
                if bad and reader.peek(2) != b'bb'[: min(2, chunk_size)]:
                    fail('sync delimiter length state', (chunk_size, delim),
                         reader.peek(2), b'bb')
                if not bad:
                    break

            async def go():
                reader = AsyncReader(async_source([data[:3], data[3:]]), chunk_size)
                for call in (
                    lambda: reader.read_until(delim),
                    lambda: reader.read_until(delim, 3, True),
                    lambda: reader.pipe_until(delim),
                    lambda: reader.delimit(delim).read(1),
                ):
                    try:
                        await call()
                        raised = False
                    except ValueError as ex:
                        raised = True
                        msg = 'delimiter length must be within [1, chunk_size]'
                        if str(ex) != msg:
                            fail('async delimiter length', (chunk_size, delim),
                                 str(ex), msg)
                    except DelimiterError:
                        raised = False
                    if raised != bad:
                        fail('async delimiter length', (chunk_size, delim), raised, bad)
                    if bad and reader.tell() != 0:
                        fail('async delimiter length state', (chunk_size, delim),
                             reader.tell(), 0)
                    if not bad:
                        break

            asyncio.run(go())


def specific_cases():
    """Change 1: the continuation loop of the sync _perform_read().

    Reference model of one _perform_read(size) call over a source that hands
    out data according to a schedule of short reads: ask for
    min(size, remaining); while bytes are still missing, ask for exactly the
    missing amount; an empty answer is the EOF and pins remaining to 0.
    The log of sizes requested from the source, the result and the remaining
    budget must match after every call.
    """
    rng = random.Random(1401)
    for i in range(600):
        COUNT['cases'] += 1
        n = rng.choice([0, 1, 2, 3, 5, 8, 13, 40])
        data = gen_data(rng, n)
        mode = rng.choice(['whole', 'bytes', 'random', 'random'])
        chunks = [c for c in split(data, rng, mode) if c]
        max_len = rng.choice([n, n, n + 3, n // 2, max(n - 1, 0), 0])
        chunk_size = rng.choice([1, 2, 3, 8])

        log = []
        source = SyncSource(list(chunks))

        def read(size, source=source, log=log):
            log.append(size)
            return source.read(size)

        reader = SyncReader(read, max_len, chunk_size)

        # the model
        m_chunks = list(chunks)
        m_remaining = max_len
        m_log = []

        def m_source(size):
            m_log.append(size)
            if not m_chunks:
                return b''
            head = m_chunks[0]
            out = head[:size]
            if len(out) == len(head):
                m_chunks.pop(0)
            else:
                m_chunks[0] = head[size:]
            return out

        ctx = 'perform_read #%d data=%r chunks=%r max=%d' % (i, data, chunks, max_len)
        for _ in range(rng.randrange(1, 8)):
            COUNT['ops'] += 1
            size = rng.choice([-3, 0, 1, 2, 3, 4, 7, 12, 50, 10 ** 6])
            got = reader._perform_read(size)

            want = b''
            missing = min(size, m_remaining)
            while missing > 0:
                piece = m_source(missing)
                if not piece:
                    m_remaining = 0
                    break
                m_remaining -= len(piece)
                missing -= len(piece)
                want += piece

            if (got, log, reader._max_bytes_remaining) != (want, m_log, m_remaining):
                fail(ctx, ('_perform_read', size),
                     (got, log, reader._max_bytes_remaining),
                     (want, m_log, m_remaining))
                break
            if type(got) is not bytes:
                fail(ctx, ('_perform_read type', size), type(got), bytes)
                break

    # A source answering with MORE than asked for (out of contract, but the
    # loop condition `size <= 0` covers it): expectations recorded from the
    # unmodified tree.
    COUNT['cases'] += 1
    answers = [b'ab', b'cdefg', b'h']
    reader = SyncReader(lambda size: answers.pop(0) if answers else b'', 100, 4)
    got = (reader._perform_read(4), reader._max_bytes_remaining, list(answers))
    want = (b'abcdefg', 93, [b'h'])
    if got != want:
        fail('perform_read over-delivering source', None, got, want)


def main():
    assert 'falcon' in sys.modules and falcon.__file__
    exhaustive_cases()
    random_cases(20261001, 700)
    delimiter_length_cases()
    specific_cases()
    print('falcon from %s' % falcon.__file__)
    print('%d cases, %d operations' % (COUNT['cases'], COUNT['ops']))
    if FAILURES:
        print('%d FAILURES' % len(FAILURES))
        for f in FAILURES[:10]:
            print(f)
        print('FAIL')
        sys.exit(1)
    print('PASS')


if __name__ == '__main__':
    main()
