"""Differential check of falcon's buffered readers against a flat byte cursor.

Run as:  PYTHONPATH=<falcon tree> /venv/bin/python check.py

For many generated (data, source chunking, chunk_size, max length, operation
history) cases -- including nested delimited sub-readers -- every operation on
falcon.util.reader.BufferedReader (sync, pure Python) and on
falcon.asgi.reader.BufferedReader (async) must return exactly what the same
operation returns on a trivial cursor over the whole byte string.
"""

import asyncio
import inspect
import io
import itertools
import random
import sys

import falcon
from falcon.asgi.reader import BufferedReader as AsyncReader
from falcon.errors import DelimiterError
from falcon.util.reader import BufferedReader as SyncReader

ALPHABET = b'ab\n-'
DELIMS = [b'a', b'\n', b'-', b'ab', b'--', b'a\n', b'-a', b'ab-', b'--a', b'a-b\n']
FAILURES = []
COUNT = {'cases': 0, 'ops': 0}


# ---------------------------------------------------------------------------
# The reference model: one cursor over one byte string.
# ---------------------------------------------------------------------------
class Cursor:
    def __init__(self, data):
        self.data = data
        self.pos = 0

    def rest(self):
        return self.data[self.pos :]

    def read(self, size):
        if size is None or size < 0:
            size = len(self.data)
        out = self.data[self.pos : self.pos + size]
        self.pos += len(out)
        return out

    def peek(self, size, chunk_size):
        if size < 0 or size > chunk_size:
            size = chunk_size
        return self.data[self.pos : self.pos + size]

    def read_until(self, delim, size, consume):
        """Returns (output, delimiter_error)."""
        avail = self.rest()
        n = len(avail) if (size is None or size < 0) else min(size, len(avail))
        idx = avail.find(delim)
        if idx >= 0:
            n = min(n, idx)
        out = avail[:n]
        self.pos += n
        if consume:
            if self.data[self.pos : self.pos + len(delim)] == delim:
                self.pos += len(delim)
            else:
                return out, True
        return out, False

    def readline(self, size):
        avail = self.rest()
        n = len(avail) if (size is None or size < 0) else min(size, len(avail))
        idx = avail.find(b'\n')
        if idx >= 0:
            n = min(n, idx + 1)
        self.pos += n
        return avail[:n]

    def sub(self, delim):
        avail = self.rest()
        idx = avail.find(delim)
        end = len(avail) if idx < 0 else idx
        return Cursor(avail[:end])


# ---------------------------------------------------------------------------
# Sources
# ---------------------------------------------------------------------------
def split(data, rng, mode):
    """Split data into chunks according to mode."""
    if mode == 'whole':
        return [data] if data else []
    if mode == 'bytes':
        return [data[i : i + 1] for i in range(len(data))]
    chunks = []
    i = 0
    while i < len(data):
        n = rng.choice([1, 1, 2, 3, 5, 8, 13])
        chunks.append(data[i : i + n])
        i += n
    if mode == 'empties':
        out = []
        for c in chunks:
            while rng.random() < 0.3:
                out.append(b'')
            out.append(c)
        while rng.random() < 0.5:
            out.append(b'')
        return out
    return chunks


class SyncSource:
    """read(size) over pre-split chunks; performs short reads at chunk borders.

    Never returns more than `size`, and returns b'' only at the EOF.
    """

    def __init__(self, chunks):
        self.chunks = [c for c in chunks if c]
        self.total = 0
        self.calls = 0

    def read(self, size):
        assert size > 0, 'the reader must not ask the source for <= 0 bytes'
        self.calls += 1
        if not self.chunks:
            return b''
        head = self.chunks[0]
        out = head[:size]
        if len(out) == len(head):
            self.chunks.pop(0)
        else:
            self.chunks[0] = head[size:]
        self.total += len(out)
        return out


async def async_source(chunks):
    for c in chunks:
        yield c


class Sink:
    def __init__(self):
        self.buf = io.BytesIO()

    def write(self, data):
        assert isinstance(data, bytes)
        self.buf.write(data)


class AsyncSink(Sink):
    async def write(self, data):
        assert isinstance(data, bytes)
        self.buf.write(data)


# ---------------------------------------------------------------------------
# Operation histories
# ---------------------------------------------------------------------------
def sizes(rng, chunk_size):
    return rng.choice(
        [None, -1, 0, 1, 2, 3, chunk_size - 1, chunk_size, chunk_size + 1,
         2 * chunk_size, 3 * chunk_size + 1, 10 ** 6]
    )


def pick_delim(rng, chunk_size):
    ok = [d for d in DELIMS if len(d) <= chunk_size]
    return rng.choice(ok)


def gen_history(rng, chunk_size, length, depth=0, is_async=False):
    ops = []
    for _ in range(length):
        kinds = ['read', 'read', 'peek', 'read_until', 'read_until', 'pipe_until',
                 'check']
        if not is_async:
            kinds += ['readline', 'readlines']
        else:
            kinds += ['tell']
        if depth < 2:
            kinds += ['delimit']
        if rng.random() < 0.08:
            kinds = ['pipe', 'exhaust', 'readall'] if is_async else ['pipe', 'exhaust']
        kind = rng.choice(kinds)
        if kind == 'read':
            ops.append(('read', sizes(rng, chunk_size)))
        elif kind == 'peek':
            s = sizes(rng, chunk_size)
            ops.append(('peek', -1 if s is None else s))
        elif kind == 'read_until':
            s = sizes(rng, chunk_size)
            ops.append(('read_until', pick_delim(rng, chunk_size),
                        -1 if s is None else s, rng.random() < 0.4))
        elif kind == 'pipe_until':
            ops.append(('pipe_until', pick_delim(rng, chunk_size),
                        rng.random() < 0.5, rng.random() < 0.4))
        elif kind == 'readline':
            s = sizes(rng, chunk_size)
            ops.append(('readline', -1 if s is None else s))
        elif kind == 'readlines':
            ops.append(('readlines', rng.choice([-1, 0, 1, 3, 7, 100])))
        elif kind == 'delimit':
            ops.append(('delimit', pick_delim(rng, chunk_size),
                        gen_history(rng, chunk_size, rng.randrange(0, 4), depth + 1,
                                    is_async)))
        else:
            ops.append((kind,))
    return ops


def fail(ctx, op, got, want):
    FAILURES.append('%s\n   op=%r\n   got =%r\n   want=%r' % (ctx, op, got, want))


# ---------------------------------------------------------------------------
# Drivers
# ---------------------------------------------------------------------------
def run_sync(reader, cur, ops, chunk_size, ctx):
    """Returns False if the history must stop (after a mismatch)."""
    for op in ops:
        COUNT['ops'] += 1
        kind = op[0]
        if kind == 'read':
            got, want = reader.read(op[1]), cur.read(op[1])
        elif kind == 'peek':
            got, want = reader.peek(op[1]), cur.peek(op[1], chunk_size)
        elif kind == 'read_until':
            want = cur.read_until(op[1], op[2], op[3])
            try:
                got = (reader.read_until(op[1], op[2], op[3]), False)
            except DelimiterError as ex:
                assert str(ex.args[0]) == 'expected delimiter missing', ex.args
                got = (want[0], True)  # the data read is lost to the caller
        elif kind == 'pipe_until':
            sink = Sink() if op[2] else None
            want = cur.read_until(op[1], -1, op[3])
            try:
                reader.pipe_until(op[1], sink, op[3])
                err = False
            except DelimiterError as ex:
                assert str(ex.args[0]) == 'expected delimiter missing', ex.args
                err = True
            got = (sink.buf.getvalue() if sink else want[0], err)
        elif kind == 'readline':
            got, want = reader.readline(op[1]), cur.readline(op[1])
        elif kind == 'readlines':
            hint = op[1]
            want = []
            total = 0
            while True:
                line = cur.readline(-1)
                if not line:
                    break
                want.append(line)
                if hint >= 0:
                    total += len(line)
                    if total >= hint:
                        break
            got = reader.readlines(hint)
        elif kind == 'pipe':
            sink = Sink()
            reader.pipe(sink)
            got, want = sink.buf.getvalue(), cur.read(-1)
        elif kind == 'exhaust':
            reader.exhaust()
            cur.read(-1)
            got, want = reader.read(), b''
        elif kind == 'check':
            got, want = reader.peek(), cur.peek(-1, chunk_size)
        elif kind == 'delimit':
            sub_cur = cur.sub(op[1])
            sub = reader.delimit(op[1])
            assert type(sub) is type(reader)
            assert sub._chunk_size == reader._chunk_size
            if not run_sync(sub, sub_cur, op[2], chunk_size, ctx + ' >sub'):
                return False
            # Exhaust the sub-reader; the parent continues at the delimiter.
            got, want = sub.read(), sub_cur.read(-1)
            if got != want:
                fail(ctx, ('sub-final-read', op[1]), got, want)
                return False
            if sub.read(1) != b'' or sub.peek() != b'':
                fail(ctx, ('sub-after-eof', op[1]), 'data', b'')
                return False
            cur.pos += len(sub_cur.data)
            got, want = reader.peek(), cur.peek(-1, chunk_size)
        else:
            raise AssertionError(kind)

        if got != want:
            fail(ctx, op, got, want)
            return False
    return True


async def run_async(reader, cur, ops, chunk_size, ctx):
    for op in ops:
        COUNT['ops'] += 1
        kind = op[0]
        if kind == 'read':
            got, want = await reader.read(op[1]), cur.read(op[1])
        elif kind == 'readall':
            got, want = await reader.readall(), cur.read(-1)
        elif kind == 'peek':
            got, want = await reader.peek(op[1]), cur.peek(op[1], chunk_size)
        elif kind == 'read_until':
            want = cur.read_until(op[1], op[2], op[3])
            try:
                got = (await reader.read_until(op[1], op[2], op[3]), False)
            except DelimiterError as ex:
                assert str(ex.args[0]) == 'expected delimiter missing', ex.args
                got = (want[0], True)
        elif kind == 'pipe_until':
            sink = AsyncSink() if op[2] else None
            want = cur.read_until(op[1], -1, op[3])
            try:
                await reader.pipe_until(op[1], sink, op[3])
                err = False
            except DelimiterError as ex:
                assert str(ex.args[0]) == 'expected delimiter missing', ex.args
                err = True
            got = (sink.buf.getvalue() if sink else want[0], err)
        elif kind == 'pipe':
            sink = AsyncSink()
            await reader.pipe(sink)
            got, want = (sink.buf.getvalue(), True), (cur.read(-1), reader.eof)
        elif kind == 'exhaust':
            await reader.exhaust()
            cur.read(-1)
            got, want = (await reader.read(), reader.eof), (b'', True)
        elif kind == 'check':
            got, want = await reader.peek(), cur.peek(-1, chunk_size)
        elif kind == 'tell':
            got, want = reader.tell(), cur.pos
        elif kind == 'delimit':
            sub_cur = cur.sub(op[1])
            sub = reader.delimit(op[1])
            assert type(sub) is type(reader)
            assert sub._chunk_size == reader._chunk_size
            if not await run_async(sub, sub_cur, op[2], chunk_size, ctx + ' >sub'):
                return False
            got, want = await sub.read(), sub_cur.read(-1)
            if got != want:
                fail(ctx, ('sub-final-read', op[1]), got, want)
                return False
            if await sub.read(1) != b'' or await sub.peek() != b'' or not sub.eof:
                fail(ctx, ('sub-after-eof', op[1]), 'data', b'')
                return False
            if sub.tell() != len(sub_cur.data):
                fail(ctx, ('sub-tell', op[1]), sub.tell(), len(sub_cur.data))
                return False
            cur.pos += len(sub_cur.data)
            got, want = await reader.peek(), cur.peek(-1, chunk_size)
        else:
            raise AssertionError(kind)

        if got != want:
            fail(ctx, op, got, want)
            return False

        # Position and end-of-stream indicators.
        if reader.tell() != cur.pos:
            fail(ctx, ('tell-after', op), reader.tell(), cur.pos)
            return False
        if reader.eof and cur.pos != len(cur.data):
            fail(ctx, ('eof-after', op), True, False)
            return False
    return True


def sync_case(data, chunks, chunk_size, max_len, ops, ctx):
    COUNT['cases'] += 1
    source = SyncSource(chunks)
    reader = SyncReader(source.read, max_len, chunk_size)
    cur = Cursor(data[:max_len])
    try:
        if run_sync(reader, cur, ops, chunk_size, ctx):
            got, want = reader.read(), cur.read(-1)
            if got != want:
                fail(ctx, 'final-read', got, want)
            elif reader.read(1) != b'' or reader.peek() != b'':
                fail(ctx, 'after-eof', 'data', b'')
        if source.total > max_len:
            fail(ctx, 'max-length', source.total, max_len)
    except Exception as ex:  # noqa
        fail(ctx, 'exception', repr(ex), None)


def async_case(data, chunks, chunk_size, ops, ctx):
    COUNT['cases'] += 1

    async def go():
        reader = AsyncReader(async_source(chunks), chunk_size)
        cur = Cursor(data)
        if await run_async(reader, cur, ops, chunk_size, ctx):
            # Finish by iterating over what is left.
            got = b''.join([c async for c in reader])
            want = cur.read(-1)
            if got != want:
                fail(ctx, 'final-iteration', got, want)
            elif not reader.eof or reader.tell() != len(data):
                fail(ctx, 'final-indicators', (reader.eof, reader.tell()),
                     (True, len(data)))

    try:
        asyncio.run(go())
    except Exception as ex:  # noqa
        fail(ctx, 'exception', repr(ex), None)


def gen_data(rng, n):
    weights = rng.choice([(1, 1, 1, 1), (6, 2, 1, 1), (3, 3, 1, 3), (1, 1, 0, 6)])
    return bytes(rng.choices(ALPHABET, weights=weights, k=n))


def random_cases(seed, n_cases):
    rng = random.Random(seed)
    for i in range(n_cases):
        chunk_size = rng.choice([1, 2, 2, 3, 3, 4, 5, 7, 8, 16])
        n = rng.choice([0, 1, 2, 3, 5, 8, 13, 21, 34, 55, 200])
        if chunk_size == 1 and rng.random() < 0.5:
            n = rng.choice([130, 200, 300])  # beyond _max_join_size (128 chunks)
        data = gen_data(rng, n)
        mode = rng.choice(['whole', 'bytes', 'random', 'random', 'empties'])
        chunks = split(data, rng, mode)
        length = rng.choice([1, 2, 3, 5, 8, 12])

        ops = gen_history(rng, chunk_size, length, is_async=False)
        max_len = rng.choice([len(data)] * 3 + [len(data) + 5, len(data) // 2,
                                                max(len(data) - 1, 0)])
        ctx = 'sync #%d data=%r chunks=%r cs=%d max=%d ops=%r' % (
            i, data, chunks, chunk_size, max_len, ops)
        sync_case(data, [c for c in chunks], chunk_size, max_len, ops, ctx)

        ops = gen_history(rng, chunk_size, length, is_async=True)
        ctx = 'async #%d data=%r chunks=%r cs=%d ops=%r' % (
            i, data, chunks, chunk_size, ops)
        async_case(data, chunks, chunk_size, ops, ctx)


def exhaustive_cases():
    """All data strings up to length 4 over {a, b, -}, short histories."""
    rng = random.Random(7)
    alphabet = b'ab-'
    short_ops = [
        [('read_until', b'ab', -1, False), ('read', 1)],
        [('read_until', b'ab', -1, True), ('read', -1)],
        [('read_until', b'-', 2, True), ('read_until', b'-', -1, False)],
        [('read_until', b'a-', 1, False), ('peek', 2), ('read', 2)],
        [('peek', 1), ('read_until', b'b', 3, False), ('read', None)],
        [('pipe_until', b'ab', True, True), ('read', 1)],
        [('pipe_until', b'-', True, False), ('peek', -1), ('read_until', b'-', 0, True)],
        [('delimit', b'-', [('read', 1)]), ('read', 1), ('read', -1)],
        [('delimit', b'ab', [('read_until', b'b', -1, False), ('read', 1)]),
         ('read_until', b'ab', -1, True)],
        [('delimit', b'-', [('delimit', b'b', [('read', 1)]), ('read', 2)]),
         ('read', 1)],
        [('read', 1), ('delimit', b'a', [('peek', 1), ('read', 0)]), ('read', 2)],
    ]
    for n in range(0, 5):
        for tup in itertools.product(alphabet, repeat=n):
            data = bytes(tup)
            for chunk_size in (2, 3):
                for mode in ('whole', 'bytes', 'empties'):
                    chunks = split(data, rng, mode)
                    for ops in short_ops:
                        ctx = 'sync-exh data=%r chunks=%r cs=%d ops=%r' % (
                            data, chunks, chunk_size, ops)
                        sync_case(data, list(chunks), chunk_size, len(data), ops, ctx)
                        ctx = 'async-exh data=%r chunks=%r cs=%d ops=%r' % (
                            data, chunks, chunk_size, ops)
                        async_case(data, chunks, chunk_size, ops, ctx)


def delimiter_length_cases():
    """The delimiter length must be within [1, chunk_size] for both readers."""
    for chunk_size in (1, 2, 3, 5):
        for dlen in range(0, 8):
            delim = (b'-a-a-a-a')[:dlen]
            bad = not (1 <= dlen <= chunk_size)
            data = b'bb' + delim + b'bbbbbbbbbb'
            COUNT['cases'] += 2

            reader = SyncReader(SyncSource([data]).read, len(data), chunk_size)
            for call in (
                lambda: reader.read_until(delim),
                lambda: reader.read_until(delim, 3, True),
                lambda: reader.pipe_until(delim),
                lambda: reader.delimit(delim).read(1),
            ):
                try:
                    call()
                    raised = False
                except ValueError as ex:
                    raised = True
                    msg = 'delimiter length must be within [1, chunk_size]'
                    if str(ex) != msg:
                        fail('sync delimiter length', (chunk_size, delim), str(ex), msg)
                except DelimiterError:
                    raised = False
                if raised != bad:
                    fail('sync delimiter length', (chunk_size, delim), raised, bad)
                if bad and reader.peek(2) != b'bb'[: min(2, chunk_size)]:
                    fail('sync delimiter length state', (chunk_size, delim),
                         reader.peek(2), b'bb')
                if not bad:
                    break

            async def go():
                reader = AsyncReader(async_source([data[:3], data[3:]]), chunk_size)
                for call in (
                    lambda: reader.read_until(delim),
                    lambda: reader.read_until(delim, 3, True),
                    lambda: reader.pipe_until(delim),
                    lambda: reader.delimit(delim).read(1),
                ):
                    try:
                        await call()
                        raised = False
                    except ValueError as ex:
                        raised = True
                        msg = 'delimiter length must be within [1, chunk_size]'
                        if str(ex) != msg:
                            fail('async delimiter length', (chunk_size, delim),
                                 str(ex), msg)
                    except DelimiterError:
                        raised = False
                    if raised != bad:
                        fail('async delimiter length', (chunk_size, delim), raised, bad)
                    if bad and reader.tell() != 0:
                        fail('async delimiter length state', (chunk_size, delim),
                             reader.tell(), 0)
                    if not bad:
                        break

            asyncio.run(go())


def specific_cases():
    """Change 4: delimit() on both readers.

    (a) Called the way today's callers call it (delimiter only, positionally or
        by keyword) the sub-reader has the parent's class and chunk size and is
        bounded by what the parent still had to give -- checked on top of the
        nested-reader histories above, which only ever use that form.
    (b) The multipart parsers (the only callers in falcon) still parse a form
        on the WSGI and on the ASGI side (hard-coded expectations).
    (c) If this tree's delimit() accepts a ``chunk_size`` keyword, sub-readers
        with a different chunk size are still flat-cursor equivalent.
    """
    rng = random.Random(1404)

    # (a)
    for i in range(300):
        chunk_size = rng.choice([1, 2, 3, 5, 8])
        data = gen_data(rng, rng.choice([0, 1, 4, 9, 20, 60]))
        chunks = split(data, rng, rng.choice(['whole', 'bytes', 'random', 'empties']))
        delim = pick_delim(rng, chunk_size)
        pre = rng.choice([0, 0, 1, 2, chunk_size, 7])
        COUNT['cases'] += 2

        max_len = rng.choice([len(data), len(data), len(data) + 2, len(data) // 2])
        reader = SyncReader(SyncSource(list(chunks)).read, max_len, chunk_size)
        consumed = len(reader.read(pre))
        # the declared upper bound of what the parent may still hand out
        bound = (reader._max_bytes_remaining + reader._buffer_len
                 - reader._buffer_pos)
        sub = rng.choice([lambda: reader.delimit(delim),
                          lambda: reader.delimit(delimiter=delim)])()
        visible = data[:max_len]
        if not len(visible) - consumed <= bound <= max_len - consumed:
            fail('sync delimit() bound #%d' % i, delim, bound,
                 (len(visible) - consumed, max_len - consumed))
        got = (type(sub), sub._chunk_size, sub._max_join_size,
               sub._max_bytes_remaining, sub._buffer, sub._buffer_pos,
               sub._read_func.func, sub._read_func.args, sub._read_func.keywords)
        want = (SyncReader, chunk_size, chunk_size * 128,
                bound, b'', 0,
                reader.read_until, (delim,), {})
        if got != want:
            fail('sync delimit() default #%d' % i, delim, got, want)
        want_body = Cursor(visible[pre:]).sub(delim).data
        got_body = sub.read()
        if got_body != want_body:
            fail('sync delimit() body #%d' % i, delim, got_body, want_body)

        async def go():
            reader = AsyncReader(async_source(chunks), chunk_size)
            await reader.read(pre)
            sub = rng.choice([lambda: reader.delimit(delim),
                              lambda: reader.delimit(delimiter=delim)])()
            got = (type(sub), sub._chunk_size, sub._max_join_size, sub._buffer,
                   sub._buffer_pos, sub._consumed, sub._exhausted)
            want = (AsyncReader, chunk_size, chunk_size * 1024, b'', 0, 0, False)
            if got != want:
                fail('async delimit() default #%d' % i, delim, got, want)
            want_body = Cursor(data[pre:]).sub(delim).data
            got_body = await sub.read()
            if got_body != want_body:
                fail('async delimit() body #%d' % i, delim, got_body, want_body)

        asyncio.run(go())

    # (b)
    import falcon.asgi
    import falcon.testing

    body = (
        b'--BOUNDARY\r\n'
        b'Content-Disposition: form-data; name="one"\r\n\r\n'
        b'first value\r\n'
        b'--BOUNDARY\r\n'
        b'Content-Disposition: form-data; name="two"; filename="t.bin"\r\n'
        b'Content-Type: application/octet-stream\r\n\r\n'
        + b'--BOUNDAR\r\n-' * 700 +
        b'\r\n'
        b'--BOUNDARY\r\n'
        b'Content-Disposition: form-data; name="three"\r\n\r\n'
        b'\r\n'
        b'--BOUNDARY--\r\n'
    )
    headers = {'Content-Type': 'multipart/form-data; boundary=BOUNDARY'}
    want = [['one', 'first value'], ['two', str(700 * 12)], ['three', '']]

    class Sync:
        def on_post(self, req, resp):
            out = []
            for part in req.get_media():
                data = part.stream.read()
                out.append([part.name, data.decode() if part.name != 'two'
                            else str(len(data))])
            resp.media = out

    class Async:
        async def on_post(self, req, resp):
            out = []
            async for part in await req.get_media():
                data = await part.stream.read()
                out.append([part.name, data.decode() if part.name != 'two'
                            else str(len(data))])
            resp.media = out

    for label, app, resource in (('wsgi', falcon.App(), Sync()),
                                 ('asgi', falcon.asgi.App(), Async())):
        COUNT['cases'] += 1
        app.add_route('/', resource)
        result = falcon.testing.simulate_post(app, '/', body=body, headers=headers)
        if result.status_code != 200 or result.json != want:
            fail('multipart ' + label, None, (result.status_code, result.text[:200]), want)

    # (c)
    has_kw = [
        'chunk_size' in inspect.signature(cls.delimit).parameters
        for cls in (SyncReader, AsyncReader)
    ]
    if has_kw[0] != has_kw[1]:
        fail('delimit signature', None, has_kw, 'twins agree')
    if not all(has_kw):
        return

    for cls in (SyncReader, AsyncReader):
        p = inspect.signature(cls.delimit).parameters['chunk_size']
        if p.default is not None or p.kind is not inspect.Parameter.KEYWORD_ONLY:
            fail('delimit chunk_size parameter', cls, (p.default, p.kind), None)

    for i in range(400):
        chunk_size = rng.choice([1, 2, 3, 5, 8])
        sub_cs = rng.choice([None, 0, 1, 2, 3, 4, 7, 16])
        eff_cs = sub_cs or chunk_size
        data = gen_data(rng, rng.choice([0, 1, 4, 9, 20, 60, 150]))
        chunks = split(data, rng, rng.choice(['whole', 'bytes', 'random', 'empties']))
        delim = pick_delim(rng, chunk_size)
        pre = rng.choice([0, 0, 1, 2, chunk_size, 7])
        COUNT['cases'] += 2

        sub_ops = gen_history(rng, eff_cs, rng.randrange(0, 6), depth=1, is_async=False)
        ctx = 'sync delimit(chunk_size=%r) #%d data=%r chunks=%r cs=%d delim=%r ops=%r' % (
            sub_cs, i, data, chunks, chunk_size, delim, sub_ops)
        try:
            reader = SyncReader(SyncSource(list(chunks)).read, len(data), chunk_size)
            cur = Cursor(data)
            assert reader.read(pre) == cur.read(pre)
            sub_cur = cur.sub(delim)
            sub = reader.delimit(delim, chunk_size=sub_cs)
            assert type(sub) is SyncReader and sub._chunk_size == eff_cs
            if run_sync(sub, sub_cur, sub_ops, eff_cs, ctx):
                got, want_ = sub.read(), sub_cur.read(-1)
                cur.pos += len(sub_cur.data)
                if got != want_:
                    fail(ctx, 'sub-final-read', got, want_)
                elif reader.read() != cur.read(-1):
                    fail(ctx, 'parent-rest', 'differs', None)
        except Exception as ex:  # noqa
            fail(ctx, 'exception', repr(ex), None)

        sub_ops = gen_history(rng, eff_cs, rng.randrange(0, 6), depth=1, is_async=True)
        ctx = 'async delimit(chunk_size=%r) #%d data=%r chunks=%r cs=%d delim=%r ops=%r' % (
            sub_cs, i, data, chunks, chunk_size, delim, sub_ops)

        async def go2():
            reader = AsyncReader(async_source(chunks), chunk_size)
            cur = Cursor(data)
            assert await reader.read(pre) == cur.read(pre)
            sub_cur = cur.sub(delim)
            sub = reader.delimit(delim, chunk_size=sub_cs)
            assert type(sub) is AsyncReader and sub._chunk_size == eff_cs
            if await run_async(sub, sub_cur, sub_ops, eff_cs, ctx):
                got, want_ = await sub.read(), sub_cur.read(-1)
                cur.pos += len(sub_cur.data)
                if got != want_:
                    fail(ctx, 'sub-final-read', got, want_)
                elif await reader.read() != cur.read(-1):
                    fail(ctx, 'parent-rest', 'differs', None)
                elif reader.tell() != len(data) or not sub.eof:
                    fail(ctx, 'indicators', (reader.tell(), sub.eof), (len(data), True))

        try:
            asyncio.run(go2())
        except Exception as ex:  # noqa
            fail(ctx, 'exception', repr(ex), None)


def main():
    assert 'falcon' in sys.modules and falcon.__file__
    exhaustive_cases()
    random_cases(20261001, 700)
    delimiter_length_cases()
    specific_cases()
    print('falcon from %s' % falcon.__file__)
    print('%d cases, %d operations' % (COUNT['cases'], COUNT['ops']))
    if FAILURES:
        print('%d FAILURES' % len(FAILURES))
        for f in FAILURES[:10]:
            print(f)
        print('FAIL')
        sys.exit(1)
    print('PASS')


if __name__ == '__main__':
    main()
