"""Model-based check of falcon property C15 (response headers / cookies).

Run as:  PYTHONPATH=<falcon tree> /venv/bin/python check.py

A simple reference model (a dict keyed by lower-cased name, a list of raw
cookie lines, an ordered dict of cookie attribute sets) is driven in lock
step with a falcon.Response and a falcon.asgi.Response through several
hundred random operation histories; every read-back and every final header
list (WSGI and ASGI) is compared with the model.  Prints PASS / exits 0.
"""

import datetime
import inspect
import random
import sys
import urllib.parse

import falcon
import falcon.asgi
from falcon import testing
from falcon.errors import HeaderNotSupported

FOCUS = 'change-1'

FAILURES = []
NCASES = [0]


def check(cond, msg):
    NCASES[0] += 1
    if not cond:
        FAILURES.append(msg)
        if len(FAILURES) > 20:
            finish()


def finish():
    if FAILURES:
        for f in FAILURES[:20]:
            print('FAIL:', f)
        print('FAILED (%d failures, %d checks)' % (len(FAILURES), NCASES[0]))
        sys.exit(1)
    print('PASS (%d checks, focus=%s)' % (NCASES[0], FOCUS))
    sys.exit(0)


# ---------------------------------------------------------------------------
# generators
# ---------------------------------------------------------------------------

BASE_NAMES = [
    'x-one', 'x-two', 'content-type', 'cache-control', 'vary', 'link',
    'location', 'content-location', 'etag', 'retry-after', 'accept-ranges',
    'content-disposition', 'content-length', 'x-three-four', 'set-cookie2',
    'cookie', 'set-cookie-x', 'xset-cookie',
]

PRINTABLE_ASCII = ''.join(chr(c) for c in range(0x20, 0x7F))
LATIN1_HIGH = ''.join(chr(c) for c in range(0xA0, 0x100))


def rand_case(rng, s):
    mode = rng.randrange(5)
    if mode == 0:
        return s.lower()
    if mode == 1:
        return s.upper()
    if mode == 2:
        return s.title()
    return ''.join(c.upper() if rng.random() < 0.5 else c.lower() for c in s)


def rand_value(rng, latin1=True):
    n = rng.choice([0, 1, 1, 2, 3, 5, 8, 13])
    alphabet = PRINTABLE_ASCII + (LATIN1_HIGH if latin1 and rng.random() < 0.3 else '')
    return ''.join(rng.choice(alphabet) for _ in range(n))


def rand_ascii_value(rng):
    return rand_value(rng, latin1=False)


UNICODE_POOL = (
    'abcXYZ019-._~ /?#[]@!$&\'()*+,;=:"<>\\^`{|}'
    'äéñßłЖ中文あ\U0001f600€ '
)


def rand_unicode(rng, allow_percent=False):
    n = rng.choice([1, 2, 3, 5, 8, 12])
    pool = UNICODE_POOL + ('%' if allow_percent else '')
    return ''.join(rng.choice(pool) for _ in range(n))


URI_SAFE = ":/?#[]@!$&'()*+,;="


def ref_uri_encode(s):
    # reference for falcon.uri.encode_check_escaped on strings without '%'
    assert '%' not in s
    return urllib.parse.quote(s, safe=URI_SAFE)


def ref_uri_encode_value(s):
    assert '%' not in s
    return urllib.parse.quote(s, safe='')


# ---------------------------------------------------------------------------
# the reference model
# ---------------------------------------------------------------------------


class Model:
    def __init__(self, secure_default):
        self.h = {}          # lower-cased name -> value, insertion ordered
        self.extra = []      # raw Set-Cookie values, in order of appending
        self.cookies = {}    # name -> (value, attrs dict) ; insertion ordered
        self.secure_default = secure_default

    # plain headers
    def get(self, name, default=None):
        name = name.lower()
        if name == 'set-cookie':
            raise HeaderNotSupported('model')
        return self.h.get(name, default)

    def set(self, name, value):
        name = name.lower()
        if name == 'set-cookie':
            raise HeaderNotSupported('model')
        self.h[name] = str(value)

    def delete(self, name):
        name = name.lower()
        if name == 'set-cookie':
            raise HeaderNotSupported('model')
        self.h.pop(name, None)

    def append(self, name, value):
        name = name.lower()
        value = str(value)
        if name == 'set-cookie':
            self.extra.append(value)
        elif name in self.h:
            self.h[name] = self.h[name] + ', ' + value
        else:
            self.h[name] = value

    def set_many(self, pairs):
        for name, value in pairs:
            name = name.lower()
            if name == 'set-cookie':
                raise HeaderNotSupported('model')
            self.h[name] = str(value)

    # cookies
    def set_cookie(self, name, value, kw):
        # NOTE: SimpleCookie re-uses the Morsel of an existing name, so the
        # attributes written earlier for that name stay unless overwritten.
        attrs = dict(self.cookies[name][1]) if name in self.cookies else {}
        expires = kw.get('expires')
        if expires:
            if expires.tzinfo is not None:
                expires = expires.astimezone(datetime.timezone.utc)
            attrs['expires'] = expires.strftime('%a, %d %b %Y %H:%M:%S GMT')
        if kw.get('max_age') is not None:
            attrs['max-age'] = str(int(kw['max_age']))
        if kw.get('domain'):
            attrs['domain'] = kw['domain']
        if kw.get('path'):
            attrs['path'] = kw['path']
        secure = kw.get('secure')
        if self.secure_default if secure is None else secure:
            attrs['secure'] = True
        if kw.get('http_only', True):
            attrs['httponly'] = True
        if kw.get('same_site'):
            attrs['samesite'] = kw['same_site'].lower().capitalize()
        if kw.get('partitioned'):
            attrs['partitioned'] = True
        self.cookies[name] = (value, attrs)

    def unset_cookie(self, name, kw):
        attrs = dict(self.cookies[name][1]) if name in self.cookies else {}
        attrs['expires'] = 'PAST'
        attrs['samesite'] = kw.get('samesite', 'Lax')
        if kw.get('domain'):
            attrs['domain'] = kw['domain']
        if kw.get('path'):
            attrs['path'] = kw['path']
        self.cookies[name] = ('', attrs)


ATTR_LABEL = {
    'expires': 'expires', 'max-age': 'Max-Age', 'domain': 'Domain',
    'path': 'Path', 'secure': 'Secure', 'httponly': 'HttpOnly',
    'samesite': 'SameSite', 'partitioned': 'Partitioned',
}


def parse_cookie_line(line):
    """Return (name, coded_value, attrs) of one Set-Cookie line."""
    parts = line.split('; ')
    name, _, coded = parts[0].partition('=')
    attrs = {}
    for p in parts[1:]:
        k, sep, v = p.partition('=')
        attrs[k] = v if sep else True
    return name, coded, attrs


def check_cookie_line(line, name, value, attrs, ctx):
    got_name, coded, got_attrs = parse_cookie_line(line)
    check(got_name == name, '%s cookie name %r != %r' % (ctx, got_name, name))
    want = {}
    for k, v in attrs.items():
        want[ATTR_LABEL[k]] = v
    check(set(got_attrs) == set(want),
          '%s cookie %r attrs %r != %r' % (ctx, name, sorted(got_attrs), sorted(want)))
    for k, v in want.items():
        if k not in got_attrs:
            continue
        if v == 'PAST':
            try:
                dt = datetime.datetime.strptime(got_attrs[k], '%a, %d %b %Y %H:%M:%S GMT')
            except (ValueError, TypeError):
                check(False, '%s unset cookie expires unparsable %r' % (ctx, got_attrs[k]))
                continue
            now = datetime.datetime.now(datetime.timezone.utc).replace(tzinfo=None)
            check(dt < now + datetime.timedelta(seconds=1),
                  '%s unset cookie not expired: %r' % (ctx, got_attrs[k]))
        else:
            check(got_attrs[k] == v,
                  '%s cookie %r attr %s %r != %r' % (ctx, name, k, got_attrs[k], v))
    # echo back through the request API
    req = testing.create_req(headers={'Cookie': '%s=%s' % (got_name, coded)})
    check(req.cookies.get(name) == value,
          '%s cookie round trip %r=%r read as %r' % (ctx, name, value, req.cookies))
    check(req.get_cookie_values(name) == [value],
          '%s get_cookie_values %r=%r read as %r'
          % (ctx, name, value, req.get_cookie_values(name)))
    if value == '' and attrs.get('expires') == 'PAST':
        check(coded == '""' or coded == '', '%s unset cookie keeps value %r' % (ctx, coded))


def check_final(model, wresp, aresp, media_type, ctx):
    # NOTE: like the framework, asking for the final list with a default
    # media type fills in Content-Type when it is absent.
    if media_type is not None and 'content-type' not in model.h:
        model.h['content-type'] = media_type

    witems = wresp._wsgi_headers(media_type)
    n_plain = len(model.h)
    n_extra = len(model.extra)
    n_cookie = len(model.cookies)
    check(isinstance(witems, list), ctx + ' wsgi list type')
    check(len(witems) == n_plain + n_extra + n_cookie,
          '%s wsgi length %d != %d' % (ctx, len(witems), n_plain + n_extra + n_cookie))
    check(witems[:n_plain] == list(model.h.items()),
          '%s wsgi plain %r != %r' % (ctx, witems[:n_plain], list(model.h.items())))
    check(witems[n_plain:n_plain + n_extra] == [('set-cookie', v) for v in model.extra],
          '%s wsgi extra %r != %r' % (ctx, witems[n_plain:n_plain + n_extra], model.extra))
    names = [n for n, _ in witems]
    for n in set(names):
        if n != 'set-cookie':
            check(names.count(n) == 1, '%s wsgi duplicate %r' % (ctx, n))
        check(n == n.lower(), '%s wsgi name not lower %r' % (ctx, n))
    for (n, v) in witems:
        check(type(n) is str and type(v) is str, '%s wsgi types %r %r' % (ctx, n, v))
    cookie_lines = witems[n_plain + n_extra:]
    for (n, line), (cname, (cvalue, cattrs)) in zip(cookie_lines, model.cookies.items()):
        check(n == 'set-cookie', ctx + ' cookie line name %r' % (n,))
        check_cookie_line(line, cname, cvalue, cattrs, ctx)

    # ASGI twin
    ascii_extra = all(v.isascii() for v in model.extra)
    if not ascii_extra:
        try:
            aresp._asgi_headers(media_type)
        except UnicodeEncodeError:
            check(True, '')
        else:
            check(False, ctx + ' asgi non-ascii raw cookie accepted')
        # headers (and content-type default) are nevertheless in place
        check(aresp._headers == model.h, ctx + ' asgi headers after failure')
        return
    aitems = aresp._asgi_headers(media_type)
    check(len(aitems) == len(witems), '%s asgi length %d != %d' % (ctx, len(aitems), len(witems)))
    for i, ((an, av), (wn, wv)) in enumerate(zip(aitems, witems)):
        check(type(an) is bytes and type(av) is bytes, '%s asgi types %r %r' % (ctx, an, av))
        check(an == an.lower(), '%s asgi name not lower %r' % (ctx, an))
        check(an == wn.encode('latin-1'), '%s asgi name %r != %r' % (ctx, an, wn))
        if i < n_plain + n_extra:
            check(av == wv.encode('latin-1'), '%s asgi value %r != %r' % (ctx, av, wv))
        else:
            # cookie lines: the expiry of an unset cookie is computed from the
            # clock at output time, so compare structurally
            cname, (cvalue, cattrs) = list(model.cookies.items())[i - n_plain - n_extra]
            check(an == b'set-cookie', ctx + ' asgi cookie line name')
            check_cookie_line(av.decode('ascii'), cname, cvalue, cattrs, ctx + ' asgi')


# ---------------------------------------------------------------------------
# link reference
# ---------------------------------------------------------------------------


def ref_link_value(target, rel, title, title_star, anchor, hreflang, type_hint,
                   crossorigin, link_extension):
    if '//' in rel:
        if ' ' in rel:
            rel = '"' + ' '.join(ref_uri_encode(r) for r in rel.split()) + '"'
        else:
            rel = '"' + ref_uri_encode(rel) + '"'
    out = ['<', ref_uri_encode(target), '>; rel=', rel]
    if title is not None:
        out.append('; title="%s"' % title)
    if title_star is not None:
        out.append("; title*=UTF-8'%s'%s" % (title_star[0], ref_uri_encode_value(title_star[1])))
    if type_hint is not None:
        out.append('; type="%s"' % type_hint)
    if hreflang is not None:
        if isinstance(hreflang, str):
            out.append('; hreflang=' + hreflang)
        else:
            for lang in hreflang:
                out.append('; hreflang=' + lang)
            if not list(hreflang):
                out.append('; ')
    if anchor is not None:
        out.append('; anchor="%s"' % ref_uri_encode(anchor))
    if crossorigin is not None:
        co = crossorigin.lower()
        if co not in ('anonymous', 'use-credentials'):
            raise ValueError('model')
        out.append('; crossorigin' if co == 'anonymous' else '; crossorigin="use-credentials"')
    if link_extension is not None:
        ext = list(link_extension)
        for p, v in ext:
            out.append('; %s=%s' % (p, v))
        if not ext:
            out.append('; ')
    return ''.join(out)


def rand_link_args(rng):
    target = rng.choice(['/things/1', 'http://ex.com/ä b', '/q?x=1&y=中',
                         rand_unicode(rng), ''])
    rel = rng.choice(['next', 'prev', 'http://example.com/ext-type',
                      'alternate http://example.com/ext é',
                      'https://e.com/a  b', 'a b', '//', '// '])
    kw = {}
    if rng.random() < 0.4:
        kw['title'] = rng.choice(['Title', '', 'a "quoted" one'])
    if rng.random() < 0.4:
        kw['title_star'] = (rng.choice(['', 'en', 'de-CH']), rand_unicode(rng))
    if rng.random() < 0.3:
        kw['anchor'] = rng.choice(['/a', 'x y', rand_unicode(rng), ''])
    if rng.random() < 0.4:
        kw['hreflang'] = rng.choice(['en', '', ['en', 'de'], ('fr',), [], ()])
    if rng.random() < 0.3:
        kw['type_hint'] = rng.choice(['text/html', ''])
    if rng.random() < 0.4:
        kw['crossorigin'] = rng.choice(['anonymous', 'Anonymous', 'USE-CREDENTIALS',
                                        'use-credentials', 'bogus', ''])
    if rng.random() < 0.3:
        kw['link_extension'] = rng.choice([[('a', 'b')], [('a', 'b'), ('c', '"d"')], [], ()])
    return target, rel, kw


# ---------------------------------------------------------------------------
# typed header properties
# ---------------------------------------------------------------------------

def disposition_expect(kind, value):
    if value.isascii():
        return '%s; filename="%s"' % (kind, value)
    from falcon.util.misc import secure_filename
    return "%s; filename=%s; filename*=UTF-8''%s" % (
        kind, secure_filename(value), urllib.parse.quote(value, safe=''))


PROPS = {
    # attr: (header, sample generator, expected transform)
    'cache_control': ('cache-control',
                      lambda r: r.choice([['no-cache'], ['a', 'b'], ('x',), [], 'ab']),
                      lambda v: ', '.join(v)),
    'vary': ('vary', lambda r: r.choice([['*'], ['accept', 'x-y'], ()]),
             lambda v: ', '.join(v)),
    'content_location': ('content-location', lambda r: rand_unicode(r), ref_uri_encode),
    'location': ('location', lambda r: rand_unicode(r), ref_uri_encode),
    'content_type': ('content-type', lambda r: r.choice(['text/plain', 'a/b; c=d', '']), str),
    'content_length': ('content-length', lambda r: r.choice([0, 1, 1234, '77']), str),
    'retry_after': ('retry-after', lambda r: r.choice([0, 30, '120', -1]), str),
    'accept_ranges': ('accept-ranges', lambda r: r.choice(['bytes', 'none']), str),
    'etag': ('etag', lambda r: r.choice(['abc', '"abc"', 'W/"x"', 'x"', '"']),
             lambda v: v if v[-1] == '"' else '"' + v + '"'),
    'downloadable_as': ('content-disposition', lambda r: rand_unicode(r),
                        lambda v: disposition_expect('attachment', v)),
    'viewable_as': ('content-disposition', lambda r: rand_unicode(r),
                    lambda v: disposition_expect('inline', v)),
    'content_range': ('content-range',
                      lambda r: r.choice([(0, 9, 100), (5, 5, 6, 'items'), (1, 2, '*')]),
                      lambda v: v if isinstance(v, str) else (
                          '%s %s-%s/%s' % (v[3], v[0], v[1], v[2]) if len(v) == 4
                          else 'bytes %s-%s/%s' % (v[0], v[1], v[2]))),
    'last_modified': ('last-modified',
                      lambda r: datetime.datetime(2020 + r.randrange(10), 1 + r.randrange(12),
                                                  1 + r.randrange(28), r.randrange(24), 5, 6),
                      lambda v: v.strftime('%a, %d %b %Y %H:%M:%S GMT')),
    'expires': ('expires',
                lambda r: datetime.datetime(2020 + r.randrange(10), 1 + r.randrange(12),
                                            1 + r.randrange(28), r.randrange(24), 5, 6),
                lambda v: v.strftime('%a, %d %b %Y %H:%M:%S GMT')),
}


# ---------------------------------------------------------------------------
# cookie argument generator
# ---------------------------------------------------------------------------

COOKIE_NAMES = ['a', 'b', 'sid', 'X-Tok', 'x_y', 'A', 'n1', 'tok~', "q!#$%&'*+-.^_`|"]
COOKIE_VALUE_ALPHABET = PRINTABLE_ASCII


class _TZ(datetime.tzinfo):
    def __init__(self, minutes):
        self._off = datetime.timedelta(minutes=minutes)

    def utcoffset(self, dt):
        return self._off

    def dst(self, dt):
        return datetime.timedelta(0)

    def tzname(self, dt):
        return 'X'


def rand_cookie_kwargs(rng):
    kw = {}
    if rng.random() < 0.5:
        dt = datetime.datetime(1971 + rng.randrange(120), 1 + rng.randrange(12),
                               1 + rng.randrange(28), rng.randrange(24),
                               rng.randrange(60), rng.randrange(60), rng.randrange(1000000))
        mode = rng.randrange(4)
        if mode == 1:
            dt = dt.replace(tzinfo=datetime.timezone.utc)
        elif mode == 2:
            dt = dt.replace(tzinfo=datetime.timezone(
                datetime.timedelta(minutes=rng.randrange(-14 * 60, 14 * 60))))
        elif mode == 3:
            dt = dt.replace(tzinfo=_TZ(rng.choice([-720, -90, 0, 1, 330, 765])))
        kw['expires'] = dt
    elif rng.random() < 0.1:
        kw['expires'] = None
    if rng.random() < 0.5:
        kw['max_age'] = rng.choice([0, 1, 3600, -5, 12.9, -0.5, '300', '0', True, 10 ** 12])
    if rng.random() < 0.4:
        kw['domain'] = rng.choice(['example.com', '.ex.org', '', None])
    if rng.random() < 0.4:
        kw['path'] = rng.choice(['/', '/a/b', '', None])
    if rng.random() < 0.6:
        kw['secure'] = rng.choice([True, False, None])
    if rng.random() < 0.5:
        kw['http_only'] = rng.choice([True, False])
    if rng.random() < 0.5:
        kw['same_site'] = rng.choice(['Lax', 'lax', 'STRICT', 'strict', 'None', 'nOnE', '', None])
    if rng.random() < 0.4:
        kw['partitioned'] = rng.choice([True, False])
    return kw


# ---------------------------------------------------------------------------
# driver
# ---------------------------------------------------------------------------


def both(wresp, aresp, fn):
    """Apply fn to both responses; return (outcome_w, outcome_a)."""
    outs = []
    for r in (wresp, aresp):
        try:
            outs.append(('ok', fn(r)))
        except Exception as e:  # noqa
            outs.append(('exc', type(e)))
    return outs


def model_do(fn):
    try:
        return ('ok', fn())
    except Exception as e:  # noqa
        return ('exc', type(e))


def run_history(seed, nops):
    rng = random.Random(seed)
    secure_default = rng.choice([True, True, False])
    opts = falcon.ResponseOptions()
    opts.secure_cookies_by_default = secure_default
    wresp = falcon.Response(options=opts)
    aresp = falcon.asgi.Response(options=opts)
    model = Model(secure_default)
    ctx0 = 'seed=%d' % seed

    def expect(outs, want, what):
        for side, got in zip(('wsgi', 'asgi'), outs):
            check(got == want, '%s %s [%s]: got %r want %r' % (ctx, what, side, got, want))

    for step in range(nops):
        ctx = '%s step=%d' % (ctx0, step)
        op = rng.choice(['set', 'set', 'append', 'append', 'delete', 'get', 'get',
                         'set_headers', 'prop_set', 'prop_get', 'prop_del', 'prop_none',
                         'link', 'cookie', 'cookie', 'unset', 'raw_cookie', 'guard',
                         'final'])
        base = rng.choice(BASE_NAMES)
        name = rand_case(rng, base)
        if op == 'set':
            v = rng.choice([rand_value(rng), rng.randrange(1000), None, 1.5])
            expect(both(wresp, aresp, lambda r: r.set_header(name, v)),
                   model_do(lambda: model.set(name, v)), 'set_header(%r,%r)' % (name, v))
        elif op == 'append':
            v = rng.choice([rand_value(rng), rng.randrange(1000)])
            expect(both(wresp, aresp, lambda r: r.append_header(name, v)),
                   model_do(lambda: model.append(name, v)), 'append_header(%r,%r)' % (name, v))
        elif op == 'delete':
            expect(both(wresp, aresp, lambda r: r.delete_header(name)),
                   model_do(lambda: model.delete(name)), 'delete_header(%r)' % (name,))
        elif op == 'get':
            if rng.random() < 0.5:
                d = rng.choice(['dflt', '', None])
                expect(both(wresp, aresp, lambda r: r.get_header(name, d)),
                       model_do(lambda: model.get(name, d)), 'get_header(%r,%r)' % (name, d))
            else:
                expect(both(wresp, aresp, lambda r: r.get_header(name)),
                       model_do(lambda: model.get(name)), 'get_header(%r)' % (name,))
        elif op == 'set_headers':
            n = rng.randrange(0, 5)
            pairs = [(rand_case(rng, rng.choice(BASE_NAMES)),
                      rng.choice([rand_value(rng), rng.randrange(100)])) for _ in range(n)]
            if rng.random() < 0.2:
                pairs.insert(rng.randrange(len(pairs) + 1),
                             (rand_case(rng, 'set-cookie'), 'c=1'))
            shape = rng.randrange(4)
            if shape == 0:
                arg = lambda: dict(pairs)  # noqa
                eff = list(dict(pairs).items())
            elif shape == 1:
                arg = lambda: list(pairs)  # noqa
                eff = pairs
            elif shape == 2:
                arg = lambda: iter([list(p) for p in pairs])  # noqa
                eff = pairs
            else:
                arg = lambda: tuple(pairs)  # noqa
                eff = pairs
            expect(both(wresp, aresp, lambda r: r.set_headers(arg())),
                   model_do(lambda: model.set_many(eff)), 'set_headers(%r)' % (pairs,))
        elif op in ('prop_set', 'prop_get', 'prop_del', 'prop_none'):
            attr = rng.choice(sorted(PROPS))
            hname, gen, transform = PROPS[attr]
            if op == 'prop_set':
                v = gen(rng)
                want = transform(v)
                expect(both(wresp, aresp, lambda r: setattr(r, attr, v)),
                       model_do(lambda: model.set(hname, want)), '%s=%r' % (attr, v))
                if attr in ('location', 'content_location', 'downloadable_as', 'viewable_as'):
                    got = wresp.get_header(hname)
                    check(got.isascii(), '%s %s not ascii: %r' % (ctx, attr, got))
                    if attr in ('location', 'content_location'):
                        check(falcon.uri.decode(got, unquote_plus=False) == v,
                              '%s %s decode %r != %r' % (ctx, attr, got, v))
                    elif not v.isascii():
                        enc = got.split("filename*=UTF-8''", 1)[1]
                        check(falcon.uri.decode(enc, unquote_plus=False) == v,
                              '%s %s decode %r != %r' % (ctx, attr, enc, v))
            elif op == 'prop_get':
                expect(both(wresp, aresp, lambda r: getattr(r, attr)),
                       model_do(lambda: model.get(hname)), 'read %s' % attr)
            elif op == 'prop_none':
                expect(both(wresp, aresp, lambda r: setattr(r, attr, None)),
                       model_do(lambda: model.delete(hname)), '%s=None' % attr)
            else:
                def mdel():
                    del model.h[hname]
                expect(both(wresp, aresp, lambda r: delattr(r, attr)),
                       model_do(mdel), 'del %s' % attr)
        elif op == 'link':
            target, rel, kw = rand_link_args(rng)

            def mlink():
                v = ref_link_value(target, rel, kw.get('title'), kw.get('title_star'),
                                   kw.get('anchor'), kw.get('hreflang'), kw.get('type_hint'),
                                   kw.get('crossorigin'), kw.get('link_extension'))
                model.append('link', v)
            expect(both(wresp, aresp, lambda r: r.append_link(target, rel, **kw)),
                   model_do(mlink), 'append_link(%r,%r,%r)' % (target, rel, kw))
            got = wresp.get_header('link')
            if got is not None and all(s.isascii() for s in
                                       (kw.get('title') or '', rel)):
                pass
        elif op == 'cookie':
            cname = rng.choice(COOKIE_NAMES)
            n = rng.choice([0, 1, 2, 4, 8])
            cvalue = ''.join(rng.choice(COOKIE_VALUE_ALPHABET) for _ in range(n))
            kw = rand_cookie_kwargs(rng)
            bad = rng.random()
            if bad < 0.04:
                cname = 'näme'
            elif bad < 0.07:
                cname = rng.choice(['a b', 'expires', 'Path', 'x;y', ''])
            elif bad < 0.10:
                cvalue = 'väl'
            elif bad < 0.15:
                kw['same_site'] = 'bogus'

            def mcookie():
                if not cname.isascii():
                    raise KeyError('model')
                if not cvalue.isascii():
                    raise ValueError('model')
                if cname in ('a b', 'expires', 'Path', 'x;y', ''):
                    raise KeyError('model')
                if kw.get('same_site') and kw['same_site'].lower() not in (
                        'lax', 'strict', 'none'):
                    # NOTE: the value and the attributes processed before
                    # same_site have already been stored at this point.
                    kw2 = dict(kw)
                    kw2.pop('same_site')
                    kw2.pop('partitioned', None)
                    model.set_cookie(cname, cvalue, kw2)
                    raise ValueError('model')
                model.set_cookie(cname, cvalue, kw)
            expect(both(wresp, aresp, lambda r: r.set_cookie(cname, cvalue, **kw)),
                   model_do(mcookie), 'set_cookie(%r,%r,%r)' % (cname, cvalue, kw))
        elif op == 'unset':
            cname = rng.choice(COOKIE_NAMES)
            kw = {}
            if rng.random() < 0.3:
                kw['samesite'] = rng.choice(['Strict', 'None', 'Lax'])
            if rng.random() < 0.3:
                kw['domain'] = rng.choice(['example.com', '', None])
            if rng.random() < 0.3:
                kw['path'] = rng.choice(['/', '', None, '/x'])
            expect(both(wresp, aresp, lambda r: r.unset_cookie(cname, **kw)),
                   model_do(lambda: model.unset_cookie(cname, kw)),
                   'unset_cookie(%r,%r)' % (cname, kw))
        elif op == 'raw_cookie':
            v = rng.choice(['raw=1; Path=/', 'a=b', rand_ascii_value(rng), rng.randrange(10),
                            rand_value(rng) if rng.random() < 0.1 else 'k=v'])
            nm = rand_case(rng, 'set-cookie')
            expect(both(wresp, aresp, lambda r: r.append_header(nm, v)),
                   model_do(lambda: model.append(nm, v)), 'append raw cookie %r' % (v,))
        elif op == 'guard':
            nm = rand_case(rng, 'set-cookie')
            which = rng.randrange(4)
            if which == 0:
                outs = both(wresp, aresp, lambda r: r.get_header(nm))
            elif which == 1:
                outs = both(wresp, aresp, lambda r: r.set_header(nm, 'x=y'))
            elif which == 2:
                outs = both(wresp, aresp, lambda r: r.delete_header(nm))
            else:
                outs = both(wresp, aresp, lambda r: r.get_header(nm, 'dflt'))
            expect(outs, ('exc', HeaderNotSupported), 'guard %d on %r' % (which, nm))
            check(issubclass(HeaderNotSupported, ValueError), 'HeaderNotSupported is ValueError')
        elif op == 'final':
            mt = rng.choice([None, None, 'application/json', 'text/x'])
            check_final(model, wresp, aresp, mt, ctx)

        # invariants after every step
        check(wresp._headers == model.h and list(wresp._headers) == list(model.h),
              '%s after %s: wsgi headers %r != %r' % (ctx, op, wresp._headers, model.h))
        check(aresp._headers == model.h and list(aresp._headers) == list(model.h),
              '%s after %s: asgi headers %r != %r' % (ctx, op, aresp._headers, model.h))
        check('set-cookie' not in wresp._headers and 'set-cookie' not in aresp._headers,
              ctx + ' set-cookie leaked in plain headers')
        check(wresp.headers == model.h, ctx + ' .headers copy')
        for r in (wresp, aresp):
            check([v for _, v in (r._extra_headers or [])] == model.extra,
                  '%s after %s: extra %r != %r' % (ctx, op, r._extra_headers, model.extra))
            check(all(n == 'set-cookie' for n, _ in (r._extra_headers or [])),
                  ctx + ' extra header names')
        # read back a few names in arbitrary case
        for _ in range(2):
            b = rng.choice(BASE_NAMES)
            nm = rand_case(rng, b)
            got = wresp.get_header(nm)
            check(got == model.h.get(b), '%s read back %r: %r != %r' % (ctx, nm, got, model.h.get(b)))
            got = aresp.get_header(nm, 'zz')
            check(got == model.h.get(b, 'zz'), '%s read back dflt %r' % (ctx, nm))

    check_final(model, wresp, aresp, rng.choice([None, 'application/json']), ctx0 + ' end')


def fixed_expectations():
    """Hard-coded outputs taken from the unmodified tree."""
    r = falcon.Response()
    r.set_cookie('a', 'b c;,"x', expires=datetime.datetime(2030, 1, 2, 3, 4, 5), max_age='12',
                 domain='d.com', path='/p', same_site='nOnE', partitioned=True)
    r.append_header('SET-cookie', 'raw=1')
    r.set_header('X-A', 'one')
    r.append_header('x-a', 'two')
    r.append_header('X-B', 3)
    got = r._wsgi_headers('text/x')
    want = [
        ('x-a', 'one, two'), ('x-b', '3'), ('content-type', 'text/x'),
        ('set-cookie', 'raw=1'),
        ('set-cookie', 'a="b c\\073\\054\\"x"; Domain=d.com; expires=Wed, 02 Jan 2030 03:04:05 GMT; '
                       'HttpOnly; Max-Age=12; Partitioned; Path=/p; SameSite=None; Secure'),
    ]
    check(got == want, 'fixed wsgi %r' % (got,))

    tz = datetime.timezone(datetime.timedelta(hours=5, minutes=30))
    for cls in (falcon.Response, falcon.asgi.Response):
        r = cls()
        r.set_cookie('t', 'v', expires=datetime.datetime(2031, 6, 1, 2, 0, 0, tzinfo=tz),
                     secure=False, http_only=False)
        r.set_cookie('u', 'w', expires=datetime.datetime(2031, 6, 1, 2, 0, 0), max_age=1.9)
        lines = [v for n, v in r._wsgi_headers() if n == 'set-cookie']
        check(lines == ['t=v; expires=Sat, 31 May 2031 20:30:00 GMT',
                        'u=w; expires=Sun, 01 Jun 2031 02:00:00 GMT; HttpOnly; Max-Age=1; Secure'],
              'fixed expires %r' % (lines,))

    a = falcon.asgi.Response()
    a.set_header('X-Lat', 'café')
    a.append_header('Set-Cookie', 'r=1')
    a.append_header('sET-cOOKIE', 'r=2')
    a.set_cookie('a', 'b', secure=False, http_only=False)
    a.unset_cookie('gone')
    got = a._asgi_headers('text/y')
    check(got[:5] == [(b'x-lat', b'caf\xe9'), (b'content-type', b'text/y'),
                      (b'set-cookie', b'r=1'), (b'set-cookie', b'r=2'),
                      (b'set-cookie', b'a=b')], 'fixed asgi %r' % (got,))
    check(got[5][0] == b'set-cookie' and got[5][1].startswith(b'gone=""; expires=')
          and got[5][1].endswith(b' GMT; SameSite=Lax'), 'fixed asgi unset %r' % (got[5],))

    r = falcon.Response()
    r.append_link('/things/ä', 'next', title='T', title_star=('en', 'ü x'),
                  anchor='/a b', hreflang=['en', 'de'], type_hint='text/html',
                  crossorigin='Use-Credentials', link_extension=[('k', 'v')])
    r.append_link('/2', 'alternate http://example.com/eé', hreflang='fr',
                  crossorigin='anonymous')
    want = ('</things/%C3%A4>; rel=next; title="T"; title*=UTF-8\'en\'%C3%BC%20x; '
            'type="text/html"; hreflang=en; hreflang=de; anchor="/a%20b"; '
            'crossorigin="use-credentials"; k=v, '
            '</2>; rel="alternate http://example.com/e%C3%A9"; hreflang=fr; crossorigin')
    check(r.get_header('LINK') == want, 'fixed link %r' % (r.get_header('link'),))

    r = falcon.Response()
    r.location = 'http://x/ä b?x=1&y=é'
    r.content_location = '/中'
    r.downloadable_as = 'fé "x".txt'
    check(r.get_header('Location') == 'http://x/%C3%A4%20b?x=1&y=%C3%A9', 'fixed location')
    check(r.get_header('content-LOCATION') == '/%E4%B8%AD', 'fixed content-location')
    check(r.get_header('Content-Disposition')
          == "attachment; filename=fe___x_.txt; filename*=UTF-8''f%C3%A9%20%22x%22.txt",
          'fixed disposition %r' % (r.get_header('Content-Disposition'),))
    r.viewable_as = 'abc.txt'
    check(r.get_header('Content-Disposition') == 'inline; filename="abc.txt"', 'fixed inline')

    # today's callers use these signatures positionally / by these names
    sig = inspect.signature(falcon.Response.append_header)
    check(list(sig.parameters)[:3] == ['self', 'name', 'value'], 'append_header signature')
    for extra in list(sig.parameters.values())[3:]:
        check(extra.default is not inspect.Parameter.empty, 'append_header new param has default')
    sig = inspect.signature(falcon.Response._wsgi_headers)
    check(list(sig.parameters)[:2] == ['self', 'media_type'], '_wsgi_headers signature')


def unicode_sweep():
    """Encoding claims over many unicode strings (not only via histories)."""
    rng = random.Random(20261001)
    for i in range(400):
        s = rand_unicode(rng, allow_percent=(i % 4 == 0))
        for cls in (falcon.Response, falcon.asgi.Response):
            r = cls()
            r.location = s
            r.content_location = s
            r.downloadable_as = s
            r.append_link(s, 'next', title_star=('', s), anchor=s)
            for n in ('location', 'content-location', 'content-disposition', 'link'):
                check(r.get_header(n).isascii(), 'sweep %r %s not ascii: %r' % (s, n, r.get_header(n)))
            if '%' not in s:
                check(r.location == ref_uri_encode(s), 'sweep location %r' % (s,))
                check(falcon.uri.decode(r.location, unquote_plus=False) == s,
                      'sweep location decode %r' % (s,))
                check(r.get_header('Link') == "<%s>; rel=next; title*=UTF-8''%s; anchor=\"%s\"" % (
                    ref_uri_encode(s), ref_uri_encode_value(s), ref_uri_encode(s)),
                    'sweep link %r -> %r' % (s, r.get_header('link')))
                check(r.downloadable_as == disposition_expect('attachment', s),
                      'sweep disposition %r' % (s,))
            if cls is falcon.asgi.Response:
                for n, v in r._asgi_headers():
                    check(n == n.lower() and v.decode('ascii').isascii(), 'sweep asgi bytes')


def main():
    fixed_expectations()
    unicode_sweep()
    for seed in range(400):
        run_history(seed, 40)
    for seed in range(1000, 1040):
        run_history(seed, 200)
    focus_checks()
    finish()


def focus_checks():
    """Change 1: append_header control flow; set_cookie expires branches."""
    rng = random.Random(1)
    for cls in (falcon.Response, falcon.asgi.Response):
        # raw cookie lines: first append creates the list, later ones extend
        # the very same list object; an empty list is replaced by a new one
        r = cls()
        check(r._extra_headers is None, 'fresh extra is None')
        check(r.append_header('Set-Cookie', 'a=1') is None, 'append returns None')
        lst = r._extra_headers
        check(lst == [('set-cookie', 'a=1')], 'first raw cookie %r' % (lst,))
        r.append_header('SET-COOKIE', 2)
        check(r._extra_headers is lst and lst == [('set-cookie', 'a=1'), ('set-cookie', '2')],
              'second raw cookie %r' % (lst,))
        check(r._headers == {}, 'raw cookie must not touch plain headers')
        empty = []
        r._extra_headers = empty
        r.append_header('set-cookie', 'z=1')
        check(r._extra_headers == [('set-cookie', 'z=1')] and empty == []
              and r._extra_headers is not empty, 'empty list replaced')
        # plain headers: set or comma-append, extra untouched
        r = cls()
        for i in range(50):
            nm = rand_case(rng, rng.choice(['x-a', 'x-b', 'set-cookie ', 'set_cookie']))
            before = dict(r._headers)
            v = rng.choice([rand_value(rng), i])
            check(r.append_header(nm, v) is None, 'append returns None')
            k = nm.lower()
            want = before[k] + ', ' + str(v) if k in before else str(v)
            check(r._headers[k] == want, 'append %r -> %r want %r' % (nm, r._headers[k], want))
            check(r._extra_headers is None, 'plain append touched extra')
        # errors come from the same statements: non-str name, str() failing
        class Bad:
            def __str__(self):
                raise RuntimeError('boom')
        for nm, v, exc in ((None, 'v', AttributeError), (5, 'v', AttributeError),
                           ('x', Bad(), RuntimeError), (None, Bad(), RuntimeError)):
            try:
                r.append_header(nm, v)
            except exc:
                check(True, '')
            except Exception as e:  # noqa
                check(False, 'append_header(%r) raised %r' % (nm, e))
            else:
                check(False, 'append_header(%r) did not raise' % (nm,))

        # expires formatting, naive and aware
        for i in range(300):
            kw = rand_cookie_kwargs(rng)
            dt = kw.get('expires') or datetime.datetime(2001, 2, 3, 4, 5, 6)
            r = cls()
            r.set_cookie('c', 'v', expires=dt, secure=False, http_only=False)
            if dt.tzinfo is None:
                want = dt.strftime('%a, %d %b %Y %H:%M:%S GMT')
            else:
                u = dt.utctimetuple()
                want = datetime.datetime(*u[:6]).strftime('%a, %d %b %Y %H:%M:%S GMT')
            line = r._wsgi_headers()[-1][1]
            check(line == 'c=v; expires=' + want, 'expires %r -> %r want %r' % (dt, line, want))
        r = cls()
        r.set_cookie('c', 'v', expires=None, secure=False, http_only=False)
        check(r._wsgi_headers() == [('set-cookie', 'c=v')], 'expires None')
        # the caller's datetime object is not modified (datetimes are immutable)
        dt = datetime.datetime(2030, 1, 1, tzinfo=datetime.timezone(datetime.timedelta(hours=3)))
        r.set_cookie('d', 'v', expires=dt)
        check(dt.utcoffset() == datetime.timedelta(hours=3), 'caller datetime intact')
        # non-datetime expires: same exception type as before
        for bad in ('tomorrow', 12345):
            try:
                cls().set_cookie('c', 'v', expires=bad)
            except AttributeError:
                check(True, '')
            else:
                check(False, 'expires=%r accepted' % (bad,))


if __name__ == '__main__':
    main()
