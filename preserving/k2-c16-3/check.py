#!/usr/bin/env python
"""Property C16 check: static routes never leave their directory and serve
exactly the requested bytes (containment, ranges, 304, LIFO, Range parsing).

Run as:  PYTHONPATH=<falcon tree> /venv/bin/python check.py

The program builds a real directory tree (no symlinks), records every file
that falcon opens through ``io.open`` and compares status / body / headers of
several thousand WSGI and ASGI requests against a small reference model that
was written from (and validated against) the UNMODIFIED tree.  It also drives
the central helpers (``_set_range``, ``_BoundedFile``, ``Request.range`` and
``Request.range_unit``) directly and exhaustively over small domains.

FOCUS (set at the bottom of the header) only scales up the section that is
closest to the change the check is shipped with; every section always runs.
"""

import io
import os
import random
import shutil
import sys
import tempfile

import falcon
import falcon.asgi
import falcon.routing.static as static_mod
import falcon.testing as ft

FOCUS = 'range_header'  # one of: set_range, paths, range_header, bounded_file

RNG = random.Random(0xC16)
FAILURES = []
COUNTS = {}


def fail(section, msg):
    if len(msg) > 700:
        msg = msg[:350] + ' ... ' + msg[-350:]
    FAILURES.append('[%s] %s' % (section, msg))
    if len(FAILURES) > 40:
        finish()


def count(section, n=1):
    COUNTS[section] = COUNTS.get(section, 0) + n


def finish():
    for f in FAILURES[:40]:
        print('FAIL', f)
    if FAILURES:
        print('FAILED (%d problems); cases: %r' % (len(FAILURES), COUNTS))
        sys.exit(1)
    print('falcon imported from %s' % os.path.dirname(falcon.__file__))
    print('cases per section: %r' % (COUNTS,))
    print('PASS')
    sys.exit(0)


# --------------------------------------------------------------------------
# The directory tree
# --------------------------------------------------------------------------
MTIME = 1700000000  # files get mtime MTIME + 0.5s (microseconds are stripped)

ROOT = os.path.realpath(tempfile.mkdtemp(prefix='c16chk_'))
assert '..' not in ROOT
PUB = os.path.join(ROOT, 'pub')
ALT = os.path.join(ROOT, 'alt')
PUB2 = os.path.join(ROOT, 'pub2')  # shares the string prefix of PUB
OUTSIDE = os.path.join(ROOT, 'outside')

LONG_A = 'L' * 250
LONG_B = 'M' * 250

FILES = {
    # relative to ROOT -> content
    'pub/a.txt': b'0123456789',
    'pub/empty.bin': b'',
    'pub/one': b'Z',
    'pub/b.css': b'body{}',
    'pub/index.html': b'<html>index</html>',
    'pub/.hidden': b'hidden-file',
    'pub/a..b': b'two dots inside a name',
    'pub/sp ace.txt': b'space',
    'pub/\u00fcn\u00ef.txt': b'unicode name',
    'pub/%41.txt': b'literal percent name',
    'pub/sub/c.js': b'console.log(1)',
    'pub/sub/index.html': b'sub index',
    'pub/sub/deep/d.json': b'{"d": 1}',
    'pub/sub/.dot/e': b'eee',
    'pub/' + LONG_A + '/' + LONG_B + '/0123456789': b'exactly 512 chars',
    'pub/' + LONG_A + '/' + LONG_B + '/0123456789x': b'513 chars: too long',
    'alt/c.js': b'ALT c.js',
    'alt/only_alt.txt': b'only in alt',
    'pub2/x.txt': b'sibling with common string prefix',
    'outside/secret.txt': b'TOP SECRET',
    'outside/fb.html': b'<html>outside fallback</html>',
    'secret_at_root.txt': b'ROOT SECRET',
}
for size in range(0, 8):
    FILES['pub/r%d' % size] = bytes(range(65, 65 + size))

for rel, content in FILES.items():
    full = os.path.join(ROOT, *rel.split('/'))
    os.makedirs(os.path.dirname(full), exist_ok=True)
    with open(full, 'wb') as f:
        f.write(content)
    os.utime(full, ns=(MTIME * 10**9 + 5 * 10**8, MTIME * 10**9 + 5 * 10**8))

assert len(LONG_A + '/' + LONG_B + '/0123456789') == 512

# --------------------------------------------------------------------------
# Recording every file falcon opens
# --------------------------------------------------------------------------
OPENED = []
_real_open = io.open


def _recording_open(path, *args, **kwargs):
    OPENED.append(os.fspath(path))
    return _real_open(path, *args, **kwargs)


io.open = _recording_open


def inside(path, directory):
    path = os.path.realpath(path)
    directory = os.path.realpath(directory)
    return path == directory or path.startswith(directory + os.sep)


# --------------------------------------------------------------------------
# Reference model
# --------------------------------------------------------------------------
DISALLOWED = set(chr(c) for c in range(0x00, 0x20))
DISALLOWED |= set(chr(c) for c in range(0x80, 0xA0))
DISALLOWED |= set('\ufffd~?<>:*|\'"')


class Route:
    def __init__(self, prefix, directory, downloadable, fallback):
        self.prefix = prefix if prefix.endswith('/') else prefix + '/'
        self.directory = directory
        self.downloadable = downloadable
        self.fallback = fallback  # absolute, normalised path or None

    def matches(self, path):
        if path.startswith(self.prefix):
            return True
        return self.fallback is not None and path == self.prefix[:-1]


def model_relative(rest, has_fallback):
    """Return the '/'-joined relative path to open, or None for a 404."""
    if rest == '':
        return '.' if has_fallback else None
    if rest[0].isspace() or rest[-1].isspace() or rest[-1] == '.':
        return None
    if any(ch in DISALLOWED for ch in rest):
        return None
    if '\\' in rest or '//' in rest or len(rest) > 512:
        return None
    if rest[0] == '/':
        return None
    stack = []
    for seg in rest.split('/'):
        if seg in ('', '.'):
            continue
        if seg == '..':
            if not stack:
                return None
            stack.pop()
        else:
            stack.append(seg)
    rel = '/'.join(stack) or '.'
    if '..' in rel:
        return None
    return rel


def http_date(ts):
    import email.utils

    return email.utils.formatdate(ts, usegmt=True)


def model_range(value):
    """Model of Request.range_unit / Request.range as used by the route.

    Returns ('ignore',), ('bad',) or ('range', first, last).
    """
    if value is None:
        return ('ignore',)
    if '=' not in value:
        return ('bad',)
    unit, rng = value.split('=', 1)
    if unit != 'bytes':
        return ('ignore',)
    if ',' in rng:
        return ('bad',)
    if '-' not in rng:
        return ('bad',)
    first, last = rng.split('-', 1)
    try:
        if first and last:
            f, l = int(first), int(last)
            if l < f:
                return ('bad',)
            return ('range', f, l)
        if first:
            return ('range', int(first), -1)
        if last:
            n = -int(last)
            if n >= 0:
                return ('bad',)
            return ('range', n, -1)
        return ('bad',)
    except ValueError:
        return ('bad',)


def model_slice(data, first, last):
    """Return (status, body, content_range) for a parsed byte range.

    Only the value shapes Request.range can produce are modelled here.
    """
    size = len(data)
    if size == 0:
        return 200, b'', None
    if first < 0:
        assert last == -1
        start = max(size + first, 0)
        return 206, data[start:], 'bytes %d-%d/%d' % (start, size - 1, size)
    if first >= size:
        return 416, None, 'bytes */%d' % size
    if last == -1 or last > size - 1:
        last = size - 1
    return 206, data[first : last + 1], 'bytes %d-%d/%d' % (first, last, size)


def model_response(routes, path, headers, media_types):
    """routes: in registration order.  Returns a dict of expectations."""
    route = None
    for r in reversed(routes):  # LIFO
        if r.matches(path):
            route = r
            break
    if route is None:
        return dict(status=404, body=None, opened=[], route=None)

    rest = path[len(route.prefix) :]
    rel = model_relative(rest, route.fallback is not None)
    if rel is None:
        return dict(status=404, body=None, opened=[], route=route)

    target = os.path.join(route.directory, *rel.split('/'))
    opened = [target]
    served = None
    try:
        if os.path.isfile(target):
            served = target
    except (OSError, ValueError):
        served = None
    if served is None:
        if route.fallback is None:
            return dict(status=404, body=None, opened=opened, route=route)
        served = route.fallback
        opened.append(served)

    with open(served, 'rb') as f:
        data = f.read()

    exp = dict(route=route, opened=opened, served=served)
    exp['last_modified'] = http_date(MTIME)
    ims = headers.get('If-Modified-Since')
    if ims is not None:
        if ims in IMS_VALUES_BAD:
            exp.update(status=400, body=None)
            return exp
        if IMS_VALUES_OK[ims] >= MTIME:
            exp.update(status=304, body=b'')
            return exp

    parsed = model_range(headers.get('Range'))
    content_range = None
    if parsed[0] == 'bad':
        exp.update(status=400, body=None)
        return exp
    if parsed[0] == 'ignore':
        status, body = 200, data
    else:
        status, body, content_range = model_slice(data, parsed[1], parsed[2])
    exp.update(status=status, body=body, content_range=content_range)
    if status in (200, 206):
        ext = os.path.splitext(served)[1]
        exp['content_type'] = media_types.get(ext, 'application/octet-stream')
        exp['disposition'] = os.path.basename(served) if route.downloadable else None
    return exp


IMS_VALUES_OK = {
    http_date(MTIME - 86400): MTIME - 86400,
    http_date(MTIME - 1): MTIME - 1,
    http_date(MTIME): MTIME,
    http_date(MTIME + 1): MTIME + 1,
    http_date(MTIME + 86400 * 400): MTIME + 86400 * 400,
}
IMS_VALUES_BAD = ['garbage', '2023-11-14T22:13:20Z', '0']


# --------------------------------------------------------------------------
# Apps
# --------------------------------------------------------------------------
class Config:
    def __init__(self, name, asgi, specs):
        self.name = name
        self.asgi = asgi
        self.app = (falcon.asgi.App if asgi else falcon.App)()
        self.routes = []
        for prefix, directory, downloadable, fallback in specs:
            self.app.add_static_route(
                prefix, directory, downloadable=downloadable, fallback_filename=fallback
            )
            fb = None
            if fallback is not None:
                fb = os.path.normpath(os.path.join(directory, fallback))
            self.routes.append(Route(prefix, directory, downloadable, fb))
        self.client = ft.TestClient(self.app)
        self.media_types = self.app.resp_options.static_media_types


CONFIGS = []
for asgi in (False, True):
    side = 'asgi' if asgi else 'wsgi'
    for fb_name, fb in (
        ('nofb', None),
        ('relfb', 'index.html'),
        ('absfb', os.path.join(OUTSIDE, 'fb.html')),
    ):
        for dl in (False, True):
            CONFIGS.append(
                Config(
                    '%s-%s-%s' % (side, fb_name, 'dl' if dl else 'nodl'),
                    asgi,
                    [('/static', PUB, dl, fb)],
                )
            )
    # LIFO: the later, more specific route wins; a later identical prefix overrides
    CONFIGS.append(
        Config(
            side + '-lifo',
            asgi,
            [
                ('/static', PUB2, False, None),
                ('/static', PUB, False, None),
                ('/static/sub', ALT, True, None),
                ('/other/', PUB, False, 'sub/index.html'),
            ],
        )
    )
WSGI_CONFIGS = [c for c in CONFIGS if not c.asgi]
ASGI_CONFIGS = [c for c in CONFIGS if c.asgi]

SAFE = set('abcdefghijklmnopqrstuvwxyzABCDEFGHIJKLMNOPQRSTUVWXYZ0123456789._-/')


def encode_path(path, mode, rng):
    out = []
    for ch in path:
        if mode == 0:
            enc = ch not in SAFE
        elif mode == 1:
            enc = ch != '/'
        elif mode == 2:
            enc = True
        else:
            enc = ch not in SAFE or rng.random() < 0.3
        if enc:
            fmt = '%%%02X' if rng.random() < 0.5 else '%%%02x'
            out.append(''.join(fmt % b for b in ch.encode('utf-8')))
        else:
            out.append(ch)
    return ''.join(out)


def check_request(section, cfg, path, headers=None, method='GET', raw=None):
    """path is the DECODED request path; raw (optional) the encoded spelling."""
    headers = headers or {}
    if raw is None:
        raw = encode_path(path, 0, RNG)
    del OPENED[:]
    try:
        result = cfg.client.simulate_request(method, raw, headers=headers)
    except Exception as ex:  # pragma: no cover
        fail(section, '%s %r %r raised %r' % (cfg.name, raw, headers, ex))
        return
    opened = list(OPENED)
    count(section)
    ident = '%s %s %r (decoded %r) %r' % (cfg.name, method, raw, path, headers)

    if method == 'OPTIONS':
        matched = any(r.matches(path) for r in cfg.routes)
        if matched:
            if result.status_code != 200 or result.headers.get('allow') != 'GET':
                fail(section, ident + ' OPTIONS -> %s' % result.status_code)
            if result.headers.get('content-length') != '0' or result.content:
                fail(section, ident + ' OPTIONS body')
        elif result.status_code != 404:
            fail(section, ident + ' unmatched OPTIONS -> %s' % result.status_code)
        if opened:
            fail(section, ident + ' OPTIONS opened %r' % opened)
        return

    exp = model_response(cfg.routes, path, headers, cfg.media_types)

    # (1) containment: the promise itself, independent of the model details
    route = exp['route']
    for p in opened:
        ok = route is not None and (
            inside(p, route.directory)
            or (route.fallback is not None and os.path.realpath(p) == os.path.realpath(route.fallback))
        )
        if not ok:
            fail(section, ident + ' OPENED OUTSIDE FILE %r' % p)
    for secret in (b'TOP SECRET', b'ROOT SECRET', b'sibling with common'):
        if secret in result.content:
            fail(section, ident + ' disclosed %r' % secret)

    # (2) exact agreement with the reference model
    if [os.path.normpath(p) for p in opened] != [os.path.normpath(p) for p in exp['opened']]:
        fail(section, ident + ' opened %r expected %r' % (opened, exp['opened']))
    if result.status_code != exp['status']:
        fail(section, ident + ' status %s expected %s' % (result.status_code, exp['status']))
        return
    status = exp['status']
    if status in (200, 206, 304):
        want = b'' if method == 'HEAD' else exp['body']
        if result.content != want:
            fail(section, ident + ' body %r expected %r' % (result.content[:40], want[:40]))
        if result.headers.get('last-modified') != exp['last_modified']:
            fail(section, ident + ' last-modified %r' % result.headers.get('last-modified'))
    if status in (200, 206):
        if result.headers.get('content-length') != str(len(exp['body'])):
            fail(section, ident + ' content-length %r' % result.headers.get('content-length'))
        if result.headers.get('content-range') != exp['content_range']:
            fail(section, ident + ' content-range %r expected %r'
                 % (result.headers.get('content-range'), exp['content_range']))
        if result.headers.get('accept-ranges') != 'bytes':
            fail(section, ident + ' accept-ranges')
        if result.headers.get('content-type') != exp['content_type']:
            fail(section, ident + ' content-type %r expected %r'
                 % (result.headers.get('content-type'), exp['content_type']))
        disp = result.headers.get('content-disposition')
        if exp['disposition'] is None:
            if disp is not None:
                fail(section, ident + ' unexpected content-disposition')
        elif exp['disposition'].isascii():
            if disp != 'attachment; filename="%s"' % exp['disposition']:
                fail(section, ident + ' content-disposition %r' % disp)
        elif not disp:
            fail(section, ident + ' missing content-disposition')
    if status == 206 and (status == 206) != (exp['content_range'] is not None):
        fail(section, ident + ' 206 without content-range')
    if status == 416:
        if result.headers.get('content-range') != exp['content_range']:
            fail(section, ident + ' 416 content-range %r' % result.headers.get('content-range'))
    if status == 304:
        if result.headers.get('content-range') is not None:
            fail(section, ident + ' 304 with content-range')


def both_sides(section, pick, path, headers=None, method='GET', raw=None):
    """Send the same request to a WSGI and an ASGI app of the same shape."""
    idx = pick if isinstance(pick, int) else RNG.randrange(len(WSGI_CONFIGS))
    check_request(section, WSGI_CONFIGS[idx], path, headers, method, raw)
    check_request(section, ASGI_CONFIGS[idx], path, headers, method, raw)


# --------------------------------------------------------------------------
# Section 1: request paths (sanitisation, containment, LIFO, fallback)
# --------------------------------------------------------------------------
SEGMENTS = [
    'a.txt', 'sub', 'deep', 'c.js', 'd.json', '..', '.', '', 'x', 'one', 'empty.bin',
    '.hidden', '.dot', 'e', '...', 'a..b', ' ', 'a.txt.', 'A.TXT', 'index.html',
    'outside', 'secret.txt', 'pub', 'pub2', 'x.txt', 'alt', 'only_alt.txt',
    'secret_at_root.txt', 'sp ace.txt', '\u00fcn\u00ef.txt', '%41.txt', 'r3',
    '..;', '.. ', ' ..', '..\\', '\\..', '%2e%2e', '..%2f', 'n' * 300, LONG_A, LONG_B,
    '0123456789', '0123456789x', os.path.basename(ROOT), 'tmp', 'etc', 'passwd',
]
SPECIALS = [
    '\x00', '\x01', '\x1f', '\x7f', '\x80', '\x85', '\x9f', '\xa0', '\ufffd', '~', '?',
    '<', '>', ':', '*', '|', "'", '"', '\\', ' ', '\t', '\n', '\r', '%', '#', '+', '&',
    ';', '=', '@', '\u00e9', '\u2028', '\u3000', '\U0001f600', '.', '/', '..', '//', '/./',
    '/../',
]
EXISTING = [rel[len('pub/') :] for rel in FILES if rel.startswith('pub/')]
HOSTILE = [
    '', '.', '..', '../', '../.', '.././outside/secret.txt', '../outside/secret.txt',
    'sub/../../outside/secret.txt', 'sub/../../secret_at_root.txt', './../outside/secret.txt',
    'sub/../.\\056/outside/secret.txt', '/etc/passwd', '//etc/passwd', '/' + OUTSIDE,
    OUTSIDE + '/secret.txt', OUTSIDE[1:] + '/secret.txt', '../pub2/x.txt', '../pub/a.txt',
    'sub/../a.txt', 'sub/./c.js', 'sub/deep/../c.js', 'sub/deep/../../a.txt',
    'sub/deep/../../../pub/a.txt', 'nonexistent/../a.txt', 'a.txt/', 'a.txt/.', 'a.txt/..',
    'a.txt/../a.txt', 'a.txt/x', 'sub', 'sub/', 'sub/deep', 'sub/.dot/e', '.hidden',
    '..a.txt', 'a.txt..', '.a.txt', 'a..b', 'sub/..hidden', '...', '..../a.txt', '. /a.txt',
    'a.txt ', ' a.txt', 'a.txt\t', '\ta.txt', 'a.txt\xa0', '\u2028a.txt', 'a.txt\u3000',
    'a.txt.', 'a.txt. ', 'sp ace.txt', 'sub/ /c.js', 'sub/c.js/', 'sub//c.js', 'sub///c.js',
    'x' * 511, 'x' * 512, 'x' * 513, 'sub/' + 'x' * 508, 'sub/' + 'x' * 509,
    LONG_A + '/' + LONG_B + '/0123456789', LONG_A + '/' + LONG_B + '/0123456789x',
    LONG_A + '/' + LONG_B + '/../' + LONG_B[:240] + '/..', '%41.txt', 'A.txt', 'A.TXT',
    'index.html', 'sub/index.html', 'con', 'COM1', 'nul.txt', 'a.txt::$DATA', 'a.txt:stream',
    '~/a.txt', '~root', 'a.txt~', 'C:/a.txt', 'C:\\a.txt', '\\\\host\\share', 'sub\\c.js',
    '..\\outside\\secret.txt', '\u00fcn\u00ef.txt', 'u\u0308n\u00ef.txt', '\uff0e\uff0e/outside/secret.txt',
    '\u2024\u2024/outside/secret.txt', '.%00./outside/secret.txt', 'a.txt\x00.png',
]


def gen_path_cases(n_grammar, n_mutation):
    cases = []
    for rest in HOSTILE:
        cases.append(rest)
    for _ in range(n_grammar):
        k = RNG.randint(1, 6)
        cases.append('/'.join(RNG.choice(SEGMENTS) for _ in range(k)))
    for _ in range(n_mutation):
        name = RNG.choice(EXISTING)
        kind = RNG.randrange(6)
        if kind == 0:
            pos = RNG.randint(0, len(name))
            name = name[:pos] + RNG.choice(SPECIALS) + name[pos:]
        elif kind == 1:
            name = name + RNG.choice(SPECIALS)
        elif kind == 2:
            name = RNG.choice(SPECIALS) + name
        elif kind == 3:
            name = name.swapcase()
        elif kind == 4:
            pos = RNG.randint(0, len(name))
            name = name[:pos] + RNG.choice(['../', './', '/', 'x/../', '../' * 3]) + name[pos:]
        else:
            name = RNG.choice(['sub/../', 'sub/deep/../../', './', 'zz/../', '../pub/']) + name
        cases.append(name)
    return cases


def section_paths(scale):
    section = 'paths'
    cases = gen_path_cases(250 * scale, 250 * scale)
    for i, rest in enumerate(cases):
        prefix = '/static/'
        path = prefix + rest
        mode = i % 4
        # NOTE: the test client insists on a literal leading '/', so the route
        #   prefix is spelled literally or with only its letters encoded.
        raw = '/' + encode_path(prefix[1:], 3 if mode == 3 else 0, RNG)
        raw += encode_path(rest, mode, RNG)
        both_sides(section, i % len(WSGI_CONFIGS), path, raw=raw)
    # paths around the prefix itself, other prefixes and methods
    around = [
        '/static', '/static/', '/staticx', '/static.', '/stati', '/', '/other', '/other/',
        '/other/a.txt', '/other/nope', '/other/sub/c.js', '/other/../static/a.txt',
        '/static/sub', '/static/sub/', '/static/sub/c.js', '/static/sub/only_alt.txt',
        '/static/sub/deep/d.json', '/static/sub/../a.txt', '/static/sub/../c.js',
        '/static/x.txt', '/static/only_alt.txt', '/STATIC/a.txt', '/static/sub/../../pub/a.txt',
        '/pub/a.txt', '//static/a.txt', '/static//a.txt', '/static/sub//c.js',
    ]
    for path in around:
        for idx in range(len(WSGI_CONFIGS)):
            both_sides(section, idx, path)
    for method in ('HEAD', 'OPTIONS', 'POST'):
        for path in ['/static/a.txt', '/static/nope', '/static/../x', '/static', '/nowhere']:
            for idx in range(len(WSGI_CONFIGS)):
                both_sides(section, idx, path, method=method)


# --------------------------------------------------------------------------
# Section 2: Range / If-Modified-Since end to end
# --------------------------------------------------------------------------
ODD_RANGES = [
    '', 'bytes', 'bytes=', 'bytes=-', 'bytes=--', 'bytes=a-', 'bytes=-a', 'bytes=a-b',
    'bytes=1-2,4-5', 'bytes=0-0,-1', 'bytes=2-1', 'bytes=-0', 'bytes=--1', 'bytes=--0',
    'bytes==1-2', '=0-1', '=', '==', 'bytes=1', 'bytes=1=2-3', 'bytes=1-2=3', 'bytes=1-2-3',
    'bytes=-1-2', 'bytes=+1-5', 'bytes=+1-+2', 'bytes=1_0-', 'bytes=0x1-', 'bytes=1.0-2',
    'bytes= 1-3', 'bytes=1 -3', 'bytes=1- 3', 'bytes=1e1-', 'bytes=00-01', 'bytes=-00',
    'bytes=-01', 'BYTES=0-1', 'Bytes=0-1', 'bytes =0-1', ' bytes=0-1'.strip(), 'items=0-1',
    'items=garbage', 'items=1-2,3-4', 'items=', 'seconds=-', 'byte=0-1', 'bytes;=0-1',
    'bytes=99999999999999999999-', 'bytes=0-99999999999999999999',
    'bytes=-99999999999999999999', 'bytes=5-5', 'bytes=0-', 'bytes=0-0', 'bytes=-1',
]


def gen_range_values():
    values = [None]
    for f in range(0, 10):
        values.append('bytes=%d-' % f)
        values.append('bytes=-%d' % f)
        for l in range(0, 10):
            values.append('bytes=%d-%d' % (f, l))
    values.extend(ODD_RANGES)
    return values


def section_ranges(scale):
    section = 'ranges'
    values = gen_range_values()
    names = ['r%d' % s for s in range(8)] + ['empty.bin', 'a.txt', 'nope', '../x']
    n = 0
    for name in names:
        for value in values:
            n += 1
            if scale == 1 and n % 3 and value not in ODD_RANGES and name not in ('r0', 'r1'):
                continue
            headers = {} if value is None else {'Range': value}
            both_sides(section, n % len(WSGI_CONFIGS), '/static/' + name, headers)
    ims_values = list(IMS_VALUES_OK) + IMS_VALUES_BAD
    for name in ['r0', 'r5', 'a.txt', 'nope', 'sub/../one']:
        for ims in ims_values:
            for value in [None, 'bytes=1-2', 'bytes=9-', 'bytes', 'bytes=2-1', 'items=x']:
                headers = {'If-Modified-Since': ims}
                if value is not None:
                    headers['Range'] = value
                n += 1
                both_sides(section, n % len(WSGI_CONFIGS), '/static/' + name, headers)


# --------------------------------------------------------------------------
# Section 3: _set_range driven directly and exhaustively
# --------------------------------------------------------------------------
class _Stat:
    def __init__(self, size):
        self.st_size = size


def reference_set_range(fh, size, req_range):
    """Literal transcription of the unmodified algorithm, returning plain data."""
    if req_range is None:
        return ('plain', size, None, None)
    start, end = req_range
    if size == 0:
        return ('plain', 0, None, None)
    if start < 0 and end == -1:
        start = max(start, -size)
        fh.seek(start, os.SEEK_END)
        return ('bounded', -start, (size + start, size - 1, size), -start)
    if start >= size:
        fh.close()
        return ('416', size, None, None)
    fh.seek(start)
    if end == -1:
        length = size - start
        return ('bounded', length, (start, size - 1, size), length)
    end = min(end, size - 1)
    length = end - start + 1
    return ('bounded', length, (start, end, size), length)


def _safe_read(read, *args):
    try:
        return read(*args)
    except Exception as ex:
        return ('exc', type(ex).__name__)


def run_set_range(make_fh, size, req_range):
    fh = make_fh(size)
    try:
        stream, length, content_range = static_mod._set_range(fh, _Stat(size), req_range)
    except falcon.HTTPRangeNotSatisfiable as ex:
        hdrs = dict(ex.headers or {})
        return ('416', hdrs.get('Content-Range'), fh.closed)
    except Exception as ex:
        closed = fh.closed
        fh.close()
        return ('exc', type(ex).__name__, closed)
    kind = 'plain' if stream is fh else type(stream).__name__
    pos = fh.tell()
    remaining = getattr(stream, 'remaining', None)
    data = _safe_read(stream.read)
    more = b''
    if kind != 'plain' and length >= 0 and not isinstance(data, tuple):
        more = _safe_read(stream.read, 10)  # must stay empty: the window is used up
    closed_before = fh.closed
    stream.close()
    return (kind, length, content_range, pos, remaining, data, more, closed_before, fh.closed)


def run_reference(make_fh, size, req_range):
    fh = make_fh(size)
    try:
        kind, length, content_range, remaining = reference_set_range(fh, size, req_range)
    except Exception as ex:
        closed = fh.closed
        fh.close()
        return ('exc', type(ex).__name__, closed)
    if kind == '416':
        return ('416', 'bytes */%d' % size, fh.closed)
    pos = fh.tell()
    if kind == 'plain':
        data = fh.read()
        more = b''
        name = 'plain'
    else:
        # NOTE: a negative length cannot be produced from a parsed Range header
        #   (last >= first is enforced there); the wrapper then reads to EOF.
        data = _safe_read(fh.read, remaining)
        more = b''
        name = '_BoundedFile'
    closed_before = fh.closed
    fh.close()
    return (name, length, content_range, pos, remaining, data, more, closed_before, True)


def section_set_range(scale):
    section = 'set_range'
    payload = bytes(range(97, 97 + 26))
    real_path = os.path.join(ROOT, 'set_range_payload')

    def make_bytesio(size):
        return io.BytesIO(payload[:size])

    written = set()

    def make_real(size):
        path = '%s_%d' % (real_path, size)
        if size not in written:
            with open(path, 'wb') as f:
                f.write(payload[:size])
            written.add(size)
        return open(path, 'rb')

    makers = [('BytesIO', make_bytesio), ('file', make_real)]
    top = 9 if scale == 1 else 13
    for mname, maker in makers:
        for size in range(0, top):
            reqs = [None]
            for start in range(-top - 2, top + 3):
                for end in range(-3, top + 3):
                    reqs.append((start, end))
            reqs.extend([(10**20, -1), (-(10**20), -1), (0, 10**20), (3, 10**20), (10**20, 10**21)])
            for req in reqs:
                got = run_set_range(maker, size, req)
                want = run_reference(maker, size, req)
                count(section)
                if got != want:
                    fail(section, '%s size=%d req=%r got %r want %r' % (mname, size, req, got, want))


# --------------------------------------------------------------------------
# Section 4: _BoundedFile driven directly
# --------------------------------------------------------------------------
def section_bounded_file(scale):
    section = 'bounded_file'
    for case in range(400 * scale):
        total = RNG.randint(0, 40)
        data = bytes(RNG.randrange(256) for _ in range(total))
        offset = RNG.randint(0, total)
        length = RNG.randint(0, total - offset + (3 if case % 7 == 0 else 0))
        inner = io.BytesIO(data)
        inner.seek(offset)
        bf = static_mod._BoundedFile(inner, length)
        window = data[offset : offset + length]
        got = b''
        left = length
        for _ in range(RNG.randint(1, 12)):
            size = RNG.choice([None, -1, -5, 0, 1, 2, 3, 7, 100, left, left + 1])
            if RNG.random() < 0.2:
                chunk = bf.read()
            else:
                chunk = bf.read(size)
            if size is None or size < 0:
                pass
            got += chunk
            left -= len(chunk)
            if bf.remaining != left:
                fail(section, 'case %d remaining %r expected %r' % (case, bf.remaining, left))
            if not window.startswith(got):
                fail(section, 'case %d read outside the window: %r' % (case, got))
        got += bf.read()
        got += bf.read(None)
        got += bf.read(5)
        count(section)
        if got != window:
            fail(section, 'case %d got %r expected %r' % (case, got, window))
        if bf.read() != b'' or bf.read(1) != b'':
            fail(section, 'case %d reads after exhaustion' % case)
        if inner.closed:
            fail(section, 'case %d closed early' % case)
        bf.close()
        if not inner.closed:
            fail(section, 'case %d close() not delegated' % case)
    # exact chunk sizes for a deterministic script
    inner = io.BytesIO(b'abcdefghij')
    inner.seek(2)
    bf = static_mod._BoundedFile(inner, 5)
    script = [(2, b'cd'), (0, b''), (None, b'efg'), (4, b''), (-1, b'')]
    for size, want in script:
        got = bf.read(size)
        count(section)
        if got != want:
            fail(section, 'script read(%r) -> %r expected %r' % (size, got, want))
    if bf.fh is not inner:
        fail(section, 'fh attribute')


# --------------------------------------------------------------------------
# Section 5: Request.range / Request.range_unit driven directly
# --------------------------------------------------------------------------
MSG_UNIT = "The value must be prefixed with a range unit, e.g. 'bytes='"
MSG_CONT = 'The value must be a continuous range.'
MSG_MISSING = 'The range offsets are missing.'
MSG_RFC = 'It must be a range formatted according to RFC 7233.'


def reference_range(value):
    """Expected (range_unit, range); each is a value or ('ERR', message)."""
    if value is None:
        return None, None
    if '=' not in value:
        return ('ERR', MSG_UNIT), ('ERR', MSG_UNIT)
    pos = 0
    while value[pos] != '=':
        pos += 1
    unit, rng = value[:pos], value[pos + 1 :]
    if ',' in rng:
        return unit, ('ERR', MSG_CONT)
    dash = rng.find('-')
    if dash < 0:
        return unit, ('ERR', MSG_RFC)
    first, last = rng[:dash], rng[dash + 1 :]
    try:
        if first and last:
            f, l = int(first), int(last)
            if l < f:
                raise ValueError()
            return unit, (f, l)
        if first:
            return unit, (int(first), -1)
        if last:
            n = -int(last)
            if n >= 0:
                raise ValueError()
            return unit, (n, -1)
        return unit, ('ERR', MSG_MISSING)
    except ValueError:
        return unit, ('ERR', MSG_RFC)


def observe(req, attr):
    try:
        return getattr(req, attr)
    except falcon.HTTPInvalidHeader as ex:
        assert ex.status_code == 400
        return ('ERR', ex.description)


def section_range_header(scale):
    section = 'range_header'
    values = gen_range_values()
    alphabet = ['bytes', 'items', '=', '=', '-', '-', ',', '0', '1', '5', '12', ' ', '+', 'x', '_', '']
    for _ in range(600 * scale):
        values.append(''.join(RNG.choice(alphabet) for _ in range(RNG.randint(0, 7))))
    for unit in ['bytes', '', 'b=', 'by tes', 'x-y', 'a,b', '-', 'bytes-']:
        for rng in ['0-1', '-5', '5-', '', '-', '1-0', '1,2', '=', '=1-2', 'a=b-c', '1-2=', '--', '-=-']:
            values.append(unit + '=' + rng)
    for value in values:
        if value is not None:
            value = value.strip()  # the test helpers do not preserve outer whitespace
        want_unit, want_range = reference_range(value)
        if isinstance(want_range, tuple) and want_range[0] == 'ERR' and want_range[1] == MSG_RFC:
            want_range = ('ERR', None)  # description also carries a link; compare the prefix
        headers = None if value is None else {'Range': value}
        for side, req in (
            ('wsgi', ft.create_req(headers=headers)),
            ('asgi', ft.create_asgi_req(headers=headers)),
        ):
            got_unit = observe(req, 'range_unit')
            got_range = observe(req, 'range')
            again_range = observe(req, 'range')
            again_unit = observe(req, 'range_unit')
            count(section)
            if isinstance(got_unit, tuple) and got_unit[0] == 'ERR':
                got_unit = ('ERR', got_unit[1].split(' header is invalid. ', 1)[-1])
            if isinstance(again_unit, tuple) and again_unit[0] == 'ERR':
                again_unit = ('ERR', again_unit[1].split(' header is invalid. ', 1)[-1])

            def norm(r):
                if isinstance(r, tuple) and r and r[0] == 'ERR':
                    text = r[1].split(' header is invalid. ', 1)[-1]
                    if text.startswith(MSG_RFC):
                        return ('ERR', None)
                    return ('ERR', text)
                return r

            got_range, again_range = norm(got_range), norm(again_range)
            if got_unit != want_unit or again_unit != want_unit:
                fail(section, '%s %r range_unit %r expected %r' % (side, value, got_unit, want_unit))
            if got_range != want_range or again_range != want_range:
                fail(section, '%s %r range %r expected %r' % (side, value, got_range, want_range))
            if got_unit is not None and not isinstance(got_unit, tuple) and type(got_unit) is not str:
                fail(section, '%s %r range_unit type %r' % (side, value, type(got_unit)))


def main():
    try:
        section_paths(3 if FOCUS == 'paths' else 1)
        section_ranges(2 if FOCUS in ('set_range', 'range_header', 'bounded_file') else 1)
        section_set_range(2 if FOCUS == 'set_range' else 1)
        section_bounded_file(3 if FOCUS == 'bounded_file' else 1)
        section_range_header(3 if FOCUS == 'range_header' else 1)
    finally:
        io.open = _real_open
        shutil.rmtree(ROOT, ignore_errors=True)
    finish()


if __name__ == '__main__':
    main()
