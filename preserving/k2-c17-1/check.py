#!/usr/bin/env python
"""Property C17 check: WebSocket sessions follow the ASGI state machine.

Self-contained.  Drives falcon.asgi.App through an *independent* ASGI
WebSocket server simulator (not falcon.testing), runs generated responder /
client / failure scripts, and compares

  (a) the outcome of every single operation (return value or error type,
      message and close code),
  (b) the exact list of events the framework managed to send to the server,
  (c) the exception (if any) that escaped the ASGI callable

against a small reference model of the documented state machine, and on top of
that checks generic legality invariants of the outgoing event stream.

Usage:  PYTHONPATH=<tree> /venv/bin/python check.py
"""

import asyncio
import json
import logging
import random
import sys

import falcon
import falcon.asgi
import falcon.errors
from falcon.constants import WebSocketPayloadType as PT

logging.disable(logging.CRITICAL)

SETTLE = 30

# Close reasons (hard-coded expectations, taken from the unmodified tree).
REASONS = {
    1000: 'Normal Closure',
    1011: 'Internal Server Error',
    3011: 'Internal Server Error',
    3101: 'Switching Protocols',
    3200: 'OK',
    3400: 'Bad Request',
    3403: 'Forbidden',
    3404: 'Not Found',
    3405: 'Method Not Allowed',
    3500: 'Internal Server Error',
}

MSG_ACCEPT_CLOSED = 'accept() may not be called on a closed WebSocket connection'
MSG_ACCEPT_TWICE = 'accept() may only be called once on an open WebSocket connection'
MSG_SUBPROTO = 'WebSocket subprotocol must be a string'
MSG_NO_HEADERS = (
    'The ASGI server that is running this app does not support accept headers.'
)
MSG_SEC_WS = (
    'Per the ASGI spec, the headers iterable must not '
    'contain "sec-websocket-protocol". Instead, the '
    'subprotocol argument can be used to indicate the '
    'accepted protocol.'
)
MSG_NOT_ACCEPTED = 'WebSocket connection has not yet been accepted'
MSG_CODE_INT = 'code must be an int'
MSG_CODE_LOW = 'Invalid close code. The value must be >= 1000'
MSG_CODE_RESERVED = 'Invalid close code. Only unreserved codes may be used.'
MSG_TEXT_TYPE = 'payload must be a string'
MSG_DATA_TYPE = 'payload must be a byte string'
MSG_MISSING_TEXT = 'Missing TEXT (0x01) payload'
MSG_MISSING_BIN = 'Missing BINARY (0x02) payload'
MSG_MISSING_BOTH = (
    'Message did not contain either a TEXT (0x01) or BINARY (0x02) payload'
)
MSG_PROTO_TRANSLATED = 'WebSocket subprotocol must be from the list sent by the client'


class CustomError(Exception):
    pass


class BinJSON:
    """Deterministic BINARY media handler (msgpack may be absent)."""

    def serialize(self, media):
        return json.dumps(media, sort_keys=True).encode('utf-8')

    def deserialize(self, payload):
        return json.loads(bytes(payload).decode('utf-8'))


# --------------------------------------------------------------------------
# Failure kinds for the server's send()
# --------------------------------------------------------------------------


def make_failure(kind):
    if kind == 'oserror':
        return OSError('connection lost')
    if kind == 'oserror_cause':
        ex = OSError('lost')
        ex.__cause__ = Exception('received 1001 (going away); then sent 1001')
        return ex
    if kind == 'oserror_badcause':
        ex = OSError('lost')
        ex.__cause__ = Exception('no code here: received 12')
        return ex
    if kind == 'oserror_ok1000':
        ex = ConnectionResetError('sent 1000; code = 1000 (OK); no reason')
        ex.__cause__ = Exception('received 1001 (going away)')
        return ex
    if kind == 'ok1000':
        return Exception('WebSocket closed: code = 1000 (OK), no reason')
    if kind == 'proto':
        return Exception('protocol accepted must be from the list')
    if kind == 'other':
        return RuntimeError('boom')
    if kind == 'daphne_code':
        return ValueError('Invalid close code 1011 for this server')
    raise AssertionError(kind)


FAIL_KINDS = (
    'oserror',
    'oserror_cause',
    'oserror_badcause',
    'oserror_ok1000',
    'ok1000',
    'proto',
    'other',
    'daphne_code',
)

# what WebSocket._send() turns the failure into: (type, msg, code, closes)
TRANSLATED = {
    'oserror': ('WebSocketDisconnected', '', 1000, True),
    'oserror_cause': ('WebSocketDisconnected', '', 1001, True),
    'oserror_badcause': ('WebSocketDisconnected', '', 1000, True),
    'oserror_ok1000': ('WebSocketDisconnected', '', 1000, True),
    'ok1000': ('WebSocketDisconnected', '', 1000, True),
    'proto': ('ValueError', MSG_PROTO_TRANSLATED, None, True),
    'other': None,
    'daphne_code': None,
}


# --------------------------------------------------------------------------
# Independent ASGI server simulator
# --------------------------------------------------------------------------


class Server:
    def __init__(self, cfg):
        self.cfg = cfg
        self.events = cfg['client']
        self.idx = 0
        self.sent = []
        self.attempts = 0
        self.disconnect_delivered = False
        self.receive_after_disconnect = False

    def scope(self):
        asgi = {'version': '3.0'}
        if self.cfg['ver'] is not None:
            asgi['spec_version'] = self.cfg['ver']
        return {
            'type': 'websocket',
            'asgi': asgi,
            'http_version': '1.1',
            'scheme': 'ws',
            'path': self.cfg['path'],
            'raw_path': self.cfg['path'].encode(),
            'query_string': b'',
            'root_path': '',
            'headers': [(b'host', b'falconframework.org')],
            'client': ('127.0.0.1', 4242),
            'server': ('127.0.0.1', 8000),
            'subprotocols': ['amqp', 'wamp'],
        }

    async def receive(self):
        await asyncio.sleep(0)
        if self.idx >= len(self.events):
            if self.disconnect_delivered:
                self.receive_after_disconnect = True
            await asyncio.get_running_loop().create_future()  # block forever
        ev = self.events[self.idx]
        self.idx += 1
        if ev['type'] == 'websocket.disconnect':
            self.disconnect_delivered = True
        return dict(ev)

    async def send(self, event):
        await asyncio.sleep(0)
        n = self.attempts
        self.attempts += 1
        if n == self.cfg['fail_at']:
            raise make_failure(self.cfg['fail_kind'])
        self.sent.append(dict(event))


# --------------------------------------------------------------------------
# Running a script against the real framework
# --------------------------------------------------------------------------


def describe_exc(ex):
    return ('err', type(ex).__name__, str(ex), getattr(ex, 'code', None))


def make_raise(kind):
    if kind == 'http403':
        return falcon.HTTPForbidden()
    if kind == 'http400':
        return falcon.HTTPBadRequest()
    if kind == 'http500':
        return falcon.HTTPInternalServerError()
    if kind == 'status200':
        return falcon.HTTPStatus(falcon.HTTP_200)
    if kind == 'status101':
        return falcon.HTTPStatus(101)
    if kind == 'generic':
        return RuntimeError('generic failure')
    if kind == 'custom':
        return CustomError('custom failure')
    if kind == 'wsd':
        return falcon.errors.WebSocketDisconnected(1001)
    raise AssertionError(kind)


async def settle():
    for _ in range(SETTLE):
        await asyncio.sleep(0)


async def run_ops(ws, ops, catch, log):
    for op in ops:
        name = op[0]
        try:
            if name == 'accept':
                res = await ws.accept(*op[1:])
            elif name == 'accept_kw':
                res = await ws.accept(subprotocol=op[1], headers=op[2])
            elif name == 'close':
                res = await ws.close(*op[1:])
            elif name == 'send_text':
                res = await ws.send_text(op[1])
            elif name == 'send_data':
                res = await ws.send_data(op[1])
            elif name == 'send_media':
                res = await ws.send_media(*op[1:])
            elif name == 'recv_text':
                res = await ws.receive_text()
            elif name == 'recv_data':
                res = await ws.receive_data()
            elif name == 'recv_media':
                res = await ws.receive_media()
            elif name == 'raise':
                raise make_raise(op[1])
            elif name == 'flags':
                res = (ws.unaccepted, ws.closed, ws.ready)
            else:
                raise AssertionError(name)
        except Exception as ex:
            log.append(describe_exc(ex))
            if name == 'raise' or not catch:
                raise
        else:
            log.append(('ok', res))
        await settle()


def build_app(cfg, log):
    class Resource:
        async def on_websocket(self, req, ws, **params):
            await run_ops(ws, cfg['ops'], cfg['catch'], log)

    class NoWS:
        async def on_get(self, req, resp):
            pass

    class Middleware:
        async def process_request_ws(self, req, ws):
            await run_ops(ws, cfg['mw_req'], cfg['catch'], log)

        async def process_resource_ws(self, req, ws, resource, params):
            await run_ops(ws, cfg['mw_res'], cfg['catch'], log)

    mw = [Middleware()] if cfg['mw'] else []
    app = falcon.asgi.App(middleware=mw)
    app.add_route('/ws', Resource())
    app.add_route('/nows', NoWS())
    app.ws_options.max_receive_queue = cfg['maxq']
    app.ws_options.error_close_code = cfg['error_code']
    app.ws_options.media_handlers[PT.BINARY] = BinJSON()

    handler = cfg['handler']
    if handler is not None:
        if handler == 'close4001':

            async def handle(req, resp, ex, params, ws=None):
                await ws.close(4001, 'custom')

        elif handler == 'raise_http':

            async def handle(req, resp, ex, params, ws=None):
                raise falcon.HTTPForbidden()

        elif handler == 'raise_status':

            async def handle(req, resp, ex, params, ws=None):
                raise falcon.HTTPStatus(falcon.HTTP_200)

        else:
            raise AssertionError(handler)

        app.add_error_handler(CustomError, handle)

    return app


async def run_real(cfg):
    log = []
    server = Server(cfg)
    app = build_app(cfg, log)
    app_exc = None
    try:
        await asyncio.wait_for(app(server.scope(), server.receive, server.send), 20)
    except asyncio.TimeoutError:
        app_exc = ('HANG',)
    except Exception as ex:
        app_exc = (type(ex).__name__, str(ex))
    # let any stray task finish/cancel
    await settle()
    stray = [
        t
        for t in asyncio.all_tasks()
        if t is not asyncio.current_task() and not t.done()
    ]
    for t in stray:
        t.cancel()
    return {
        'log': log,
        'sent': server.sent,
        'attempts': server.attempts,
        'app_exc': app_exc,
        'stray_tasks': len(stray),
        'recv_after_disc': server.receive_after_disconnect,
        'client_consumed': server.idx,
    }


# --------------------------------------------------------------------------
# Reference model
# --------------------------------------------------------------------------


class MErr(Exception):
    def __init__(self, tname, msg, code=None, category='generic', status=None):
        self.tname = tname
        self.msg = msg  # None: do not compare message
        self.code = code
        self.category = category
        self.status = status


def wsd(code):
    return MErr('WebSocketDisconnected', None, code or 1000, 'wsd')


def ona(msg):
    return MErr('OperationNotAllowed', msg)


def ver_tuple(ver):
    return tuple(int(p) for p in (ver or '2.0').split('.'))


class Model:
    def __init__(self, cfg):
        self.cfg = cfg
        self.ver = cfg['ver'] or '2.0'
        self.supports_reason = ver_tuple(cfg['ver']) >= (2, 3)
        self.maxq = cfg['maxq']
        self.events = cfg['client']
        self.idx = 0
        self.sent = []
        self.attempts = 0
        self.log = []
        self.state = 'H'
        self.close_code = None
        # buffered receiver
        self.p_task = False  # pump task object exists
        self.p_finished = False
        self.held = None
        self.queue = []
        self.cd = False
        self.cd_code = None

    # -- server side -------------------------------------------------------
    def server_send(self, ev):
        n = self.attempts
        self.attempts += 1
        if n == self.cfg['fail_at']:
            raise _Fail(self.cfg['fail_kind'])
        self.sent.append(ev)

    # -- pump --------------------------------------------------------------
    def pump_settle(self):
        while self.p_task and not self.p_finished:
            if self.held is None:
                if self.cd:
                    self.p_finished = True
                    break
                if self.idx >= len(self.events):
                    break
                ev = self.events[self.idx]
                self.idx += 1
                if ev['type'] == 'websocket.disconnect':
                    self.cd = True
                    self.cd_code = ev.get('code', 1000)
                self.held = ev
            if len(self.queue) >= self.maxq:
                break
            self.queue.append(self.held)
            self.held = None

    def pump_stop(self):
        self.p_task = False
        self.p_finished = False
        self.held = None

    # -- state -------------------------------------------------------------
    @property
    def closed(self):
        return self.state == 'C' or self.cd

    def require_accepted(self):
        if self.state == 'H':
            raise ona(MSG_NOT_ACCEPTED)
        if self.state == 'C':
            raise wsd(self.close_code)

    def _send(self, ev):
        if self.cd:
            self.state = 'C'
            self.close_code = self.cd_code
        if self.state == 'C':
            raise wsd(self.close_code)
        try:
            self.server_send(ev)
        except _Fail as f:
            tr = TRANSLATED[f.kind]
            if tr is None:
                raise raw_failure(f.kind)
            tname, msg, code, closes = tr
            self.state = 'C'
            if tname == 'WebSocketDisconnected':
                self.close_code = code
                raise wsd(code)
            raise MErr(tname, msg)

    def _receive(self):
        if self.maxq > 0:
            if not self.p_task:
                raise MErr('AssertionError', None)
            if not self.queue:
                raise ModelGap('receive on empty queue')
            ev = self.queue.pop(0)
        else:
            if self.idx >= len(self.events):
                raise ModelGap('receive past end of client script')
            ev = self.events[self.idx]
            self.idx += 1
        if ev['type'] != 'websocket.receive':
            self.state = 'C'
            self.close_code = ev.get('code', 1000)
            raise wsd(self.close_code)
        return ev

    # -- operations --------------------------------------------------------
    def accept(self, subprotocol=None, headers=None):
        if self.closed:
            raise ona(MSG_ACCEPT_CLOSED)
        if self.state != 'H':
            raise ona(MSG_ACCEPT_TWICE)
        ev = {'type': 'websocket.accept'}
        if subprotocol is not None:
            if not isinstance(subprotocol, str):
                raise MErr('ValueError', MSG_SUBPROTO)
            ev['subprotocol'] = subprotocol
        if headers:
            if self.ver == '2.0':
                raise ona(MSG_NO_HEADERS)
            # documented: an iterable of (name, value) pairs, or a dict-like
            # object implementing items(); names are lower-cased, both parts
            # are encoded as US-ASCII
            get_items = getattr(headers, 'items', None)
            parsed = []
            try:
                items = list(get_items() if callable(get_items) else headers)
                for pair in items:
                    name, value = pair
                    parsed.append((name.lower().encode('ascii'), value.encode('ascii')))
            except Exception as ex:
                raise MErr(type(ex).__name__, None)
            ev['headers'] = parsed
            for name, _ in parsed:
                if name == b'sec-websocket-protocol':
                    raise MErr('ValueError', MSG_SEC_WS)
        self._send(ev)
        self.state = 'A'
        if self.maxq > 0 and not self.p_task:
            self.p_task = True
            self.p_finished = False

    def close(self, code=None, reason=None):
        if self.p_task:
            self.pump_stop()
        if code is None:
            code = 1000
        elif not isinstance(code, int):
            raise MErr('ValueError', MSG_CODE_INT)
        elif code < 1000:
            raise MErr('ValueError', MSG_CODE_LOW)
        elif code in RESERVED_CODES:
            raise MErr('ValueError', MSG_CODE_RESERVED)
        if self.closed:
            return
        ev = {'type': 'websocket.close', 'code': code}
        reason = reason or REASONS.get(code)
        if reason and self.supports_reason:
            ev['reason'] = reason
        try:
            self.server_send(ev)
        except _Fail as f:
            raise raw_failure(f.kind)
        self.state = 'C'
        self.close_code = code

    def send_text(self, payload):
        self.require_accepted()
        if not isinstance(payload, str):
            raise MErr('TypeError', MSG_TEXT_TYPE)
        self._send({'type': 'websocket.send', 'text': payload})

    def send_data(self, payload):
        self.require_accepted()
        if not isinstance(payload, (bytes, bytearray, memoryview)):
            raise MErr('TypeError', MSG_DATA_TYPE)
        self._send({'type': 'websocket.send', 'bytes': bytes(payload)})

    def send_media(self, media, ptype=PT.TEXT):
        self.require_accepted()
        if ptype is PT.TEXT:
            try:
                text = json.dumps(media, ensure_ascii=False)
            except Exception as ex:
                raise MErr(type(ex).__name__, None)
            self._send({'type': 'websocket.send', 'text': text})
        else:
            try:
                data = json.dumps(media, sort_keys=True).encode('utf-8')
            except Exception as ex:
                raise MErr(type(ex).__name__, None)
            self._send({'type': 'websocket.send', 'bytes': data})

    def recv_text(self):
        self.require_accepted()
        ev = self._receive()
        if ev.get('text') is None:
            raise MErr('PayloadTypeError', MSG_MISSING_TEXT)
        return ev['text']

    def recv_data(self):
        self.require_accepted()
        ev = self._receive()
        if ev.get('bytes') is None:
            raise MErr('PayloadTypeError', MSG_MISSING_BIN)
        return ev['bytes']

    def recv_media(self):
        self.require_accepted()
        ev = self._receive()
        if ev.get('text') is not None:
            try:
                return json.loads(ev['text'])
            except Exception as ex:
                raise MErr(type(ex).__name__, None)
        if ev.get('bytes') is None:
            raise MErr('PayloadTypeError', MSG_MISSING_BOTH)
        try:
            return json.loads(bytes(ev['bytes']).decode('utf-8'))
        except Exception as ex:
            raise MErr(type(ex).__name__, None)

    def flags(self):
        return (
            self.state == 'H',
            self.closed,
            self.state == 'A' and not self.cd,
        )

    # -- scripts -----------------------------------------------------------
    def run_ops(self, ops, catch):
        for op in ops:
            name = op[0]
            try:
                if name == 'accept':
                    res = self.accept(*op[1:])
                elif name == 'accept_kw':
                    res = self.accept(subprotocol=op[1], headers=op[2])
                elif name == 'raise':
                    raise model_raise(op[1])
                else:
                    res = getattr(self, name)(*op[1:])
            except MErr as ex:
                self.log.append(('err', ex.tname, ex.msg, ex.code))
                if name == 'raise' or not catch:
                    raise
            else:
                self.log.append(('ok', res))
            self.pump_settle()

    # -- error handling ----------------------------------------------------
    def cleanup_on_error(self):
        try:
            self.close(self.cfg['error_code'])
        except MErr as ex:
            if ex.msg is not None and 'invalid close code' in ex.msg.lower():
                self.close(3011)
            else:
                raise

    def handle(self, ex):
        cat = ex.category
        if cat == 'custom' and self.cfg['handler'] is None:
            cat = 'generic'
        if cat in ('http_error', 'http_status'):
            self.close(3000 + ex.status)
        elif cat == 'wsd':
            self.cleanup_on_error()
        elif cat == 'custom':
            h = self.cfg['handler']
            if h == 'close4001':
                self.close(4001, 'custom')
            elif h == 'raise_http':
                self.close(3403)
            elif h == 'raise_status':
                self.close(3200)
        else:
            self.cleanup_on_error()

    def session(self):
        cfg = self.cfg
        first = self.events[0]
        self.idx = 1
        if first['type'] != 'websocket.connect':
            ev = {'type': 'websocket.close', 'code': 1011}
            if self.supports_reason:
                ev['reason'] = 'Internal Server Error'
            try:
                self.server_send(ev)
            except _Fail as f:
                raise raw_failure(f.kind)
            return
        try:
            if cfg['mw']:
                self.run_ops(cfg['mw_req'], cfg['catch'])
            if cfg['path'] == '/ws':
                if cfg['mw']:
                    self.run_ops(cfg['mw_res'], cfg['catch'])
                self.run_ops(cfg['ops'], cfg['catch'])
            elif cfg['path'] == '/nows':
                if cfg['mw']:
                    self.run_ops(cfg['mw_res'], cfg['catch'])
                raise MErr('HTTPMethodNotAllowed', None, None, 'http_error', 405)
            else:
                raise MErr('HTTPRouteNotFound', None, None, 'http_error', 404)
            self.close()
        except MErr as ex:
            self.handle(ex)


RESERVED_CODES = frozenset([1004, 1005, 1006]) | frozenset(range(1015, 2000))


class _Fail(Exception):
    def __init__(self, kind):
        self.kind = kind


class ModelGap(Exception):
    """The generated script left the domain the model covers (generator bug)."""


def raw_failure(kind):
    ex = make_failure(kind)
    return MErr(type(ex).__name__, str(ex))


def model_raise(kind):
    ex = make_raise(kind)
    name = type(ex).__name__
    if kind.startswith('http'):
        return MErr(name, None, None, 'http_error', int(kind[4:]))
    if kind.startswith('status'):
        return MErr(name, None, None, 'http_status', int(kind[6:]))
    if kind == 'custom':
        return MErr(name, str(ex), None, 'custom')
    if kind == 'wsd':
        return MErr(name, None, 1001, 'wsd')
    return MErr(name, str(ex))


def run_model(cfg):
    m = Model(cfg)
    app_exc = None
    try:
        m.session()
    except MErr as ex:
        app_exc = (ex.tname, ex.msg)
    return {'log': m.log, 'sent': m.sent, 'attempts': m.attempts, 'app_exc': app_exc}


# --------------------------------------------------------------------------
# Generic legality of the outgoing event stream
# --------------------------------------------------------------------------


def legality_violations(cfg, real):
    out = []
    sent = real['sent']
    types = [e['type'] for e in sent]
    n_accept = types.count('websocket.accept')
    n_close = types.count('websocket.close')
    if n_accept > 1:
        out.append('more than one accept')
    if n_close > 1:
        out.append('more than one close')
    if n_close and types[-1] != 'websocket.close':
        out.append('event after close')
    for i, t in enumerate(types):
        if t == 'websocket.send':
            if 'websocket.accept' not in types[:i]:
                out.append('data before accept')
            ev = sent[i]
            if ('text' in ev) == ('bytes' in ev):
                out.append('send event must have exactly one of text/bytes')
            if 'text' in ev and not isinstance(ev['text'], str):
                out.append('text payload not str')
            if 'bytes' in ev and type(ev['bytes']) is not bytes:
                out.append('bytes payload not bytes')
        elif t == 'websocket.accept':
            if i != 0:
                out.append('accept is not the first event')
        elif t == 'websocket.close':
            code = sent[i]['code']
            if not isinstance(code, int) or code < 1000 or code in RESERVED_CODES:
                out.append('illegal close code %r' % (code,))
            if 'reason' in sent[i] and ver_tuple(cfg['ver']) < (2, 3):
                out.append('reason sent to a pre-2.3 server')
        else:
            out.append('unknown event type %r' % (t,))
    for ev in sent:
        if ev['type'] == 'websocket.accept' and 'headers' in ev:
            if ver_tuple(cfg['ver']) < (2, 1):
                out.append('accept headers sent to a 2.0 server')
    # Client never observed to disconnect, server never failed, app returned
    # normally: there must be exactly one close (possibly the 403 denial).
    client_disc_seen = any(
        e['type'] == 'websocket.disconnect'
        for e in cfg['client'][: real['client_consumed']]
    )
    if (
        not client_disc_seen
        and cfg['fail_at'] is None
        and real['app_exc'] is None
        and n_close != 1
    ):
        out.append('no close sent although client still connected')
    if real['recv_after_disc']:
        out.append('receive() called after disconnect was delivered')
    if real['stray_tasks']:
        out.append('pump task left running')
    return out


# --------------------------------------------------------------------------
# Comparison
# --------------------------------------------------------------------------


def norm_log(entries, model_entries):
    """Blank out messages the model does not predict (msg None)."""
    out = []
    for real, mod in zip(entries, model_entries):
        if real[0] == 'err' and mod[0] == 'err' and mod[2] is None:
            real = (real[0], real[1], None, real[3])
        out.append(real)
    out.extend(entries[len(model_entries):])
    return out


def norm_event(ev):
    ev = dict(ev)
    if 'code' in ev:
        ev['code'] = int(ev['code'])
    if 'headers' in ev:
        ev['headers'] = [tuple(h) for h in ev['headers']]
    return ev


def compare(cfg, real, model):
    problems = []
    rl = norm_log(real['log'], model['log'])
    if rl != model['log']:
        problems.append('op outcomes differ:\n    real  %r\n    model %r' % (rl, model['log']))
    rs = [norm_event(e) for e in real['sent']]
    ms = [norm_event(e) for e in model['sent']]
    if rs != ms:
        problems.append('sent events differ:\n    real  %r\n    model %r' % (rs, ms))
    # type strictness of what reaches the server
    for e in real['sent']:
        for k, v in e.items():
            if k == 'type' and type(v) is not str and not isinstance(v, str):
                problems.append('event type not str')
    if real['attempts'] != model['attempts']:
        problems.append(
            'send attempts differ: real %r model %r' % (real['attempts'], model['attempts'])
        )
    ra, ma = real['app_exc'], model['app_exc']
    if (ra is None) != (ma is None):
        problems.append('escaping exception differs: real %r model %r' % (ra, ma))
    elif ra is not None:
        if ra[0] != ma[0] or (ma[1] is not None and ra[1] != ma[1]):
            problems.append('escaping exception differs: real %r model %r' % (ra, ma))
    problems.extend(legality_violations(cfg, real))
    return problems


# --------------------------------------------------------------------------
# Case generation
# --------------------------------------------------------------------------

VERSIONS = (None, '2.0', '2.1', '2.2', '2.3', '2.4')

CONNECT = {'type': 'websocket.connect'}


def base_cfg(**kw):
    cfg = {
        'ver': '2.3',
        'maxq': 4,
        'path': '/ws',
        'client': [CONNECT, {'type': 'websocket.disconnect', 'code': 1000}],
        'ops': [],
        'catch': True,
        'mw': False,
        'mw_req': [],
        'mw_res': [],
        'handler': None,
        'error_code': 1011,
        'fail_at': None,
        'fail_kind': 'oserror',
    }
    cfg.update(kw)
    return cfg


TEXTS = ['', 'hello', 'héllo ☃', '{"a": 1}', 'not json', '0', ' ']
DATAS = [b'', b'\x00\xff', b'{"b": [1, 2]}', b'raw', 'café'.encode()]
MEDIAS = [None, 0, 1.5, 'x', [], {}, {'k': [1, 2, {'z': None}]}, '☃', [True, False]]
BAD_MEDIA = [{1, 2}, object, b'bytes']
CLOSE_CODES = [
    None, 1000, 1001, 1003, 1004, 1005, 1006, 1007, 1014, 1015, 1016, 1999,
    2000, 2999, 3000, 3011, 3404, 4000, 4999, 5000, 65536, 999, 0, -1, -1000,
    True, False, 1000.0, '1000', b'1000', (1000,), 1002, 1010, 1011, 1012, 1013,
]
REASON_ARGS = [None, '', 'bye', 'Going Away ☃']
DISCONNECTS = [
    {'type': 'websocket.disconnect', 'code': 1000},
    {'type': 'websocket.disconnect', 'code': 1001},
    {'type': 'websocket.disconnect', 'code': 1006},
    {'type': 'websocket.disconnect', 'code': 4000},
    {'type': 'websocket.disconnect'},
    {'type': 'websocket.disconnect', 'code': 1005, 'reason': 'x'},
]
HEADERS = [
    None,
    [],
    {},
    [('X-One', 'a')],
    {'X-Two': 'b', 'x-three': 'c'},
    [('Sec-WebSocket-Protocol', 'wamp')],
    {'sec-websocket-protocol': 'amqp'},
    [('X-Bad', 'café')],
    [('X-☃', 'v')],
    (('a', 'b'), ('c', 'd')),
    [('X-A', 'a'), ('SEC-WEBSOCKET-PROTOCOL', 'x'), ('X-Bad', '☃')],
]
SUBPROTOCOLS = [None, 'wamp', '', 'nope', 42, b'wamp', ['wamp']]
RAISE_KINDS = [
    'http403', 'http400', 'http500', 'status200', 'status101', 'generic', 'custom', 'wsd',
]
ERROR_CODES = [1011, 3011, 4000, 1000, 999, 0, 1005, 1015, 1500, 'abc', None, 2000]
HANDLERS = [None, 'close4001', 'raise_http', 'raise_status']


def rand_client_msg(rng):
    r = rng.random()
    if r < 0.4:
        return {'type': 'websocket.receive', 'text': rng.choice(TEXTS)}
    if r < 0.8:
        return {'type': 'websocket.receive', 'bytes': rng.choice(DATAS)}
    if r < 0.87:
        return {'type': 'websocket.receive', 'text': None, 'bytes': rng.choice(DATAS)}
    if r < 0.94:
        return {'type': 'websocket.receive', 'text': rng.choice(TEXTS), 'bytes': None}
    if r < 0.97:
        return {'type': 'websocket.receive'}
    return {'type': 'websocket.receive', 'text': None, 'bytes': None}


def rand_client(rng):
    n = rng.choice([0, 0, 1, 2, 3, 5, 6, 8])
    return [CONNECT] + [rand_client_msg(rng) for _ in range(n)] + [rng.choice(DISCONNECTS)]


def rand_op(rng):
    r = rng.random()
    if r < 0.16:
        if rng.random() < 0.5:
            return ('accept',)
        if rng.random() < 0.5:
            return ('accept', rng.choice(SUBPROTOCOLS), rng.choice(HEADERS))
        return ('accept_kw', rng.choice(SUBPROTOCOLS), rng.choice(HEADERS))
    if r < 0.28:
        if rng.random() < 0.3:
            return ('close',)
        return ('close', rng.choice(CLOSE_CODES), rng.choice(REASON_ARGS))
    if r < 0.38:
        return ('send_text', rng.choice(TEXTS + [None, b'bytes', 5]))
    if r < 0.48:
        return (
            'send_data',
            rng.choice(DATAS + [bytearray(b'ba'), memoryview(b'mv'), 'str', None, 7]),
        )
    if r < 0.58:
        media = rng.choice(MEDIAS + BAD_MEDIA[:1])
        k = rng.random()
        if k < 0.4:
            return ('send_media', media)
        if k < 0.7:
            return ('send_media', media, PT.TEXT)
        if k < 0.95:
            return ('send_media', media, PT.BINARY)
        return ('send_media', media, None)
    if r < 0.68:
        return ('recv_text',)
    if r < 0.78:
        return ('recv_data',)
    if r < 0.88:
        return ('recv_media',)
    if r < 0.94:
        return ('flags',)
    return ('raise', rng.choice(RAISE_KINDS))


def rand_ops(rng, accept_first_bias=0.7):
    n = rng.choice([0, 1, 2, 3, 4, 6, 9, 12])
    ops = [rand_op(rng) for _ in range(n)]
    if ops and rng.random() < accept_first_bias:
        ops.insert(0, ('accept',))
    return ops


def count_possible_sends(cfg):
    return 2 + sum(len(cfg[k]) for k in ('ops', 'mw_req', 'mw_res'))


def rand_cfg(rng):
    cfg = base_cfg(
        ver=rng.choice(VERSIONS),
        maxq=rng.choice([0, 0, 1, 2, 4, 4, 16]),
        path=rng.choice(['/ws'] * 8 + ['/nows', '/missing']),
        client=rand_client(rng),
        ops=rand_ops(rng),
        catch=rng.random() < 0.7,
        mw=rng.random() < 0.3,
        handler=rng.choice(HANDLERS),
        error_code=rng.choice([1011] * 6 + ERROR_CODES),
    )
    if cfg['mw']:
        cfg['mw_req'] = rand_ops(rng, 0.3)[:3]
        cfg['mw_res'] = rand_ops(rng, 0.3)[:3]
    if rng.random() < 0.35:
        cfg['fail_at'] = rng.randrange(0, min(6, count_possible_sends(cfg)))
        cfg['fail_kind'] = rng.choice(FAIL_KINDS)
    if rng.random() < 0.03:
        # abandoned handshake
        cfg['client'] = [rng.choice(DISCONNECTS)]
    return cfg


def check_cfg(cfg, cfg_model=None):
    """Return list of problems (empty if fine); None if outside the model.

    cfg_model is an equal-valued copy of cfg for scripts that contain
    single-use objects (generators).
    """
    try:
        model = run_model(cfg if cfg_model is None else cfg_model)
    except ModelGap:
        return None
    real = asyncio.run(run_real(cfg))
    return compare(cfg, real, model)


class Tally:
    def __init__(self):
        self.cases = 0
        self.skipped = 0
        self.failures = []

    def run(self, cfg, label=''):
        problems = check_cfg(cfg)
        if problems is None:
            self.skipped += 1
            return
        self.cases += 1
        if problems:
            self.failures.append((label, cfg, problems))

    def run2(self, cfg, cfg_model, label=''):
        problems = check_cfg(cfg, cfg_model)
        if problems is None:
            self.skipped += 1
            return
        self.cases += 1
        if problems:
            self.failures.append((label, cfg, problems))

    def expect(self, cond, label):
        self.cases += 1
        if not cond:
            self.failures.append((label, None, ['expectation failed']))

    def finish(self, minimum):
        if self.failures:
            for label, cfg, problems in self.failures[:10]:
                print('FAIL', label)
                if cfg is not None:
                    print('  cfg:', cfg)
                for p in problems:
                    print('  -', p)
            print('FAIL: %d of %d cases' % (len(self.failures), self.cases))
            sys.exit(1)
        if self.cases < minimum:
            print('FAIL: only %d cases ran (skipped %d)' % (self.cases, self.skipped))
            sys.exit(1)
        print('PASS (%d cases, %d outside model)' % (self.cases, self.skipped))


def random_sweep(tally, seed, n):
    rng = random.Random(seed)
    for i in range(n):
        tally.run(rand_cfg(rng), 'random#%d/%d' % (seed, i))


# --------------------------------------------------------------------------
# Change 1 focus: WebSocket.close() code validation in every state
# --------------------------------------------------------------------------


def close_code_values():
    vals = list(range(985, 1025)) + list(range(1990, 2006)) + list(range(2995, 3006))
    vals += [3404, 3999, 4000, 4999, 5000, 65535, 65536, 10 ** 12, 0, 1, -1, -1000, -1006]
    vals += [True, False, 1000.0, 1005.0, '1000', b'1000', (1000,), [1000], 1e3, complex(1000)]
    return vals


def close_focus(tally):
    disc = {'type': 'websocket.disconnect', 'code': 1001}
    msgs = [{'type': 'websocket.receive', 'text': 't%d' % i} for i in range(7)]
    vers = ['2.0', '2.2', '2.3', '2.4']
    n = 0
    for code in close_code_values():
        n += 1
        ver = vers[n % len(vers)]
        maxq = (0, 4, 1)[n % 3]
        reason = (None, 'bye', '')[n % 3]
        # (a) denial: close() instead of accept()
        tally.run(
            base_cfg(ver=ver, maxq=maxq, client=[CONNECT] + msgs + [disc],
                     ops=[('close', code, reason), ('flags',), ('accept',)]),
            'deny code=%r' % (code,),
        )
        # (b) close after accept, then misuse
        tally.run(
            base_cfg(ver=ver, maxq=maxq, client=[CONNECT] + msgs + [disc],
                     ops=[('accept',), ('send_text', 'a'), ('close', code, reason),
                          ('flags',), ('send_text', 'b'), ('recv_text',),
                          ('close', code)]),
            'close code=%r' % (code,),
        )
        # (c) already closed by the server: invalid codes must still be reported
        tally.run(
            base_cfg(ver=ver, maxq=maxq, client=[CONNECT] + msgs + [disc],
                     ops=[('accept',), ('close',), ('close', code, reason), ('flags',)]),
            'reclose code=%r' % (code,),
        )
        # (d) client gone (seen by pump or by receive), then close(code)
        tally.run(
            base_cfg(ver=ver, maxq=maxq, client=[CONNECT, disc],
                     ops=[('accept',), ('recv_text',), ('close', code, reason),
                          ('flags',)]),
            'gone code=%r' % (code,),
        )
        # (e) code is the configured error close code (cleanup + 3011 fallback)
        for kind in ('generic', 'wsd'):
            tally.run(
                base_cfg(ver=ver, maxq=maxq, client=[CONNECT] + msgs + [disc],
                         error_code=code, ops=[('accept',), ('raise', kind)]),
                'error_code=%r raise=%s' % (code, kind),
            )
        # (f) uncaught: the ValueError from close() goes to the error handler
        tally.run(
            base_cfg(ver=ver, maxq=maxq, client=[CONNECT] + msgs + [disc], catch=False,
                     ops=[('accept',), ('close', code, reason), ('send_text', 'x')]),
            'uncaught code=%r' % (code,),
        )


def direct_close_table(tally):
    """Hard-coded expectations (unmodified tree) for close() on a bare WebSocket."""
    from falcon.asgi.ws import WebSocket

    async def probe(code):
        sent = []

        async def send(ev):
            sent.append(ev)

        async def receive():
            await asyncio.get_running_loop().create_future()

        ws = WebSocket('2.4', {}, receive, send, {PT.TEXT: BinJSON(), PT.BINARY: BinJSON()}, 0, {})
        try:
            await ws.close(code)
        except ValueError as ex:
            return str(ex), sent, ws.closed
        return None, sent, ws.closed

    for code in list(range(-3, 5003)) + [True, False, 1000.0, '1006']:
        if code is True or code is False:
            want = MSG_CODE_LOW
        elif not isinstance(code, int):
            want = MSG_CODE_INT
        elif code < 1000:
            want = MSG_CODE_LOW
        elif code in (1004, 1005, 1006) or 1015 <= code <= 1999:
            want = MSG_CODE_RESERVED
        else:
            want = None
        got, sent, closed = asyncio.run(probe(code))
        ok = got == want
        if want is None:
            ok = ok and sent == [{'type': 'websocket.close', 'code': code}] and closed
        else:
            ok = ok and sent == [] and not closed
        tally.expect(ok, 'direct close(%r): got %r want %r sent %r' % (code, got, want, sent))


def main():
    tally = Tally()
    close_focus(tally)
    direct_close_table(tally)
    for seed in (11, 12):
        random_sweep(tally, seed, 300)
    tally.finish(800)


if __name__ == '__main__':
    main()
