"""C18 check: WebSocket receive buffering is FIFO, bounded and lossless.

Run as:  PYTHONPATH=<falcon tree> /venv/bin/python check.py

The program drives falcon.asgi.ws.WebSocket (and _BufferedReceiver directly)
through a scripted ASGI server whose deliveries are fully under the control of
the harness, so that the interleaving of server deliveries with the
application's receive / send / close / cancel steps is chosen by the test and
not by wall-clock sleeps.

Three families of cases are run:

  A. QUIESCENT schedules: after every step the loop is run until nothing is
     runnable; the complete observable state (outcome of every application
     call, the events pulled from the server, the events sent to the server)
     is compared after EVERY step with a small reference model of the
     promised behaviour.  Exhaustive interleavings for small bounds, random
     beyond, capacities 0..4.

  B. RACY schedules: only 0..2 loop iterations are allowed between steps, so
     that pump task and application task are resumed in many different
     relative orders.  Here the invariants of the property are checked
     (FIFO, exactly once, bound, lossless after a final drain, promptness of
     the disconnect for a sender, nothing left running after close).

  C. Hard-coded corner cases on _BufferedReceiver itself (start/stop
     idempotence, restart after disconnect, crash of the server callable,
     cancellation of a pending receive, freshness of the synthesised
     disconnect event).

Prints PASS and exits 0 when everything agrees.
"""

import asyncio
import itertools
import random
import sys

import falcon
import falcon.asgi
from falcon import errors
from falcon.asgi import ws as ws_mod
from falcon.constants import WebSocketPayloadType

CHANGE = '1'

ERROR = {'type': '<<server receive raises>>'}
_MISSING = object()


class CheckFailure(Exception):
    pass


def check(cond, *info):
    if not cond:
        raise CheckFailure(' | '.join(str(i) for i in info))


# --------------------------------------------------------------------------
# scripted ASGI server
# --------------------------------------------------------------------------


class Server:
    def __init__(self, events, cap):
        self.events = events
        self.cap = cap
        self.avail = 0
        self.next = 0
        self.waiter = None
        self.calls_started = 0
        self.calls_returned = 0
        self.concurrent = 0
        self.sent = []
        self.recv_requests = 0  # number of application receive calls started
        self.bound_violation = None

    async def receive(self):
        self.calls_started += 1
        self.concurrent += 1
        try:
            if self.concurrent > 1:
                self.bound_violation = 'two concurrent calls of the ASGI receive'
            # Real-time bound: the framework may have started at most
            # (deliveries to the application) + cap + 1 pulls; deliveries
            # to the application never exceed the receive requests made.
            if self.cap > 0:
                limit = self.recv_requests + self.cap + 1
            else:
                limit = self.recv_requests
            if self.calls_started > limit:
                self.bound_violation = 'pulled %d with only %d receive requests (cap %d)' % (
                    self.calls_started,
                    self.recv_requests,
                    self.cap,
                )
            while self.next >= self.avail:
                self.waiter = asyncio.get_running_loop().create_future()
                try:
                    await self.waiter
                finally:
                    self.waiter = None
            ev = self.events[self.next]
            self.next += 1
            self.calls_returned += 1
            if ev is ERROR:
                raise RuntimeError('server blew up')
            return dict(ev)
        finally:
            self.concurrent -= 1

    def deliver(self):
        if self.avail < len(self.events):
            self.avail += 1
        if self.waiter is not None and not self.waiter.done():
            self.waiter.set_result(None)

    async def send(self, msg):
        self.sent.append(dict(msg))


_OPTIONS = falcon.asgi.App().ws_options
_HANDLERS = _OPTIONS.media_handlers


def make_ws(server, cap, ver='2.3'):
    return ws_mod.WebSocket(
        ver, {'type': 'websocket'}, server.receive, server.send, _HANDLERS, cap, {}
    )


async def settle(limit=400):
    loop = asyncio.get_running_loop()
    ready = getattr(loop, '_ready', None)
    if ready is None:
        for _ in range(80):
            await asyncio.sleep(0)
        return
    quiet = 0
    for _ in range(limit):
        await asyncio.sleep(0)
        if len(ready) == 0:
            quiet += 1
            if quiet >= 2:
                return
        else:
            quiet = 0
    raise CheckFailure('the loop did not become quiescent')


async def yields(n):
    for _ in range(n):
        await asyncio.sleep(0)


def outcome_of(task):
    if not task.done():
        return ('pending',)
    if task.cancelled():
        return ('cancelled',)
    exc = task.exception()
    if exc is None:
        res = task.result()
        if res is None:
            return ('ok',)
        return ('msg', res)
    if isinstance(exc, errors.WebSocketDisconnected):
        return ('wsd', exc.code)
    if isinstance(exc, errors.OperationNotAllowed):
        return ('notallowed',)
    if isinstance(exc, AssertionError):
        return ('assert',)
    return ('err', type(exc).__name__)


def build_events(k, tail, binary, code):
    evs = []
    for i in range(k):
        if binary:
            evs.append({'type': 'websocket.receive', 'bytes': b'm%d' % i})
        else:
            # NOTE: empty string payload for message 0 (None vs empty corner)
            evs.append({'type': 'websocket.receive', 'text': '' if i == 0 else 'm%d' % i})
    if tail == 'disc':
        ev = {'type': 'websocket.disconnect'}
        if code is not None:
            ev['code'] = code
        evs.append(ev)
    elif tail == 'err':
        evs.append(ERROR)
    return evs


def payload_of(ev, binary):
    return ev['bytes'] if binary else ev['text']


# --------------------------------------------------------------------------
# reference model (valid at quiescent points)
# --------------------------------------------------------------------------


class Model:
    def __init__(self, cap, events, binary):
        self.cap = cap
        self.events = events
        self.binary = binary
        self.avail = 0
        self.got = 0  # events consumed by the application
        self.pulled = 0  # events pulled from the server by the framework
        self.state = 'HANDSHAKE'
        self.codes = {None}  # acceptable values of the stored close code
        self.pump = None  # None | 'run' | 'done' | 'crashed' | 'stopped'
        self.cd = False
        self.cd_code = None
        self.pending = None  # op index of the pending receive
        self.sent = []
        self.out = {}  # op index -> set of acceptable outcomes

    def _set(self, op, *outs):
        self.out[op] = set(outs)

    def accept(self, op):
        self.sent.append({'type': 'websocket.accept'})
        self.state = 'ACCEPTED'
        if self.cap > 0:
            self.pump = 'run'
        self._set(op, ('ok',))
        self.flow()

    def _deliver_to(self, op):
        ev = self.events[self.got]
        self.got += 1
        if ev is ERROR:
            # only reachable in unbuffered mode
            self._set(op, ('err', 'RuntimeError'))
        elif ev['type'] == 'websocket.disconnect':
            code = ev.get('code', 1000)
            self.state = 'CLOSED'
            self.codes = {code}
            self._set(op, ('wsd', code))
        else:
            self._set(op, ('msg', payload_of(ev, self.binary)))

    def flow(self):
        while True:
            progressed = False
            if self.cap > 0 and self.pump == 'run':
                while self.pump == 'run' and self.pulled < min(
                    self.avail, self.got + self.cap + 1
                ):
                    ev = self.events[self.pulled]
                    self.pulled += 1
                    progressed = True
                    if ev is ERROR:
                        self.pump = 'crashed'
                    elif ev['type'] == 'websocket.disconnect':
                        self.pump = 'done'
                        self.cd = True
                        self.cd_code = ev.get('code', 1000)
            if self.pending is not None:
                if self.cap > 0:
                    appended = self.pulled - (1 if self.pump == 'crashed' else 0)
                    if self.got < appended:
                        op, self.pending = self.pending, None
                        self._deliver_to(op)
                        progressed = True
                    elif self.pump == 'crashed':
                        op, self.pending = self.pending, None
                        self.state = 'CLOSED'
                        self.codes = {1000}
                        self._set(op, ('wsd', 1000))
                        progressed = True
                else:
                    if self.got < self.avail:
                        op, self.pending = self.pending, None
                        self.pulled = self.got + 1
                        self._deliver_to(op)
                        progressed = True
            if not progressed:
                return

    def deliver(self):
        if self.avail < len(self.events):
            self.avail += 1
        self.flow()

    def recv(self, op):
        if self.pending is not None:
            return False  # the harness skips this step
        if self.state == 'HANDSHAKE':
            self._set(op, ('notallowed',))
            return True
        if self.state == 'CLOSED':
            self._set(op, *[('wsd', c) for c in self.codes])
            return True
        if self.cap > 0 and self.pump == 'stopped':
            # close() was a no-op because the client had gone; the framework
            # guards against a receive without a pump with an assertion.
            self._set(op, ('assert',))
            return True
        self.pending = op
        self._set(op, ('pending',))
        self.flow()
        return True

    def send(self, op, payload):
        if self.state == 'HANDSHAKE':
            self._set(op, ('notallowed',))
            return
        if self.state == 'CLOSED':
            self._set(op, *[('wsd', c) for c in self.codes])
            return
        if self.cap > 0 and self.cd:
            self.state = 'CLOSED'
            self.codes = {self.cd_code}
            self._set(op, ('wsd', self.cd_code))
            return
        if self.binary:
            self.sent.append({'type': 'websocket.send', 'bytes': payload})
        else:
            self.sent.append({'type': 'websocket.send', 'text': payload})
        self._set(op, ('ok',))

    def close(self, op, code):
        interrupted = None
        if self.cap > 0:
            if self.pump == 'crashed':
                self._set(op, ('err', 'RuntimeError'))
                return
            if self.pump in ('run', 'done'):
                self.pump = 'stopped'
                if self.pending is not None:
                    interrupted, self.pending = self.pending, None
        eff = 1000 if code is None else code
        if self.state == 'CLOSED' or (self.cap > 0 and self.cd):
            pass
        else:
            self.sent.append({'type': 'websocket.close', 'code': eff})
            self.state = 'CLOSED'
            self.codes = {eff}
        self._set(op, ('ok',))
        if interrupted is not None:
            # The waiting receive sees the pump go away and reports a plain
            # disconnect; which of the two codes is stored last depends on
            # task wake-up order, both are acceptable.
            self._set(interrupted, ('wsd', 1000))
            self.state = 'CLOSED'
            self.codes = self.codes | {1000}

    def cancel(self):
        if self.pending is None:
            return False
        self._set(self.pending, ('cancelled',))
        self.pending = None
        return True


# --------------------------------------------------------------------------
# running one case
# --------------------------------------------------------------------------


class Case:
    def __init__(self, cap, k, tail, steps, binary=False, code=None, close_code=None, gap=None):
        self.cap = cap
        self.k = k
        self.tail = tail
        self.steps = steps
        self.binary = binary
        self.code = code
        self.close_code = close_code
        self.gap = gap  # None -> quiescent; else list/int of yields per step

    def __repr__(self):
        return 'Case(cap=%r, k=%r, tail=%r, steps=%r, binary=%r, code=%r, close_code=%r, gap=%r)' % (
            self.cap,
            self.k,
            self.tail,
            ''.join(self.steps),
            self.binary,
            self.code,
            self.close_code,
            self.gap,
        )


async def cleanup(tasks, ws, server, expect_crash_ok=True):
    for t in tasks:
        if not t.done():
            t.cancel()
    await settle()
    closer = asyncio.ensure_future(ws.close())
    await settle()
    if not closer.done():
        closer.cancel()
        await settle()
        check(False, 'close() does not return')
    check(outcome_of(closer) in (('ok',), ('err', 'RuntimeError')), 'final close', outcome_of(closer))
    await settle()
    me = asyncio.current_task()
    stray = [t for t in asyncio.all_tasks() if t is not me and not t.done()]
    check(not stray, 'tasks left running after close', stray)
    check(server.waiter is None, 'a server receive call is still waiting after close')
    check(server.concurrent == 0, 'a server receive call is still active after close')


async def run_quiescent(case):
    events = build_events(case.k, case.tail, case.binary, case.code)
    server = Server(events, case.cap)
    model = Model(case.cap, events, case.binary)
    ws = make_ws(server, case.cap)
    tasks = []
    recv_task = None
    n_sent = 0

    def spawn(coro):
        t = asyncio.ensure_future(coro)
        tasks.append(t)
        return len(tasks) - 1, t

    def compare(where):
        for op, exp in model.out.items():
            act = outcome_of(tasks[op])
            check(act in exp, where, 'op', op, 'expected one of', sorted(map(repr, exp)), 'got', act)
        check(server.sent == model.sent, where, 'sent', server.sent, 'model', model.sent)
        check(
            server.calls_returned == model.pulled,
            where,
            'pulled from server',
            server.calls_returned,
            'model',
            model.pulled,
        )
        check(server.bound_violation is None, where, server.bound_violation)
        # what the application sees through the public flags
        if model.state == 'HANDSHAKE':
            check(ws.unaccepted and not ws.ready and not ws.closed, where, 'flags/handshake')
        else:
            closed = model.state == 'CLOSED' or (case.cap > 0 and model.cd)
            check(ws.closed == closed, where, 'closed flag', ws.closed, closed)
            check(ws.ready == (not closed), where, 'ready flag', ws.ready, not closed)
            check(not ws.unaccepted, where, 'unaccepted flag')

    op, _ = spawn(ws.accept())
    model.accept(op)
    await settle()
    compare('after accept')

    for i, step in enumerate(case.steps):
        where = 'step %d (%s)' % (i, step)
        if step == 'D':
            server.deliver()
            model.deliver()
        elif step == 'R':
            if model.pending is None:
                server.recv_requests += 1
                coro = ws.receive_data() if case.binary else ws.receive_text()
                op, recv_task = spawn(coro)
                model.recv(op)
        elif step == 'S':
            payload = (b's%d' % n_sent) if case.binary else ('s%d' % n_sent)
            n_sent += 1
            coro = ws.send_data(payload) if case.binary else ws.send_text(payload)
            op, _ = spawn(coro)
            model.send(op, payload)
        elif step == 'C':
            op, _ = spawn(ws.close(case.close_code))
            model.close(op, case.close_code)
        elif step == 'X':
            if model.cancel():
                recv_task.cancel()
        else:
            raise AssertionError(step)
        await settle()
        compare(where)

    # exactly-once / FIFO restated independently of the model
    got = [outcome_of(t)[1] for t in tasks if outcome_of(t)[0] == 'msg']
    want = [payload_of(e, case.binary) for e in events if e is not ERROR and e['type'] == 'websocket.receive']
    check(got == want[: len(got)], 'FIFO/once', got, want)

    await cleanup(tasks, ws, server)


async def run_racy(case):
    events = build_events(case.k, case.tail, case.binary, case.code)
    want = [payload_of(e, case.binary) for e in events if e is not ERROR and e['type'] == 'websocket.receive']
    server = Server(events, case.cap)
    ws = make_ws(server, case.cap)
    await ws.accept()
    tasks = []
    recv_tasks = []
    send_tasks = []
    recv_task = None
    closed_called = False
    n_sent = 0
    gaps = case.gap
    only_receiving = not (set(case.steps) & {'S', 'C'})

    for i, step in enumerate(case.steps):
        if step == 'D':
            server.deliver()
        elif step == 'R':
            if recv_task is None or recv_task.done():
                if closed_called and case.cap > 0:
                    pass  # receive after close is outside the promise
                else:
                    server.recv_requests += 1
                    coro = ws.receive_data() if case.binary else ws.receive_text()
                    recv_task = asyncio.ensure_future(coro)
                    tasks.append(recv_task)
                    recv_tasks.append(recv_task)
        elif step == 'S':
            payload = (b's%d' % n_sent) if case.binary else ('s%d' % n_sent)
            n_sent += 1
            coro = ws.send_data(payload) if case.binary else ws.send_text(payload)
            t = asyncio.ensure_future(coro)
            t.avail_at_start = server.avail
            tasks.append(t)
            send_tasks.append(t)
        elif step == 'C':
            closed_called = True
            tasks.append(asyncio.ensure_future(ws.close(case.close_code)))
        elif step == 'X':
            if recv_task is not None and not recv_task.done():
                recv_task.cancel()
        g = gaps[i % len(gaps)]
        await yields(g)
        check(server.bound_violation is None, 'step', i, server.bound_violation)

    await settle()
    check(server.bound_violation is None, server.bound_violation)

    if only_receiving:
        # drain: the application must now get everything that is left, in
        # order, then (if there is one) the disconnect with its code.
        for _ in range(len(events) + 2):
            server.deliver()
        await settle()
        final = None
        if recv_task is not None and not recv_task.done():
            pass
        for _ in range(len(events) + 2):
            if recv_task is None or recv_task.done():
                if recv_task is not None and outcome_of(recv_task)[0] not in ('msg', 'cancelled'):
                    break
                server.recv_requests += 1
                coro = ws.receive_data() if case.binary else ws.receive_text()
                recv_task = asyncio.ensure_future(coro)
                tasks.append(recv_task)
                recv_tasks.append(recv_task)
            await settle()
            if not recv_task.done():
                break
        outs = [outcome_of(t) for t in recv_tasks]
        got = [o[1] for o in outs if o[0] == 'msg']
        check(got == want, 'lossless FIFO after drain', got, want, outs)
        non = [o for o in outs if o[0] not in ('msg', 'cancelled')]
        if case.tail == 'disc':
            exp = ('wsd', 1000 if case.code is None else case.code)
            # (once reported, every further receive reports it again)
            check(non and set(non) == {exp}, 'disconnect after the messages', non, exp)
            # the disconnect came strictly after the last message
            check(outs.index(exp) > max([i for i, o in enumerate(outs) if o[0] == 'msg'] or [-1]), outs)
        elif case.tail == 'err':
            if case.cap > 0:
                check(non and set(non) == {('wsd', 1000)}, 'crash surfaces as disconnect', non)
            else:
                check(non[:1] == [('err', 'RuntimeError')], 'crash propagates (unbuffered)', non)
        else:
            check(non == [('pending',)], 'receive waits when nothing is left', non)
    else:
        outs = [outcome_of(t) for t in recv_tasks]
        got = [o[1] for o in outs if o[0] == 'msg']
        check(got == want[: len(got)], 'FIFO/once prefix', got, want)
        for o in outs:
            check(o[0] in ('msg', 'cancelled', 'wsd', 'pending', 'err'), 'unexpected receive outcome', o)
        d_index = len(events) - 1 if case.tail == 'disc' else None
        for t in send_tasks:
            o = outcome_of(t)
            check(o[0] in ('ok', 'wsd'), 'send outcome', o)
        # a send can only fail once a disconnect was actually delivered by
        # the server, or after close()/a failed receive
        if d_index is None and not closed_called and case.tail != 'err':
            for t in send_tasks:
                check(outcome_of(t) == ('ok',), 'spurious send failure', outcome_of(t))
        # promptness: once everything has settled, with the disconnect
        # pulled by the pump, a new send fails with the client's code
        if case.cap > 0 and not closed_called and d_index is not None:
            n_msgs = len(got)
            if server.calls_returned > d_index:
                t = asyncio.ensure_future(ws.send_text('late'))
                tasks.append(t)
                await settle()
                check(outcome_of(t)[0] == 'wsd', 'late send must fail', outcome_of(t))

    await cleanup(tasks, ws, server)


# --------------------------------------------------------------------------
# case generation
# --------------------------------------------------------------------------


def interleavings(a, b):
    """All merges of sequences a and b preserving the inner orders."""
    n = len(a) + len(b)
    for pos in itertools.combinations(range(n), len(a)):
        out = [None] * n
        ia = iter(a)
        for p in pos:
            out[p] = next(ia)
        ib = iter(b)
        for i in range(n):
            if out[i] is None:
                out[i] = next(ib)
        yield out


def gen_cases():
    rng = random.Random(1818)
    quiescent = []
    racy = []

    # exhaustive, small
    scripts = ['RRR', 'RSR', 'RXR', 'SRC', 'RCR', 'RRSC', 'XRSR', 'RRRR', 'CRS', 'SSRR']
    for cap in (0, 1, 2, 3, 4):
        for k, tail in ((0, 'disc'), (1, 'disc'), (2, 'disc'), (2, None), (1, 'err'), (3, 'disc')):
            n_events = k + (1 if tail else 0)
            for script in scripts:
                if k == 3 and script not in ('RRRR', 'RSR', 'RXR', 'RRSC'):
                    continue
                for steps in interleavings(['D'] * n_events, list(script)):
                    code = rng.choice([None, 1001, 3099, 1000])
                    close_code = rng.choice([None, None, 3005])
                    quiescent.append(
                        Case(cap, k, tail, steps, binary=(len(quiescent) % 5 == 0), code=code, close_code=close_code)
                    )

    # random, larger
    for _ in range(1500):
        cap = rng.choice([0, 1, 1, 2, 3, 4])
        k = rng.randint(0, 9)
        tail = rng.choice(['disc', 'disc', None, 'err'])
        n_events = k + (1 if tail else 0)
        n_app = rng.randint(1, 14)
        app = [rng.choice('RRRRRSSXC' if rng.random() < 0.5 else 'RRRRRSX') for _ in range(n_app)]
        steps = ['D'] * n_events + app
        rng.shuffle(steps)
        quiescent.append(
            Case(
                cap,
                k,
                tail,
                steps,
                binary=rng.random() < 0.3,
                code=rng.choice([None, 1000, 1001, 1006, 3000, 4999]),
                close_code=rng.choice([None, 1000, 3005, 4000]),
            )
        )

    # racy: exhaustive small
    for cap in (0, 1, 2, 3, 4):
        for k, tail in ((1, 'disc'), (2, 'disc'), (3, None), (2, 'err'), (4, 'disc')):
            n_events = k + (1 if tail else 0)
            for script in ('RRR', 'RXRR', 'RRXRR') if k < 4 else ('RRRR',):
                for steps in interleavings(['D'] * n_events, list(script)):
                    for gap in ([0], [1], [2], [0, 1], [3, 0]):
                        racy.append(Case(cap, k, tail, steps, gap=gap, code=rng.choice([None, 1001, 4321])))
    # racy: random, with sends and closes
    for _ in range(2500):
        cap = rng.choice([0, 1, 1, 2, 3, 4])
        k = rng.randint(0, 10)
        tail = rng.choice(['disc', 'disc', None, 'err'])
        n_events = k + (1 if tail else 0)
        n_app = rng.randint(1, 16)
        alphabet = rng.choice(['RRRX', 'RRRRSX', 'RRRRSXC', 'R'])
        app = [rng.choice(alphabet) for _ in range(n_app)]
        steps = ['D'] * n_events + app
        rng.shuffle(steps)
        gap = [rng.randint(0, 3) for _ in range(rng.randint(1, 4))]
        racy.append(
            Case(
                cap,
                k,
                tail,
                steps,
                binary=rng.random() < 0.3,
                code=rng.choice([None, 1000, 1001, 3000]),
                close_code=rng.choice([None, 3005]),
                gap=gap,
            )
        )
    return quiescent, racy


# --------------------------------------------------------------------------
# hard-coded corner cases on _BufferedReceiver / WebSocket
# --------------------------------------------------------------------------


def pump_tasks():
    me = asyncio.current_task()
    return [t for t in asyncio.all_tasks() if t is not me and not t.done()]


async def corner_cases():
    BR = ws_mod._BufferedReceiver
    n = 0

    # unbuffered receiver never starts anything
    for cap in (0, -1):
        srv = Server(build_events(2, 'disc', False, None), 0)
        br = BR(srv.receive, cap)
        base = len(pump_tasks())
        br.start()
        await settle()
        check(len(pump_tasks()) == base, 'start() with cap <= 0 must not start a task')
        check(srv.calls_started == 0)
        await br.stop()
        n += 1

    for cap in (1, 2, 3, 4):
        # start is idempotent, stop is idempotent, stop leaves nothing running
        srv = Server(build_events(6, 'disc', False, 1001), cap)
        srv.recv_requests = 10**6
        br = BR(srv.receive, cap)
        check(br.client_disconnected is False and br.client_disconnected_code is None)
        await br.stop()  # stop before start: no-op
        base = len(pump_tasks())
        br.start()
        br.start()
        await settle()
        check(len(pump_tasks()) == base + 1, 'exactly one pump task', pump_tasks())
        check(srv.calls_started == 1 and srv.calls_returned == 0)
        for _ in range(10):
            srv.deliver()
        await settle()
        # bounded: cap queued + one in hand, then it stops pulling
        check(srv.calls_returned == cap + 1, 'bound', srv.calls_returned, cap)
        check(br.client_disconnected is False)
        # FIFO
        for i in range(6):
            ev = await br.receive()
            check(ev == {'type': 'websocket.receive', 'text': '' if i == 0 else 'm%d' % i}, ev)
            await settle()
            check(srv.calls_returned == min(7, i + 1 + cap + 1), 'refill', i, srv.calls_returned)
            # disconnect flag raised as soon as the pump has pulled it,
            # i.e. possibly before the application got the messages
            check(br.client_disconnected is (srv.calls_returned == 7), 'flag', i)
            if br.client_disconnected:
                check(br.client_disconnected_code == 1001)
        ev = await br.receive()
        check(ev == {'type': 'websocket.disconnect', 'code': 1001}, ev)
        await settle()
        check(len(pump_tasks()) == base, 'pump finished after the disconnect')
        # the pump is finished: a further receive gets a synthesised event
        ev1 = await br.receive()
        ev2 = await br.receive()
        check(ev1 == {'type': 'websocket.disconnect'} and ev2 == ev1, ev1, ev2)
        check(ev1 is not ev2, 'synthesised disconnect events must be fresh dicts')
        ev1['code'] = 4000
        ev3 = await br.receive()
        check(ev3 == {'type': 'websocket.disconnect'}, 'aliasing of the synthesised event', ev3)
        await br.stop()
        await br.stop()
        # restart after the disconnect: the new pump ends at once, pulls nothing
        before = srv.calls_started
        br.start()
        await settle()
        check(len(pump_tasks()) == base and srv.calls_started == before, 'restart after disconnect')
        ev = await br.receive()
        check(ev == {'type': 'websocket.disconnect'}, ev)
        await br.stop()
        n += 1

        # stop cancels a pump that waits on the server / that waits for room
        for deliveries in (0, cap + 1, cap + 5):
            srv = Server(build_events(12, None, True, None), cap)
            srv.recv_requests = 10**6
            br = BR(srv.receive, cap)
            base = len(pump_tasks())
            br.start()
            for _ in range(deliveries):
                srv.deliver()
            await settle()
            check(srv.calls_returned == min(deliveries, cap + 1))
            await br.stop()
            check(len(pump_tasks()) == base, 'stop() leaves the pump running')
            check(srv.waiter is None and srv.concurrent == 0)
            # restart keeps what was queued (the in-hand one is lost with the
            # cancelled pump, as in the unmodified tree) and stays FIFO
            br.start()
            await settle()
            check(len(pump_tasks()) == base + 1)
            queued = min(deliveries, cap)
            for i in range(queued):
                ev = await br.receive()
                check(ev == {'type': 'websocket.receive', 'bytes': b'm%d' % i}, ev)
            await br.stop()
            check(len(pump_tasks()) == base)
            n += 1

        # cancellation of a pending receive loses nothing, in every gap
        for gap in (0, 1, 2, 3, 5):
            for deliver_first in (False, True):
                srv = Server(build_events(3, 'disc', False, None), cap)
                srv.recv_requests = 10**6
                br = BR(srv.receive, cap)
                br.start()
                await settle()
                t = asyncio.ensure_future(br.receive())
                await yields(gap)
                if deliver_first:
                    srv.deliver()
                    await yields(gap)
                t.cancel()
                await settle()
                for _ in range(5):
                    srv.deliver()
                await settle()
                seen = []
                if t.done() and not t.cancelled():
                    seen.append(t.result())
                for _ in range(4 - len(seen)):
                    seen.append(await br.receive())
                    await settle()
                check(
                    seen
                    == [
                        {'type': 'websocket.receive', 'text': ''},
                        {'type': 'websocket.receive', 'text': 'm1'},
                        {'type': 'websocket.receive', 'text': 'm2'},
                        {'type': 'websocket.disconnect'},
                    ],
                    'cancel loses/duplicates a message',
                    gap,
                    deliver_first,
                    seen,
                )
                check(br.client_disconnected and br.client_disconnected_code == 1000)
                await br.stop()
                n += 1

        # crash of the server callable
        srv = Server(build_events(2, 'err', False, None), cap)
        srv.recv_requests = 10**6
        br = BR(srv.receive, cap)
        br.start()
        for _ in range(3):
            srv.deliver()
        await settle()
        got = []
        for _ in range(2 if cap >= 2 else cap):
            got.append(await br.receive())
        # with cap 1 the pump holds m1 in hand and must place it first
        await settle()
        while len(got) < 2:
            got.append(await br.receive())
            await settle()
        check([g.get('text') for g in got] == ['', 'm1'], got)
        ev = await br.receive()
        check(ev == {'type': 'websocket.disconnect'}, ev)
        check(br.client_disconnected is False)
        try:
            await br.stop()
        except RuntimeError as ex:
            check(str(ex) == 'server blew up')
        else:
            check(False, 'stop() must surface the crash of the pump')
        n += 1

        # two overlapping stop() calls, and a stop() that is itself cancelled
        for variant in ('double', 'cancelled'):
            srv = Server(build_events(3, None, False, None), cap)
            srv.recv_requests = 10**6
            br = BR(srv.receive, cap)
            base = len(pump_tasks())
            br.start()
            srv.deliver()
            await settle()
            a = asyncio.ensure_future(br.stop())
            if variant == 'double':
                b = asyncio.ensure_future(br.stop())
                await settle()
                check(outcome_of(a) == ('ok',) and outcome_of(b) == ('ok',), outcome_of(a), outcome_of(b))
            else:
                await yields(1)
                a.cancel()
                await settle()
                check(a.done(), 'cancelled stop() must finish')
            check(len(pump_tasks()) == base, 'overlapping stop() leaves a task', variant)
            check(srv.waiter is None and srv.concurrent == 0)
            br.start()
            await settle()
            check(len(pump_tasks()) == base + 1, 'start() after stop() starts one pump', variant)
            ev = await br.receive()
            check(ev == {'type': 'websocket.receive', 'text': ''}, ev)
            await br.stop()
            check(len(pump_tasks()) == base)
            n += 1

    # WebSocket level: handshake corner cases and pump start/stop wiring
    for cap in (0, 1, 4):
        srv = Server(build_events(1, 'disc', False, None), cap)
        ws = make_ws(srv, cap)
        base = len(pump_tasks())
        check(ws.unaccepted and not ws.ready and not ws.closed)
        for coro in (ws.receive_text(), ws.send_text('x')):
            try:
                await coro
            except errors.OperationNotAllowed:
                pass
            else:
                check(False, 'operation allowed before accept')
        check(len(pump_tasks()) == base and srv.calls_started == 0, 'pump before accept')
        await ws.close(3001)  # deny
        check(srv.sent == [{'type': 'websocket.close', 'code': 3001}], srv.sent)
        check(ws.closed and not ws.ready)
        check(len(pump_tasks()) == base)
        n += 1

        srv = Server(build_events(1, 'disc', False, 1005), cap)
        ws = make_ws(srv, cap)
        await ws.accept()
        await settle()
        check(len(pump_tasks()) == base + (1 if cap > 0 else 0), 'pump after accept')
        for bad in ('1000', 999, 1004, 1015, 1999):
            try:
                await ws.close(bad)
            except ValueError:
                pass
            else:
                check(False, 'bad close code accepted', bad)
            # even a rejected close() stops the reader
            check(len(pump_tasks()) == base, 'pump after failed close')
        check(ws.ready and not ws.closed)
        await ws.close()
        check(ws.closed and srv.sent[-1] == {'type': 'websocket.close', 'code': 1000})
        n += 1
    return n


# --------------------------------------------------------------------------


async def stream_check():
    """Long conversations on _BufferedReceiver with a consumer that is slower,
    faster or as fast as the producer: both waiters are used many times."""
    BR = ws_mod._BufferedReceiver
    rng = random.Random(77)
    n = 0
    for cap in (1, 2, 3, 4):
        for regime in ('slow-consumer', 'slow-producer', 'mixed'):
            total = 120
            events = build_events(total, 'disc', False, 1001)
            srv = Server(events, cap)
            srv.recv_requests = 10**6
            br = BR(srv.receive, cap)
            br.start()
            got = []
            delivered = 0
            t = None
            while True:
                if regime == 'slow-consumer':
                    p_deliver = 0.8
                elif regime == 'slow-producer':
                    p_deliver = 0.2
                else:
                    p_deliver = 0.5
                if rng.random() < p_deliver:
                    srv.deliver()
                    delivered = min(delivered + 1, len(events))
                else:
                    if t is None:
                        t = asyncio.ensure_future(br.receive())
                await yields(rng.choice((0, 0, 1, 2, 5)))
                if t is not None and t.done():
                    got.append(t.result())
                    t = None
                    if got[-1]['type'] == 'websocket.disconnect':
                        break
                # bound, in real time: never more than cap + 1 ahead of what
                # the application has been handed (a finished, not yet
                # collected receive counts as handed over)
                handed = len(got) + (1 if t is not None and t.done() else 0)
                check(srv.calls_returned <= handed + cap + 1, 'bound', srv.calls_returned, handed, cap)
                if rng.random() < 0.1:
                    await settle()
                    if t is not None and t.done():
                        got.append(t.result())
                        t = None
                        if got[-1]['type'] == 'websocket.disconnect':
                            break
                    waiting = 1 if t is not None else 0
                    # at rest: everything that fits has been pulled, and a
                    # receive that could be satisfied is not left waiting
                    check(
                        srv.calls_returned == min(delivered, len(got) + cap + 1),
                        'pull at rest', srv.calls_returned, delivered, len(got), cap,
                    )
                    if waiting:
                        check(delivered == len(got), 'receive left waiting', delivered, len(got))
            check(got == events, 'stream FIFO/once', cap, regime)
            check(br.client_disconnected and br.client_disconnected_code == 1001)
            await settle()
            check(not pump_tasks(), 'pump alive after disconnect')
            await br.stop()
            n += 1
    return n

async def extra_checks():
    """Change 1 reshapes the wait loop of receive() and the guard of stop()."""
    n = await stream_check()
    BR = ws_mod._BufferedReceiver
    # receive() must go round its loop again when it was woken by the pump
    # (message path) and must give up when the pump is gone (both orders).
    for cap in (1, 2, 4):
        srv = Server(build_events(2, None, False, None), cap)
        srv.recv_requests = 10**6
        br = BR(srv.receive, cap)
        br.start()
        await settle()
        t = asyncio.ensure_future(br.receive())
        await settle()
        check(not t.done(), 'receive returned without a message')
        srv.deliver()
        await settle()
        check(outcome_of(t) == ('msg', {'type': 'websocket.receive', 'text': ''}), outcome_of(t))
        t = asyncio.ensure_future(br.receive())
        await settle()
        check(not t.done())
        # the pump goes away while a receive waits: stop() from another task
        s = asyncio.ensure_future(br.stop())
        await settle()
        check(outcome_of(s) == ('ok',))
        check(outcome_of(t) == ('msg', {'type': 'websocket.disconnect'}), outcome_of(t))
        check(not pump_tasks())
        # stop() again, and stop() on a never started receiver: no-ops
        await br.stop()
        br2 = BR(srv.receive, cap)
        await br2.stop()
        check(not pump_tasks())
        n += 1
    return n


async def main():
    quiescent, racy = gen_cases()
    failures = []
    loop = asyncio.get_running_loop()
    loop_errors = []
    loop.set_exception_handler(lambda l, ctx: loop_errors.append(ctx))

    async def reap():
        # do not let the leftovers of a failed case disturb the next one
        me = asyncio.current_task()
        for t in asyncio.all_tasks():
            if t is not me and not t.done():
                t.cancel()
        await yields(20)

    for case in quiescent:
        try:
            await run_quiescent(case)
        except CheckFailure as ex:
            failures.append((case, ex))
            await reap()
            if len(failures) > 5:
                break
    for case in racy:
        try:
            await run_racy(case)
        except CheckFailure as ex:
            failures.append((case, ex))
            await reap()
            if len(failures) > 10:
                break
    n_corner = 0
    try:
        n_corner = await asyncio.wait_for(corner_cases(), 30)
        n_corner += await asyncio.wait_for(EXTRA(), 30)
    except CheckFailure as ex:
        failures.append(('corner', ex))
    except asyncio.TimeoutError:
        failures.append(('corner', 'a corner case hangs'))

    # "Task exception was never retrieved" etc. would show up here
    import gc

    gc.collect()
    await settle()
    unexpected = [c for c in loop_errors if 'server blew up' not in repr(c.get('exception'))]
    if unexpected:
        failures.append(('loop', unexpected[:3]))

    if failures:
        for case, ex in failures[:10]:
            print('FAIL', case, '::', ex)
        print('FAIL (%d)' % len(failures))
        return 1
    print(
        'change %s: %d quiescent schedules, %d racy schedules, %d corner cases'
        % (CHANGE, len(quiescent), len(racy), n_corner)
    )
    print('PASS')
    return 0


EXTRA = extra_checks

if __name__ == '__main__':
    import signal

    def _watchdog(signum, frame):
        print('FAIL: watchdog, the check hangs')
        sys.stdout.flush()
        import os

        os._exit(1)

    signal.signal(signal.SIGALRM, _watchdog)
    signal.alarm(240)
    assert falcon.__file__, falcon
    sys.exit(asyncio.run(main()))
