"""C19 check for change 3 (falcon/util/misc.py: the LRU size of
http_status_to_code() and code_to_http_status() is a named module constant).

Exercises the promise of property C19 -- concurrent requests do not influence
one another, from the very first request -- on the two process-wide status
caches: threads hammering both functions with far more than 64 distinct
statuses of every accepted (and rejected) type, compared value by value with an
independent reference model; racing WSGI requests (threads) and ASGI requests
(tasks interleaving at every receive/send/await) on fresh apps whose
responders set resp.status in every accepted form, each compared with the
status line/code it must get in isolation; plus the general routed-request
races, and hard-coded expectations (cache size 64) from the unmodified tree.

Run as:  PYTHONPATH=<tree> /venv/bin/python check.py
"""
import asyncio
import datetime
import hashlib
import io
import json
import os
import random
import sys
import threading
import uuid

import falcon
import falcon.asgi
from falcon import testing
from falcon.routing import CompiledRouter

# Make the interpreter switch threads as often as it can, so that the racing
# first requests really interleave inside the router / the caches.
sys.setswitchinterval(1e-6)

SEED = int(os.environ.get('CHECK_SEED', '190019'))
FAILURES = []
COUNTS = {}


def count(name, n=1):
    COUNTS[name] = COUNTS.get(name, 0) + n


def expect(cond, what):
    if not cond:
        FAILURES.append(what)
        if len(FAILURES) > 25:
            finish()


def finish():
    if FAILURES:
        print('FAIL')
        for f in FAILURES[:25]:
            print('  -', f)
        sys.exit(1)
    print('PASS', ' '.join('%s=%d' % kv for kv in sorted(COUNTS.items())))
    sys.exit(0)


# ---------------------------------------------------------------------------
# Generated route families. Every route of an app has its own literal first
# segment ('r<i>'), so which route a generated path must hit -- and with which
# params -- is known by construction (this is the reference model).
# ---------------------------------------------------------------------------

TOKEN_ALPHABET = 'abcXYZ019_.~'


def tok(rng, lo=1, hi=6):
    return ''.join(rng.choice(TOKEN_ALPHABET) for _ in range(rng.randint(lo, hi)))


def fam_literal(i, rng):
    return '/r%d' % i, lambda r: ('/r%d' % i, {})


def fam_literal2(i, rng):
    return '/r%d/fixed/leaf' % i, lambda r: ('/r%d/fixed/leaf' % i, {})


def fam_str(i, rng):
    def fill(r):
        a = tok(r)
        return '/r%d/%s' % (i, a), {'a': a}

    return '/r%d/{a}' % i, fill


def fam_int(i, rng):
    def fill(r):
        n = r.choice([0, 7, 42, 1234567, r.randint(0, 10**9)])
        text = r.choice([str(n), '00' + str(n), '-' + str(n) if n else '0'])
        return '/r%d/%s' % (i, text), {'n': int(text)}

    return '/r%d/{n:int}' % i, fill


def fam_int3(i, rng):
    def fill(r):
        text = '%03d' % r.randint(0, 999)
        return '/r%d/v/%s' % (i, text), {'n': int(text)}

    return '/r%d/v/{n:int(3)}' % i, fill


def fam_uuid(i, rng):
    def fill(r):
        u = uuid.UUID(int=r.getrandbits(128))
        text = r.choice([str(u), u.hex, str(u).upper()])
        return '/r%d/%s/end' % (i, text), {'u': u}

    return '/r%d/{u:uuid}/end' % i, fill


def fam_nested(i, rng):
    def fill(r):
        a, b = tok(r), r.randint(0, 99999)
        return '/r%d/%s/x/%d' % (i, a, b), {'a': a, 'b': b}

    return '/r%d/{a}/x/{b:int}' % i, fill


def fam_complex(i, rng):
    def fill(r):
        a, b = tok(r), tok(r)
        return '/r%d/%s-%s.json' % (i, a, b), {'a': a, 'b': b}

    # NOTE: TOKEN_ALPHABET has no '-', so the split is unambiguous ('.' may
    # appear in b, but the pattern is anchored on the trailing '.json').
    return '/r%d/{a}-{b}.json' % i, fill


def fam_path(i, rng):
    def fill(r):
        segs = [tok(r) for _ in range(r.randint(1, 4))]
        return '/r%d/files/%s' % (i, '/'.join(segs)), {'p': '/'.join(segs)}

    return '/r%d/files/{p:path}' % i, fill


def fam_dt(i, rng):
    def fill(r):
        d = datetime.datetime(r.randint(1990, 2040), r.randint(1, 12), r.randint(1, 28))
        return '/r%d/%s' % (i, d.strftime('%Y-%m-%d')), {'d': d}

    return '/r%d/{d:dt("%%Y-%%m-%%d")}' % i, fill


def fam_two_levels(i, rng):
    def fill(r):
        a, b = tok(r), tok(r)
        return '/r%d/%s/%s' % (i, a, b), {'a': a, 'b': b}

    return '/r%d/{a}/{b}' % i, fill


FAMILIES = [
    fam_literal,
    fam_literal2,
    fam_str,
    fam_int,
    fam_int3,
    fam_uuid,
    fam_nested,
    fam_complex,
    fam_path,
    fam_dt,
    fam_two_levels,
]


def gen_routes(rng, n=None):
    n = n or rng.randint(1, 6)
    routes = []
    for i in range(n):
        template, fill = rng.choice(FAMILIES)(i, rng)
        routes.append((i, template, fill))
    return routes


def miss_path(rng, routes):
    """A path that is known not to match any of the generated routes."""
    i, template, fill = rng.choice(routes)
    return rng.choice(
        [
            '/nope',
            '/r%d/a/b/c/d/e/f/g' % (i + 100),
            '/r%dx' % i,
            '/',
            '//r%d' % (i + 50),
        ]
    )


def canon(value):
    """JSON-able canonical form of converted params."""
    if isinstance(value, dict):
        return {k: canon(v) for k, v in sorted(value.items())}
    if isinstance(value, uuid.UUID):
        return 'uuid:' + value.hex
    if isinstance(value, datetime.datetime):
        return 'dt:' + value.isoformat()
    if isinstance(value, bool) or not isinstance(value, (int, str)):
        return 'other:%r' % (value,)
    return value


# ---------------------------------------------------------------------------
# Router-level races (the lazy compile, the side tables, the params dict)
# ---------------------------------------------------------------------------


class Res:
    def __init__(self, i):
        self.i = i

    def on_get(self, req, resp, **kw):
        pass


def run_threads(fns):
    """Run the callables at the same time; return their results in order."""
    barrier = threading.Barrier(len(fns))
    out = [None] * len(fns)

    def runner(k):
        try:
            barrier.wait()
            out[k] = ('ok', fns[k]())
        except BaseException as ex:  # noqa: B036 -- reported as a failure
            out[k] = ('exc', '%s: %s' % (type(ex).__name__, ex))

    threads = [threading.Thread(target=runner, args=(k,)) for k in range(len(fns))]
    for t in threads:
        t.start()
    for t in threads:
        t.join()
    return out


def router_case(rng, case_no):
    routes = gen_routes(rng)
    router = CompiledRouter()
    resources = {}
    for i, template, fill in routes:
        resources[i] = Res(i)
        router.add_route(template, resources[i])

    def plan():
        if rng.random() < 0.2:
            return miss_path(rng, routes), None
        i, template, fill = rng.choice(routes)
        path, params = fill(rng)
        return path, (i, template, params)

    def check_round(label, nthreads):
        plans = [plan() for _ in range(nthreads)]
        results = run_threads(
            [(lambda p=p: router.find(p[0])) for p in plans]
        )
        seen_dicts = []
        for (path, want), (kind, got) in zip(plans, results):
            where = 'router case %d %s path %r' % (case_no, label, path)
            if kind != 'ok':
                expect(False, '%s raised %s' % (where, got))
                continue
            if want is None:
                expect(got is None, '%s: expected None, got %r' % (where, got))
                continue
            i, template, params = want
            if got is None or not isinstance(got, tuple) or len(got) != 4:
                expect(False, '%s: expected a 4-tuple, got %r' % (where, got))
                continue
            resource, method_map, got_params, uri_template = got
            expect(resource is resources[i], '%s: wrong resource' % where)
            expect(uri_template == template, '%s: template %r' % (where, uri_template))
            expect(
                type(got_params) is dict and got_params == params,
                '%s: params %r != %r' % (where, got_params, params),
            )
            expect(
                method_map.get('GET') is not None
                and getattr(method_map['GET'], '__self__', None) is resources[i],
                '%s: method map of another resource' % where,
            )
            seen_dicts.append(got_params)
        # Every call owns its params dict.
        expect(
            len({id(d) for d in seen_dicts}) == len(seen_dicts),
            'router case %d %s: params dict shared between calls' % (case_no, label),
        )
        for d in seen_dicts:
            d['__poison__'] = case_no
        count('router_finds', nthreads)

    # The very first lookups race to compile.
    check_round('first', rng.choice([2, 3]))
    check_round('warm', 2)

    # History: adding a route resets _find; the next lookups race to recompile
    # and the side tables are rebuilt from scratch.
    if rng.random() < 0.6:
        i = len(routes)
        template, fill = rng.choice(FAMILIES)(i, rng)
        resources[i] = Res(i)
        router.add_route(template, resources[i], compile=rng.random() < 0.3)
        routes.append((i, template, fill))
        check_round('after-add', rng.choice([2, 3]))

        # The side tables describe exactly the current tree (no leftovers).
        n_nodes = router.finder_src.count('return return_values[')
        expect(
            len(router._return_values) == n_nodes,
            'router case %d: %d return values for %d return statements'
            % (case_no, len(router._return_values), n_nodes),
        )
        expect(
            len(router._patterns) == router.finder_src.count('patterns['),
            'router case %d: stale patterns' % case_no,
        )
        expect(
            len(router._converters) == router.finder_src.count('converters['),
            'router case %d: stale converters' % case_no,
        )

    count('router_cases')


GOLDEN_TEMPLATES = [
    '/a',
    '/a/{x}',
    '/a/{x}/b/{y:int}',
    '/c/{u:uuid}',
    '/d/{p}-{q}.txt',
    '/e/{rest:path}',
    '/f/{n:int(2, min=10)}/g',
]


def golden_router_src():
    router = CompiledRouter()
    for k, template in enumerate(GOLDEN_TEMPLATES):
        router.add_route(template, Res(k))
    src1 = router.finder_src
    # Recompiling yields the same program and tables of the same sizes.
    sizes1 = (len(router._return_values), len(router._patterns), len(router._converters))
    router.add_route('/a', Res(99))
    src2 = router.finder_src
    sizes2 = (len(router._return_values), len(router._patterns), len(router._converters))
    return src1, src2, sizes1, sizes2


# ---------------------------------------------------------------------------
# App-level races: WSGI threads and ASGI tasks
# ---------------------------------------------------------------------------


class Boom(Exception):
    pass


def make_expected(spec):
    """Reference model: the response a request must get, whatever else runs."""
    tag = spec['tag']
    echo_hdr = ('x-echo', tag)
    if spec['want'] is None:
        return 404, echo_hdr, None
    i, template, params = spec['want']
    if spec['fail'] == 'http':
        return 409, echo_hdr, {'title': '409 Conflict', 'description': 'conflict ' + tag}
    if spec['fail'] == 'boom':
        return 418, echo_hdr, {'boom': tag, 'params': canon(params)}
    return (
        200,
        echo_hdr,
        {
            'route': i,
            'template': template,
            'params': canon(params),
            'tag': tag,
            'ctx': tag,
            'rsrc_params': canon(params),
            'query': spec['q'],
            'body': spec['body'],
            'accept_json': True,
        },
    )


def gen_specs(rng, routes, n):
    specs = []
    for k in range(n):
        if rng.random() < 0.15:
            path, want = miss_path(rng, routes), None
        else:
            i, template, fill = rng.choice(routes)
            path, params = fill(rng)
            want = (i, template, params)
        specs.append(
            {
                'path': path,
                'want': want,
                'tag': 't%d-%s' % (k, tok(rng, 3, 8)),
                'q': tok(rng, 1, 5),
                'body': tok(rng, 0, 40) * rng.choice([1, 1, 50]),
                'fail': rng.choice([None, None, None, 'http', 'boom']),
            }
        )
    return specs


def check_response(where, spec, status, headers, raw):
    want_status, (hname, hval), want_doc = make_expected(spec)
    expect(
        int(str(status)[:3]) == want_status,
        '%s: status %r, expected %d' % (where, status, want_status),
    )
    hdrs = {k.lower(): v for k, v in headers}
    expect(hdrs.get(hname) == hval, '%s: %s=%r, expected %r' % (where, hname, hdrs.get(hname), hval))
    if want_doc is not None:
        try:
            doc = json.loads(raw.decode())
        except ValueError:
            doc = raw
        expect(doc == want_doc, '%s: body %r, expected %r' % (where, doc, want_doc))


# -- WSGI ---------------------------------------------------------------


class WsgiMw:
    def process_request(self, req, resp):
        req.context.tag = req.get_header('X-Tag')

    def process_resource(self, req, resp, resource, params):
        req.context.rsrc_params = dict(params)

    def process_response(self, req, resp, resource, req_succeeded):
        resp.set_header('X-Echo', req.context.tag)


class WsgiRes:
    def __init__(self, i, template):
        self.i = i
        self.template = template

    def on_post(self, req, resp, **params):
        fail = req.get_header('X-Fail')
        if fail == 'http':
            raise falcon.HTTPConflict(description='conflict ' + req.get_header('X-Tag'))
        if fail == 'boom':
            raise Boom(req.get_header('X-Tag'))
        body = req.get_media()
        resp.media = {
            'route': self.i,
            'template': req.uri_template,
            'params': canon(params),
            'tag': req.get_header('x-tag'),
            'ctx': req.context.tag,
            'rsrc_params': canon(req.context.rsrc_params),
            'query': req.get_param('q'),
            'body': body['payload'],
            'accept_json': req.client_accepts_json,
        }


def wsgi_boom(req, resp, ex, params):
    resp.status = falcon.HTTP_418
    resp.media = {'boom': str(ex), 'params': canon(params)}


def make_wsgi_app(routes):
    app = falcon.App(middleware=[WsgiMw()])
    app.add_error_handler(Boom, wsgi_boom)
    for i, template, fill in routes:
        app.add_route(template, WsgiRes(i, template))
    return app


def call_wsgi(app, spec):
    body = json.dumps({'payload': spec['body']}).encode()
    headers = {
        'X-Tag': spec['tag'],
        'Content-Type': 'application/json',
        'Accept': 'text/html;q=0.1, application/json;q=0.9, */*;q=0.05',
    }
    if spec['fail']:
        headers['X-Fail'] = spec['fail']
    env = testing.create_environ(
        path=spec['path'],
        query_string='q=' + spec['q'],
        method='POST',
        headers=headers,
        body=body,
    )
    captured = {}

    def start_response(status, headers, exc_info=None):
        captured['status'] = status
        captured['headers'] = headers

    raw = b''.join(app(env, start_response))
    return captured['status'], captured['headers'], raw


def wsgi_case(rng, case_no):
    routes = gen_routes(rng)
    app = make_wsgi_app(routes)
    # Round 1: the first-ever requests race; round 2: warm app.
    for label in ('first', 'warm'):
        specs = gen_specs(rng, routes, rng.choice([2, 3]))
        results = run_threads([(lambda s=s: call_wsgi(app, s)) for s in specs])
        for spec, (kind, got) in zip(specs, results):
            where = 'wsgi case %d %s %r' % (case_no, label, spec['path'])
            if kind != 'ok':
                expect(False, '%s raised %s' % (where, got))
                continue
            check_response(where, spec, *got)
        count('wsgi_requests', len(specs))
    count('wsgi_cases')


# -- ASGI ---------------------------------------------------------------


class AsgiMw:
    async def process_request(self, req, resp):
        await asyncio.sleep(0)
        req.context.tag = req.get_header('X-Tag')

    async def process_resource(self, req, resp, resource, params):
        req.context.rsrc_params = dict(params)
        await asyncio.sleep(0)

    async def process_response(self, req, resp, resource, req_succeeded):
        await asyncio.sleep(0)
        resp.set_header('X-Echo', req.context.tag)


class AsgiRes:
    def __init__(self, i, template):
        self.i = i
        self.template = template

    async def on_post(self, req, resp, **params):
        fail = req.get_header('X-Fail')
        await asyncio.sleep(0)
        if fail == 'http':
            raise falcon.HTTPConflict(description='conflict ' + req.get_header('X-Tag'))
        if fail == 'boom':
            raise Boom(req.get_header('X-Tag'))
        body = await req.get_media()
        await asyncio.sleep(0)
        resp.media = {
            'route': self.i,
            'template': req.uri_template,
            'params': canon(params),
            'tag': req.get_header('x-tag'),
            'ctx': req.context.tag,
            'rsrc_params': canon(req.context.rsrc_params),
            'query': req.get_param('q'),
            'body': body['payload'],
            'accept_json': req.client_accepts_json,
        }


async def asgi_boom(req, resp, ex, params):
    await asyncio.sleep(0)
    resp.status = falcon.HTTP_418
    resp.media = {'boom': str(ex), 'params': canon(params)}


def make_asgi_app(routes):
    app = falcon.asgi.App(middleware=[AsgiMw()])
    app.add_error_handler(Boom, asgi_boom)
    for i, template, fill in routes:
        app.add_route(template, AsgiRes(i, template))
    return app


async def call_asgi(app, spec, rng_seed, extra_headers=None, method='POST', body=None):
    r = random.Random(rng_seed)
    if body is None:
        body = json.dumps({'payload': spec['body']}).encode()
    headers = {
        'X-Tag': spec['tag'],
        'Content-Type': 'application/json',
        'Accept': 'text/html;q=0.1, application/json;q=0.9, */*;q=0.05',
    }
    if spec.get('fail'):
        headers['X-Fail'] = spec['fail']
    headers.update(extra_headers or {})
    scope = testing.create_scope(
        path=spec['path'],
        query_string='q=' + spec['q'],
        method=method,
        headers=headers,
    )
    # Body delivered in chunks; every receive()/send() yields to the loop a
    # (seeded) random number of times, so that the tasks interleave at each
    # await point of the app in many different orders.
    step = r.choice([7, 64, 100000])
    chunks = [body[k : k + step] for k in range(0, len(body), step)] or [b'']
    state = {'next': 0}
    events = []

    async def receive():
        for _ in range(r.randint(0, 3)):
            await asyncio.sleep(0)
        k = state['next']
        if k < len(chunks):
            state['next'] = k + 1
            return {
                'type': 'http.request',
                'body': chunks[k],
                'more_body': k + 1 < len(chunks),
            }
        await asyncio.sleep(0)
        return {"type": "http.disconnect"}

    async def send(event):
        for _ in range(r.randint(0, 3)):
            await asyncio.sleep(0)
        events.append(event)

    await app(scope, receive, send)

    status = None
    hdrs = []
    raw = b''
    for event in events:
        if event['type'] == 'http.response.start':
            status = event['status']
            hdrs = [(k.decode('latin1'), v.decode('latin1')) for k, v in event['headers']]
        elif event['type'] == 'http.response.body':
            raw += event.get('body', b'')
    return status, hdrs, raw


async def gather_results(coros):
    return await asyncio.gather(*coros, return_exceptions=True)


def asgi_case(rng, case_no):
    routes = gen_routes(rng)
    app = make_asgi_app(routes)
    for label in ('first', 'warm'):
        specs = gen_specs(rng, routes, rng.choice([2, 3]))
        seeds = [rng.getrandbits(32) for _ in specs]
        results = asyncio.run(
            gather_results([call_asgi(app, s, sd) for s, sd in zip(specs, seeds)])
        )
        for spec, got in zip(specs, results):
            where = 'asgi case %d %s %r' % (case_no, label, spec['path'])
            if isinstance(got, BaseException):
                expect(False, '%s raised %s: %s' % (where, type(got).__name__, got))
                continue
            check_response(where, spec, *got)
        count('asgi_requests', len(specs))
    count('asgi_cases')


import http

from falcon import status_codes
from falcon.util import misc


def model_code_to_status(status):
    """Independent model of code_to_http_status(): ('ok', str) or ('exc', type)."""
    try:
        hash(status)
    except TypeError:
        return ('exc', 'TypeError')
    if isinstance(status, http.HTTPStatus):
        return ('ok', '%d %s' % (status.value, status.phrase))
    if isinstance(status, str) and ' ' in status:
        return ('ok', status)
    if isinstance(status, bytes) and b' ' in status:
        try:
            return ('ok', status.decode())
        except UnicodeDecodeError:
            return ('exc', 'UnicodeDecodeError')
    try:
        code = int(status)
    except (ValueError, TypeError):
        return ('exc', 'ValueError')
    except OverflowError:
        return ('exc', 'OverflowError')
    if code < 100 or code > 999:
        return ('exc', 'ValueError')
    return ('ok', getattr(status_codes, 'HTTP_%d' % code, '%d Unknown' % code))


def model_status_to_code(status):
    try:
        hash(status)
    except TypeError:
        return ('exc', 'TypeError')
    if isinstance(status, int):  # incl. HTTPStatus and bool
        return ('ok', int(status))
    if isinstance(status, bytes):
        try:
            status = status.decode()
        except UnicodeDecodeError:
            return ('exc', 'UnicodeDecodeError')
    if not isinstance(status, str) or len(status) < 3:
        return ('exc', 'ValueError')
    try:
        return ('ok', int(status[:3]))
    except ValueError:
        return ('exc', 'ValueError')


def status_inputs(rng):
    items = list(range(95, 135)) + list(range(195, 235)) + list(range(395, 435))
    items += [0, -1, -200, 99, 100, 999, 1000, 10**6, True, False]
    items += list(http.HTTPStatus)
    items += [str(c) for c in range(198, 212)] + ['%d Custom Reason %d' % (c, c) for c in range(520, 560)]
    items += [('%d' % c).encode() for c in range(300, 310)] + [b'404 Not Found', b'799 Whatever']
    # NOTE: no float that equals an int status (e.g. 200.0): functools.lru_cache
    #   (typed=False) keys it like the int, so its result depends on history in
    #   the unmodified tree already.
    items += [200.9, 99.9, float('nan'), float('inf'), -float('inf'), 1e30]
    items += ['', ' ', '20', 'abc', 'abcdef', ' 200', '200 ', '2 00', '٢٠٠', '200OK', '0200', '+200',
              '1_0_0', b'', b'ab', b'\xff\xfe\xfd', b'\xff \xfe', b' ', None, (200,), (), frozenset([404])]
    items += [[200], {'a': 1}, {200}, bytearray(b'200')]
    rng.shuffle(items)
    return items


def run_fn(fn, value):
    try:
        return ('ok', fn(value))
    except Exception as ex:
        return ('exc', type(ex).__name__)


def same(a, b):
    # NOTE: type-strict on results ('200' vs 200, True vs 1 must not be mixed
    # up), except that an int subclass passed through http_status_to_code()
    # unchanged is compared by value and by being an int.
    return a[0] == b[0] and a[1] == b[1] and (a[0] == 'exc' or isinstance(a[1], type(b[1])) or isinstance(b[1], type(a[1])))


def status_cache_case(rng, case_no):
    items = status_inputs(rng)

    def worker(seed):
        r = random.Random(seed)
        mine = list(items)
        r.shuffle(mine)
        bad = []
        for value in mine:
            got = run_fn(misc.code_to_http_status, value)
            want = model_code_to_status(value)
            if not same(got, want):
                bad.append('code_to_http_status(%r) -> %r, expected %r' % (value, got, want))
            got = run_fn(misc.http_status_to_code, value)
            want = model_status_to_code(value)
            if not same(got, want):
                bad.append('http_status_to_code(%r) -> %r, expected %r' % (value, got, want))
        return bad

    seeds = [rng.getrandbits(32) for _ in range(3)]
    for kind, got in run_threads([(lambda s=s: worker(s)) for s in seeds]):
        if kind != 'ok':
            expect(False, 'status cache case %d raised %s' % (case_no, got))
        else:
            for b in got[:5]:
                expect(False, 'status cache case %d: %s' % (case_no, b))
    count('status_calls', 3 * 2 * len(items))

    for fn in (misc.code_to_http_status, misc.http_status_to_code):
        info = fn.cache_info()
        expect(info.maxsize == 64, '%s: maxsize %r' % (fn.__name__, info.maxsize))
        expect(0 < info.currsize <= 64, '%s: currsize %r' % (fn.__name__, info.currsize))


STATUS_FORMS = [
    (lambda c: c, 'int'),
    (lambda c: str(c), 'str-code'),
    (lambda c: getattr(status_codes, 'HTTP_%d' % c, '%d Unknown' % c), 'str-line'),
    (lambda c: ('%d Tailored-%d' % (c, c)), 'str-custom'),
    (lambda c: ('%d Bytes Line' % c).encode(), 'bytes-line'),
    (lambda c: http.HTTPStatus(c) if c in set(http.HTTPStatus) else c, 'enum'),
]
STATUS_CODES = [200, 201, 202, 204, 301, 400, 404, 409, 418, 422, 500, 503, 299, 599, 720]


def expected_line(code, form_name):
    if form_name == 'str-custom':
        return '%d Tailored-%d' % (code, code)
    if form_name == 'bytes-line':
        return '%d Bytes Line' % code
    if form_name == 'enum' and code in set(http.HTTPStatus):
        return '%d %s' % (code, http.HTTPStatus(code).phrase)
    return getattr(status_codes, 'HTTP_%d' % code, '%d Unknown' % code)


class WsgiStatusRes:
    def on_get(self, req, resp, code, form):
        make, name = STATUS_FORMS[form]
        resp.status = make(code)
        resp.text = '%s|%d|%d' % (req.get_header('X-Tag'), code, resp.status_code)


class AsgiStatusRes:
    async def on_get(self, req, resp, code, form):
        make, name = STATUS_FORMS[form]
        await asyncio.sleep(0)
        resp.status = make(code)
        await asyncio.sleep(0)
        resp.text = '%s|%d|%d' % (req.get_header('X-Tag'), code, resp.status_code)


def gen_status_specs(rng, n):
    specs = []
    for k in range(n):
        code = rng.choice(STATUS_CODES + [rng.randint(100, 999)])
        form = rng.randrange(len(STATUS_FORMS))
        specs.append({
            'path': '/s/%d/%d' % (code, form), 'code': code, 'form': form,
            'tag': 's%d-%s' % (k, tok(rng, 3, 6)), 'q': 'x', 'body': '',
        })
    return specs


def check_status_response(where, spec, status, raw):
    name = STATUS_FORMS[spec['form']][1]
    code = spec['code']
    if isinstance(status, int):  # ASGI sends the integer code
        expect(status == code, '%s: status %r, expected %d' % (where, status, code))
    else:
        want = expected_line(code, name)
        expect(status == want, '%s: status line %r, expected %r' % (where, status, want))
    no_body = code < 200 or code in (204, 304)
    if not no_body:
        want_body = '%s|%d|%d' % (spec['tag'], code, code)
        expect(raw.decode() == want_body, '%s: body %r, expected %r' % (where, raw, want_body))


def wsgi_status_case(rng, case_no):
    app = falcon.App()
    app.add_route('/s/{code:int}/{form:int}', WsgiStatusRes())
    specs = gen_status_specs(rng, 3)

    def call(spec):
        env = testing.create_environ(path=spec['path'], headers={'X-Tag': spec['tag']})
        captured = {}

        def start_response(status, headers, exc_info=None):
            captured['status'] = status

        raw = b''.join(app(env, start_response))
        return captured['status'], raw

    for spec, (kind, got) in zip(specs, run_threads([(lambda s=s: call(s)) for s in specs])):
        where = 'wsgi status case %d %r' % (case_no, spec['path'])
        if kind != 'ok':
            expect(False, '%s raised %s' % (where, got))
        else:
            check_status_response(where, spec, *got)
    count('wsgi_status_requests', len(specs))


def asgi_status_case(rng, case_no):
    app = falcon.asgi.App()
    app.add_route('/s/{code:int}/{form:int}', AsgiStatusRes())
    specs = gen_status_specs(rng, 3)
    seeds = [rng.getrandbits(32) for _ in specs]
    results = asyncio.run(gather_results(
        [call_asgi(app, s, sd, method='GET', body=b'') for s, sd in zip(specs, seeds)]
    ))
    for spec, got in zip(specs, results):
        where = 'asgi status case %d %r' % (case_no, spec['path'])
        if isinstance(got, BaseException):
            expect(False, '%s raised %s: %s' % (where, type(got).__name__, got))
        else:
            check_status_response(where, spec, got[0], got[2])
    count('asgi_status_requests', len(specs))


def main():
    rng = random.Random(SEED)

    # Hard-coded expectations from the unmodified tree.
    for fn in (misc.code_to_http_status, misc.http_status_to_code):
        expect(fn.cache_info().maxsize == 64, '%s: maxsize' % fn.__name__)
        expect(fn.cache_parameters() == {'maxsize': 64, 'typed': False},
               '%s: cache parameters %r' % (fn.__name__, fn.cache_parameters()))
    expect(misc.code_to_http_status(200) == '200 OK', 'code_to_http_status(200)')
    expect(misc.code_to_http_status(798) == '798 Unknown', 'code_to_http_status(798)')
    expect(misc.code_to_http_status(799) == '799 End of the world', 'code_to_http_status(799)')
    expect(misc.code_to_http_status('404') == '404 Not Found', "code_to_http_status('404')")
    expect(misc.code_to_http_status(b'404 nope') == '404 nope', "code_to_http_status(b'404 nope')")
    expect(misc.http_status_to_code('404 Not Found') == 404, 'http_status_to_code')
    expect(misc.http_status_to_code(http.HTTPStatus.IM_A_TEAPOT) == 418, 'http_status_to_code(enum)')
    expect(falcon.code_to_http_status is misc.code_to_http_status
           and falcon.http_status_to_code is misc.http_status_to_code, 'public aliases')
    expect('_STATUS_LRU_MAXSIZE' not in misc.__all__ and not hasattr(falcon, '_STATUS_LRU_MAXSIZE'),
           'a private name leaked into the public namespace')

    for n in range(12):
        status_cache_case(rng, n)
    for n in range(120):
        wsgi_status_case(rng, n)
    for n in range(120):
        asgi_status_case(rng, n)
    for n in range(60):
        wsgi_case(rng, n)
    for n in range(60):
        asgi_case(rng, n)
    finish()


if __name__ == '__main__':
    main()
