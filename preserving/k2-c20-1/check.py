"""Check for property C20: the built-in CORS policy grants exactly the
configured origins.

Run as:  PYTHONPATH=<tree> /venv/bin/python check.py

The program compares falcon's behaviour against a small, independently
written reference model of the CORS decision table (see ``model()``), whose
expectations were taken from the UNMODIFIED tree.  It has five sections:

  A. constructor normalisation of allow_origins / expose_headers /
     allow_credentials (values, types, errors, error order);
  B. CORSMiddleware.process_response / process_response_async called directly
     on WSGI and ASGI request/response objects for a few thousand generated
     (config x origin x method x preflight headers x pre-set headers x
     req_succeeded) cells;
  C. end-to-end WSGI and ASGI apps (routed, custom on_options, pre-set CORS
     headers, failing responders, sink, static route, unrouted) alone and
     combined with other middleware;
  D. cors_enable wiring and the duplicate guard of App.add_middleware;
  E. the same direct calls with DEBUG logging switched on everywhere (logging
     must not change any outcome).
"""

import asyncio
import itertools
import logging
import os
import random
import sys
import tempfile

import falcon
import falcon.asgi
from falcon import testing
from falcon.middleware import CORSMiddleware

ACAO = 'access-control-allow-origin'
ACAC = 'access-control-allow-credentials'
ACEH = 'access-control-expose-headers'
ACAM = 'access-control-allow-methods'
ACAH = 'access-control-allow-headers'
ACMA = 'access-control-max-age'
GRANTS = (ACAO, ACAC, ACEH, ACAM, ACAH, ACMA)

ANY = object()

FAILURES = []
COUNT = [0]


def expect(cond, what):
    COUNT[0] += 1
    if not cond:
        FAILURES.append(what)
        if len(FAILURES) <= 15:
            print('FAIL:', what)


# ---------------------------------------------------------------------------
# Reference model
# ---------------------------------------------------------------------------


class Cfg:
    """Reference normalisation of a CORS configuration."""

    def __init__(self, origins, expose, creds):
        # NOTE: the factories below give a fresh iterable per use
        if isinstance(origins, str) and origins == '*':
            self.origins = ANY
        elif isinstance(origins, str):
            self.origins = {origins}
        else:
            self.origins = set(origins)
        if expose is None or isinstance(expose, str):
            self.expose = expose
        else:
            self.expose = ', '.join(list(expose))
        if creds is None:
            self.creds = set()
        elif isinstance(creds, str) and creds == '*':
            self.creds = ANY
        elif isinstance(creds, str):
            self.creds = {creds}
        else:
            self.creds = set(creds)


def model(cfg, origin, method, acrm, acrh, preset, succeeded):
    """Return the expected response headers (lower-cased names)."""
    h = {k.lower(): v for k, v in preset.items()}
    if origin is None:
        return h
    if cfg.origins is not ANY and origin not in cfg.origins:
        return h
    if ACAO not in h:
        if cfg.creds is ANY or origin in cfg.creds:
            h[ACAC] = 'true'
            h[ACAO] = origin
        elif cfg.origins is ANY:
            h[ACAO] = '*'
        else:
            h[ACAO] = origin
    if cfg.expose:
        h[ACEH] = cfg.expose
    if succeeded and method == 'OPTIONS' and acrm:
        allow = h.pop('allow', None)
        if allow is None:
            for name in GRANTS:
                h.pop(name, None)
        else:
            h[ACAM] = allow
            h[ACAH] = '*' if acrh is None else acrh
            h[ACMA] = '86400'
    return h


def safety(cfg, origin, method, acrm, preset, succeeded, got, ctx):
    """Model-independent statement of the unsafe cells (must be empty).

    Only applied when the responder did not pre-set any CORS header itself.
    """
    if any(k.lower() in GRANTS for k in preset):
        return
    allowed = origin is not None and (cfg.origins is ANY or origin in cfg.origins)
    if not allowed:
        expect(not any(g in got for g in GRANTS), 'grant without allowed origin ' + ctx)
        return
    if ACAC in got:
        expect(cfg.creds is ANY or origin in cfg.creds, 'creds not configured ' + ctx)
        expect(got.get(ACAO) == origin, 'creds without echo ' + ctx)
        if origin != '*':
            expect(got.get(ACAO) != '*', 'wildcard with creds ' + ctx)
    if ACAO in got:
        expect(got[ACAO] in ('*', origin), 'foreign origin granted ' + ctx)
        if got[ACAO] == '*' and origin != '*':
            expect(cfg.origins is ANY, 'wildcard for a non-wildcard cfg ' + ctx)
    preflight_ok = (
        succeeded and method == 'OPTIONS' and bool(acrm) and 'allow' in
        {k.lower() for k in preset}
    )
    if not preflight_ok:
        expect(
            not any(g in got for g in (ACAM, ACAH, ACMA)),
            'preflight approved wrongly ' + ctx,
        )
    if succeeded and method == 'OPTIONS' and acrm:
        expect('allow' not in got, 'Allow not removed ' + ctx)
        if not preflight_ok:
            expect(not any(g in got for g in GRANTS), 'grants not withdrawn ' + ctx)


# ---------------------------------------------------------------------------
# Configuration space
# ---------------------------------------------------------------------------

A, B, C = 'http://a.example', 'http://b.example', 'https://c.example:8443'

# factories, so that one-shot iterables (generators) are fresh each time
ORIGIN_CFGS = [
    ('star', lambda: '*'),
    ('strA', lambda: A),
    ('listAB', lambda: [A, B]),
    ('tupleB', lambda: (B,)),
    ('setABC', lambda: {A, B, C}),
    ('frozenA', lambda: frozenset([A])),
    ('empty', lambda: []),
    ('genAB', lambda: (o for o in (A, B))),
    ('dupes', lambda: [A, A, A]),
    ('emptystr', lambda: ''),
]
CRED_CFGS = [
    ('none', lambda: None),
    ('star', lambda: '*'),
    ('strA', lambda: A),
    ('listB', lambda: [B]),
    ('setAC', lambda: {A, C}),
    ('empty', lambda: ()),
    ('genC', lambda: (o for o in (C,))),
    ('foreign', lambda: ['http://zzz.example']),
]
EXPOSE_CFGS = [
    ('none', lambda: None),
    ('emptystr', lambda: ''),
    ('str', lambda: 'X-One'),
    ('list2', lambda: ['X-One', 'X-Two']),
    ('emptylist', lambda: []),
    ('tuple1', lambda: ('X-Only',)),
    ('gen', lambda: (x for x in ('X-G1', 'X-G2', 'X-G3'))),
]
REQ_ORIGINS = [
    None,
    A,
    B,
    C,
    A.upper(),
    'HTTP://a.example',
    A + '/',
    'http://A.example',
    'http://zzz.example',
    '*',
    'null',
    '',
    'http://a.example.evil.test',
]
METHODS = ['GET', 'POST', 'OPTIONS', 'DELETE', 'HEAD', 'options']
ACRMS = [None, 'GET', 'PATCH', '']
ACRHS = [None, 'X-Custom', 'Content-Type, X-A', '', '*']
PRESETS = [
    {},
    {'Allow': 'GET, POST'},
    {'Allow': 'GET'},
    {'Allow': ''},
    {'Content-Length': '0'},
    {'Allow': 'GET', 'Access-Control-Allow-Origin': 'preset.example'},
    {'Access-Control-Allow-Origin': 'preset.example'},
    {'Access-Control-Allow-Credentials': 'true'},
    {'Allow': 'PUT', 'Access-Control-Allow-Credentials': 'true'},
    {
        'Access-Control-Allow-Origin': 'x',
        'Access-Control-Allow-Credentials': 'true',
        'Access-Control-Expose-Headers': 'X-P',
        'Access-Control-Allow-Methods': 'PUT',
        'Access-Control-Allow-Headers': 'X-H',
        'Access-Control-Max-Age': '1',
    },
    {
        'Allow': 'GET, PUT',
        'Access-Control-Allow-Origin': 'x',
        'Access-Control-Expose-Headers': 'X-P',
        'Access-Control-Allow-Methods': 'PUT',
        'Access-Control-Allow-Headers': 'X-H',
        'Access-Control-Max-Age': '1',
    },
    {'Access-Control-Expose-Headers': 'X-P', 'Allow': 'GET'},
]


def all_cfgs():
    return list(itertools.product(ORIGIN_CFGS, EXPOSE_CFGS, CRED_CFGS))


def build(ocfg, ecfg, ccfg):
    mw = CORSMiddleware(
        allow_origins=ocfg[1](), expose_headers=ecfg[1](), allow_credentials=ccfg[1]()
    )
    ref = Cfg(ocfg[1](), ecfg[1](), ccfg[1]())
    return mw, ref


# ---------------------------------------------------------------------------
# A. constructor normalisation
# ---------------------------------------------------------------------------


def section_a():
    for ocfg, ecfg, ccfg in all_cfgs():
        ctx = 'cfg(%s,%s,%s)' % (ocfg[0], ecfg[0], ccfg[0])
        mw, ref = build(ocfg, ecfg, ccfg)
        if ref.origins is ANY:
            expect(mw.allow_origins == '*' and type(mw.allow_origins) is str, ctx + ' o*')
        else:
            expect(type(mw.allow_origins) is frozenset, ctx + ' otype')
            expect(mw.allow_origins == ref.origins, ctx + ' oval')
        if ref.creds is ANY:
            expect(
                mw.allow_credentials == '*' and type(mw.allow_credentials) is str,
                ctx + ' c*',
            )
        else:
            expect(type(mw.allow_credentials) is frozenset, ctx + ' ctype')
            expect(mw.allow_credentials == ref.creds, ctx + ' cval')
        expect(mw.expose_headers == ref.expose, ctx + ' expose')
        expect(
            type(mw.expose_headers) is type(ref.expose), ctx + ' expose type'
        )
        expect(
            sorted(vars(mw)) == ['allow_credentials', 'allow_origins', 'expose_headers'],
            ctx + ' attrs',
        )

    # defaults
    mw = CORSMiddleware()
    expect(mw.allow_origins == '*', 'default origins')
    expect(mw.expose_headers is None, 'default expose')
    expect(mw.allow_credentials == frozenset(), 'default creds')
    expect(type(mw.allow_credentials) is frozenset, 'default creds type')

    # positional order of the three configuration arguments
    mw = CORSMiddleware([A], ['X-1'], [B])
    expect(
        (mw.allow_origins, mw.expose_headers, mw.allow_credentials)
        == (frozenset([A]), 'X-1', frozenset([B])),
        'positional',
    )

    # wildcard inside an iterable is refused, with the documented messages
    msg_o = (
        'The wildcard string "*" may only be passed to allow_origins as a '
        'string literal, not inside an iterable.'
    )
    msg_c = (
        'The wildcard string "*" may only be passed to allow_credentials '
        'as a string literal, not inside an iterable.'
    )
    bad = [['*'], ('*',), {'*'}, [A, '*'], ['*', A, B], (x for x in (A, '*')), frozenset(['*'])]
    for i, factory in enumerate(bad):
        for which in ('o', 'c', 'both'):
            kw = {}
            if which in ('o', 'both'):
                kw['allow_origins'] = list(factory) if i != 5 else (x for x in (A, '*'))
            if which in ('c', 'both'):
                kw['allow_credentials'] = list(factory) if i != 5 else (x for x in (A, '*'))
            try:
                CORSMiddleware(**kw)
            except ValueError as ex:
                want = msg_c if which == 'c' else msg_o
                expect(str(ex) == want, 'bad wildcard message %s %s: %s' % (i, which, ex))
                expect(type(ex) is ValueError, 'bad wildcard type')
            else:
                expect(False, 'wildcard in iterable accepted %s %s' % (i, which))

    # error order: the allow_origins complaint precedes a broken
    # expose_headers, which precedes the allow_credentials complaint
    try:
        CORSMiddleware(allow_origins=['*'], expose_headers=[1, 2])
    except ValueError as ex:
        expect(str(ex) == msg_o, 'order o/e')
    except TypeError:
        expect(False, 'order o/e: TypeError first')
    try:
        CORSMiddleware(expose_headers=[1, 2], allow_credentials=['*'])
    except TypeError:
        expect(True, 'order e/c')
    except ValueError:
        expect(False, 'order e/c: ValueError first')
    else:
        expect(False, 'order e/c: nothing raised')

    # non-iterables are a TypeError, as today
    for kw in (
        {'allow_origins': 5},
        {'allow_credentials': 5},
        {'allow_origins': None},
        {'expose_headers': 5},
    ):
        try:
            CORSMiddleware(**kw)
        except TypeError:
            expect(True, 'typeerror')
        except Exception as ex:  # pragma: nocover
            expect(False, 'wrong exception for %r: %r' % (kw, ex))
        else:
            expect(False, 'no exception for %r' % (kw,))

    # a str subclass equal to '*' is the wildcard; ' *' or '**' are not
    class S(str):
        pass

    mw = CORSMiddleware(allow_origins=S('*'), allow_credentials=S('*'))
    expect(mw.allow_origins == '*' and mw.allow_credentials == '*', 'str subclass star')
    mw = CORSMiddleware(allow_origins='**', allow_credentials=' *')
    expect(mw.allow_origins == frozenset(['**']), 'double star')
    expect(mw.allow_credentials == frozenset([' *']), 'space star')

    # the configured iterables are copied, not aliased
    src_o, src_c = [A], [A]
    mw = CORSMiddleware(allow_origins=src_o, allow_credentials=src_c)
    src_o.append(B)
    src_c.append(B)
    expect(mw.allow_origins == frozenset([A]), 'alias origins')
    expect(mw.allow_credentials == frozenset([A]), 'alias creds')


# ---------------------------------------------------------------------------
# B. direct calls of process_response / process_response_async
# ---------------------------------------------------------------------------


def req_headers(origin, acrm, acrh):
    h = {}
    if origin is not None:
        h['Origin'] = origin
    if acrm is not None:
        h['Access-Control-Request-Method'] = acrm
    if acrh is not None:
        h['Access-Control-Request-Headers'] = acrh
    return h


def got_headers(resp):
    return {k.lower(): v for k, v in resp.headers.items()}


def one_direct(mw, ref, asgi, origin, method, acrm, acrh, preset, succeeded, ctx, loop):
    headers = req_headers(origin, acrm, acrh)
    if asgi:
        req = testing.create_asgi_req(method=method, headers=headers)
        resp = falcon.asgi.Response()
    else:
        req = testing.create_req(method=method, headers=headers)
        resp = falcon.Response()
    if method != req.method:
        # the testing helpers upper-case the method; a server would not
        req.method = method
    expect(req.method == method, 'method setup ' + ctx)
    expect(req.get_header('Origin') == origin, 'origin setup ' + ctx)
    for k, v in preset.items():
        resp.set_header(k, v)
    resource = object()
    if asgi:
        rv = loop.run_until_complete(
            mw.process_response_async(req, resp, resource, succeeded)
        )
    else:
        rv = mw.process_response(req, resp, resource, succeeded)
    expect(rv is None, 'return value ' + ctx)
    got = got_headers(resp)
    want = model(ref, origin, method, acrm, acrh, preset, succeeded)
    expect(got == want, 'direct %s: got %r want %r' % (ctx, got, want))
    expect(list(got) == list(want), 'header order %s: got %r want %r' % (ctx, list(got), list(want)))
    safety(ref, origin, method, acrm, preset, succeeded, got, ctx)
    if origin is None:
        expect(got == {k.lower(): v for k, v in preset.items()}, 'untouched ' + ctx)


def section_b(seed=20, n_random=5000, tag='B'):
    rnd = random.Random(seed)
    loop = asyncio.new_event_loop()
    try:
        cfgs = all_cfgs()
        # 1. every configuration, against a rotating slice of the request space
        cells = list(
            itertools.product(REQ_ORIGINS, METHODS, ACRMS, ACRHS, PRESETS, (True, False))
        )
        rnd.shuffle(cells)
        pos = 0
        for ocfg, ecfg, ccfg in cfgs:
            mw, ref = build(ocfg, ecfg, ccfg)
            for _ in range(6):
                origin, method, acrm, acrh, preset, succ = cells[pos % len(cells)]
                pos += 1
                for asgi in (False, True):
                    ctx = '%s cfg(%s,%s,%s) asgi=%s o=%r m=%s acrm=%r acrh=%r pre=%r ok=%s' % (
                        tag, ocfg[0], ecfg[0], ccfg[0], asgi, origin, method, acrm, acrh,
                        sorted(preset), succ,
                    )
                    one_direct(
                        mw, ref, asgi, origin, method, acrm, acrh, preset, succ, ctx, loop
                    )
        # 2. the full preflight decision table for a handful of configurations
        focus = [
            (ORIGIN_CFGS[0], EXPOSE_CFGS[0], CRED_CFGS[0]),
            (ORIGIN_CFGS[0], EXPOSE_CFGS[2], CRED_CFGS[1]),
            (ORIGIN_CFGS[0], EXPOSE_CFGS[3], CRED_CFGS[2]),
            (ORIGIN_CFGS[2], EXPOSE_CFGS[0], CRED_CFGS[1]),
            (ORIGIN_CFGS[2], EXPOSE_CFGS[3], CRED_CFGS[3]),
            (ORIGIN_CFGS[4], EXPOSE_CFGS[1], CRED_CFGS[4]),
        ]
        for ocfg, ecfg, ccfg in focus:
            mw, ref = build(ocfg, ecfg, ccfg)
            for origin, method, acrm, preset, succ in itertools.product(
                (None, A, B, 'http://zzz.example', '*'),
                ('GET', 'OPTIONS'),
                (None, 'GET', ''),
                PRESETS,
                (True, False),
            ):
                acrh = rnd.choice(ACRHS)
                asgi = rnd.random() < 0.5
                ctx = '%s-table cfg(%s,%s,%s) asgi=%s o=%r m=%s acrm=%r acrh=%r pre=%r ok=%s' % (
                    tag, ocfg[0], ecfg[0], ccfg[0], asgi, origin, method, acrm, acrh,
                    sorted(preset), succ,
                )
                one_direct(mw, ref, asgi, origin, method, acrm, acrh, preset, succ, ctx, loop)
        # 3. random cells
        for i in range(n_random):
            ocfg, ecfg, ccfg = rnd.choice(cfgs)
            mw, ref = build(ocfg, ecfg, ccfg)
            origin = rnd.choice(REQ_ORIGINS)
            method = rnd.choice(METHODS)
            acrm = rnd.choice(ACRMS)
            acrh = rnd.choice(ACRHS)
            preset = rnd.choice(PRESETS)
            succ = rnd.random() < 0.6
            asgi = rnd.random() < 0.5
            ctx = '%s-rnd#%d cfg(%s,%s,%s) asgi=%s o=%r m=%s acrm=%r acrh=%r pre=%r ok=%s' % (
                tag, i, ocfg[0], ecfg[0], ccfg[0], asgi, origin, method, acrm, acrh,
                sorted(preset), succ,
            )
            one_direct(mw, ref, asgi, origin, method, acrm, acrh, preset, succ, ctx, loop)

        # 4. one instance reused across a history of requests keeps no state
        mw, ref = build(ORIGIN_CFGS[2], EXPOSE_CFGS[3], CRED_CFGS[3])
        before = dict(vars(mw))
        for i in range(300):
            origin = rnd.choice(REQ_ORIGINS)
            method = rnd.choice(METHODS)
            acrm = rnd.choice(ACRMS)
            acrh = rnd.choice(ACRHS)
            preset = rnd.choice(PRESETS)
            succ = rnd.random() < 0.6
            asgi = rnd.random() < 0.5
            one_direct(
                mw, ref, asgi, origin, method, acrm, acrh, preset, succ,
                '%s-history#%d' % (tag, i), loop,
            )
        after = {
            k: v for k, v in vars(mw).items() if k in before
        }
        expect(after == before, tag + ' configuration mutated by requests')

        # 5. the three public attributes are read live on every request: a
        #    policy re-assigned after construction (any container type) is the
        #    one that is enforced
        late = [
            ([A, B], (A,), 'X-Late'),
            ((B,), [B], None),
            ({A: 1, C: 2}, {C: 1}, 'X-1, X-2'),
            ('*', [A], ''),
            ({A, B, C}, '*', 'X-Late'),
            ([], '*', 'X-Late'),
        ]
        for j, (o, c, e) in enumerate(late):
            mw = CORSMiddleware()
            mw.allow_origins = o
            mw.allow_credentials = c
            mw.expose_headers = e
            ref = Cfg(o, e, c)
            for i in range(120):
                origin = rnd.choice(REQ_ORIGINS)
                method = rnd.choice(METHODS)
                acrm = rnd.choice(ACRMS)
                acrh = rnd.choice(ACRHS)
                preset = rnd.choice(PRESETS)
                succ = rnd.random() < 0.6
                asgi = rnd.random() < 0.5
                one_direct(
                    mw, ref, asgi, origin, method, acrm, acrh, preset, succ,
                    '%s-late#%d/%d o=%r m=%s acrm=%r pre=%r ok=%s'
                    % (tag, j, i, origin, method, acrm, sorted(preset), succ), loop,
                )
    finally:
        loop.close()


# ---------------------------------------------------------------------------
# C. end to end
# ---------------------------------------------------------------------------


class Plain:
    def on_get(self, req, resp):
        resp.text = 'ok'

    def on_post(self, req, resp):
        resp.text = 'ok'


class PlainAsync:
    async def on_get(self, req, resp):
        resp.text = 'ok'

    async def on_post(self, req, resp):
        resp.text = 'ok'


class NoAllow:
    def on_get(self, req, resp):
        resp.text = 'ok'

    def on_options(self, req, resp):
        resp.set_header('Content-Length', '0')


class NoAllowAsync:
    async def on_get(self, req, resp):
        resp.text = 'ok'

    async def on_options(self, req, resp):
        resp.set_header('Content-Length', '0')


def _preset_all(resp):
    resp.set_header('Access-Control-Allow-Origin', 'preset.example')
    resp.set_header('Access-Control-Allow-Methods', 'PUT')
    resp.set_header('Access-Control-Allow-Headers', 'X-H')
    resp.set_header('Access-Control-Max-Age', '1')
    resp.set_header('Access-Control-Expose-Headers', 'X-P')


PRESET_ALL = {
    ACAO: 'preset.example',
    ACAM: 'PUT',
    ACAH: 'X-H',
    ACMA: '1',
    ACEH: 'X-P',
}


class Preset:
    def on_get(self, req, resp):
        resp.set_header('Access-Control-Allow-Origin', 'preset.example')

    def on_options(self, req, resp):
        _preset_all(resp)
        if req.get_param('allow'):
            resp.set_header('Allow', 'GET')


class PresetAsync:
    async def on_get(self, req, resp):
        resp.set_header('Access-Control-Allow-Origin', 'preset.example')

    async def on_options(self, req, resp):
        _preset_all(resp)
        if req.get_param('allow'):
            resp.set_header('Allow', 'GET')


class Failing:
    def on_get(self, req, resp):
        raise falcon.HTTPForbidden()

    def on_post(self, req, resp):
        resp.set_header('Allow', 'POST')
        raise ZeroDivisionError('boom')

    def on_options(self, req, resp):
        resp.set_header('Allow', 'GET, POST')
        raise falcon.HTTPBadRequest()


class FailingAsync:
    async def on_get(self, req, resp):
        raise falcon.HTTPForbidden()

    async def on_post(self, req, resp):
        resp.set_header('Allow', 'POST')
        raise ZeroDivisionError('boom')

    async def on_options(self, req, resp):
        resp.set_header('Allow', 'GET, POST')
        raise falcon.HTTPBadRequest()


def sink(req, resp, **kw):
    if req.method == 'OPTIONS' and req.path.endswith('/allow'):
        resp.set_header('Allow', 'GET, PATCH')
    resp.text = 'sunk'


async def sink_async(req, resp, **kw):
    if req.method == 'OPTIONS' and req.path.endswith('/allow'):
        resp.set_header('Allow', 'GET, PATCH')
    resp.text = 'sunk'


class OtherMW:
    def process_request(self, req, resp):
        resp.set_header('X-Other-Req', '1')

    def process_response(self, req, resp, resource, req_succeeded):
        resp.set_header('X-Other', 'yes' if req_succeeded else 'no')


class OtherMWAsync:
    async def process_request(self, req, resp):
        resp.set_header('X-Other-Req', '1')

    async def process_response(self, req, resp, resource, req_succeeded):
        resp.set_header('X-Other', 'yes' if req_succeeded else 'no')


class RejectMW:
    """Fails every request that carries X-Reject (before routing)."""

    def process_request(self, req, resp):
        if req.get_header('X-Reject'):
            raise falcon.HTTPUnauthorized()


class RejectMWAsync:
    async def process_request(self, req, resp):
        if req.get_header('X-Reject'):
            raise falcon.HTTPUnauthorized()


def handle_zero(req, resp, ex, params):
    resp.status = falcon.HTTP_500
    resp.text = 'zero'


async def handle_zero_async(req, resp, ex, params):
    resp.status = falcon.HTTP_500
    resp.text = 'zero'


# target -> method -> (succeeded, Allow value left by the target (or None),
#                      CORS headers pre-set by the target)
# Allow values that falcon computes itself are compared as sets of methods.
def target_table(static_ok):
    t = {
        '/plain': {
            'GET': (True, None, {}),
            'POST': (True, None, {}),
            'OPTIONS': (True, 'GET, POST', {}),
            'DELETE': (False, 'GET, POST, OPTIONS', {}),
        },
        '/noallow': {
            'GET': (True, None, {}),
            'OPTIONS': (True, None, {}),
            'DELETE': (False, 'GET, OPTIONS', {}),
        },
        '/preset': {
            'GET': (True, None, {ACAO: 'preset.example'}),
            'OPTIONS': (True, None, dict(PRESET_ALL)),
        },
        '/preset?allow=1': {
            'GET': (True, None, {ACAO: 'preset.example'}),
            'OPTIONS': (True, 'GET', dict(PRESET_ALL)),
        },
        '/failing': {
            'GET': (False, None, {}),
            'POST': (False, 'POST', {}),
            'OPTIONS': (False, 'GET, POST', {}),
        },
        '/sink/x': {
            'GET': (True, None, {}),
            'OPTIONS': (True, None, {}),
        },
        '/sink/allow': {
            'GET': (True, None, {}),
            'OPTIONS': (True, 'GET, PATCH', {}),
        },
        '/static/hello.txt': {
            'GET': (True, None, {}),
            'OPTIONS': (True, 'GET', {}),
        },
        '/static/missing.txt': {
            'GET': (False, None, {}),
            'OPTIONS': (True, 'GET', {}),
        },
        '/nowhere': {
            'GET': (False, None, {}),
            'OPTIONS': (False, None, {}),
            'POST': (False, None, {}),
        },
    }
    return t


def make_app(asgi, mode, ocfg, ecfg, ccfg, static_dir, extra, independent):
    """mode: 'flag' (cors_enable=True, default policy), 'explicit' (a
    configured CORSMiddleware instance), 'none' (no CORS at all)."""
    other = OtherMWAsync() if asgi else OtherMW()
    reject = RejectMWAsync() if asgi else RejectMW()
    cls = falcon.asgi.App if asgi else falcon.App
    mws = []
    if extra == 'before':
        mws = [reject, other]
    if mode == 'explicit':
        mws.append(
            CORSMiddleware(
                allow_origins=ocfg[1](),
                expose_headers=ecfg[1](),
                allow_credentials=ccfg[1](),
            )
        )
    if extra == 'after':
        mws += [reject, other]
    kw = {'independent_middleware': independent}
    if mode == 'flag':
        kw['cors_enable'] = True
    if mws:
        if len(mws) == 1 and mode == 'flag':
            kw['middleware'] = mws[0]
        else:
            kw['middleware'] = mws
    app = cls(**kw)
    app.add_route('/plain', PlainAsync() if asgi else Plain())
    app.add_route('/noallow', NoAllowAsync() if asgi else NoAllow())
    app.add_route('/preset', PresetAsync() if asgi else Preset())
    app.add_route('/failing', FailingAsync() if asgi else Failing())
    app.add_sink(sink_async if asgi else sink, '/sink')
    app.add_static_route('/static', static_dir)
    app.add_error_handler(ZeroDivisionError, handle_zero_async if asgi else handle_zero)
    return app


def methods_set(value):
    return frozenset(m.strip() for m in value.split(','))


def normalise(h):
    """Compare Allow / Allow-Methods as sets (their order is falcon's own)."""
    out = dict(h)
    for k in ('allow', ACAM):
        if k in out:
            out[k] = methods_set(out[k])
    return out


def section_c(seed=7):
    rnd = random.Random(seed)
    tmp = tempfile.mkdtemp(prefix='c20check')
    with open(os.path.join(tmp, 'hello.txt'), 'w') as f:
        f.write('hello')
    try:
        table = target_table(True)
        cells = [
            (path, method) for path, methods in table.items() for method in methods
        ]
        app_specs = []
        # the default policy through the cors_enable flag
        for asgi in (False, True):
            for extra in (None, 'before', 'after'):
                for independent in (True, False):
                    app_specs.append((asgi, 'flag', ORIGIN_CFGS[0], EXPOSE_CFGS[0],
                                      CRED_CFGS[0], extra, independent))
        # configured policies
        picked = [
            (ORIGIN_CFGS[0], EXPOSE_CFGS[2], CRED_CFGS[1]),
            (ORIGIN_CFGS[0], EXPOSE_CFGS[3], CRED_CFGS[2]),
            (ORIGIN_CFGS[1], EXPOSE_CFGS[0], CRED_CFGS[0]),
            (ORIGIN_CFGS[2], EXPOSE_CFGS[3], CRED_CFGS[3]),
            (ORIGIN_CFGS[2], EXPOSE_CFGS[1], CRED_CFGS[1]),
            (ORIGIN_CFGS[4], EXPOSE_CFGS[5], CRED_CFGS[4]),
            (ORIGIN_CFGS[6], EXPOSE_CFGS[2], CRED_CFGS[1]),
            (ORIGIN_CFGS[7], EXPOSE_CFGS[6], CRED_CFGS[6]),
        ]
        for i, (ocfg, ecfg, ccfg) in enumerate(picked):
            for asgi in (False, True):
                extra = (None, 'before', 'after')[i % 3]
                independent = (i % 4) != 3
                app_specs.append((asgi, 'explicit', ocfg, ecfg, ccfg, extra, independent))
        # no CORS at all: nothing is ever added
        for asgi in (False, True):
            app_specs.append((asgi, 'none', ORIGIN_CFGS[0], EXPOSE_CFGS[0], CRED_CFGS[0],
                              'before', True))

        origins = [None, A, B, 'http://zzz.example', A.upper()]
        for spec in app_specs:
            asgi, mode, ocfg, ecfg, ccfg, extra, independent = spec
            app = make_app(asgi, mode, ocfg, ecfg, ccfg, tmp, extra, independent)
            client = testing.TestClient(app)
            ref = Cfg(ocfg[1](), ecfg[1](), ccfg[1]())
            for path, method in cells:
                succeeded, allow, preset_cors = table[path][method]
                for origin in rnd.sample(origins, 3):
                    acrm = rnd.choice([None, 'GET', 'GET'])
                    acrh = rnd.choice([None, 'X-Custom, X-B'])
                    reject = extra is not None and rnd.random() < 0.15
                    headers = req_headers(origin, acrm, acrh)
                    if reject:
                        headers['X-Reject'] = '1'
                    ctx = 'C asgi=%s mode=%s cfg(%s,%s,%s) extra=%s indep=%s %s %s o=%r acrm=%r acrh=%r rej=%s' % (
                        asgi, mode, ocfg[0], ecfg[0], ccfg[0], extra, independent,
                        method, path, origin, acrm, acrh, reject,
                    )
                    p, _, q = path.partition('?')
                    result = client.simulate_request(
                        method, p, query_string=q or None, headers=headers
                    )
                    got = {
                        k: v
                        for k, v in result.headers.lower_items()
                        if k in GRANTS or k == 'allow'
                    }
                    # what the target leaves on the response
                    preset = dict(preset_cors)
                    succ = succeeded
                    if reject:
                        # the request never reaches the target
                        preset = {}
                        succ = False
                    elif allow is not None:
                        preset['allow'] = allow
                    # with dependent middleware, a request rejected by an
                    # earlier component never runs the later components'
                    # process_response (cors_enable appends its component last)
                    cors_runs = mode != 'none'
                    if reject and not independent and (extra == 'before' or mode == 'flag'):
                        cors_runs = False
                    if cors_runs:
                        want = model(ref, origin, method, acrm, acrh, preset, succ)
                    else:
                        want = dict(preset)
                    expect(
                        normalise(got) == normalise(want),
                        'e2e %s: got %r want %r' % (ctx, got, want),
                    )
                    if cors_runs:
                        safety(ref, origin, method, acrm, preset, succ, got, ctx)
                    # the other middleware is not disturbed
                    if extra is not None and not reject:
                        expect(
                            result.headers.get('X-Other') == ('yes' if succ else 'no'),
                            'other middleware outcome ' + ctx,
                        )
                    if origin is None or mode == 'none':
                        expect(
                            not any(g in got for g in GRANTS if g not in preset),
                            'no-origin request touched ' + ctx,
                        )
    finally:
        for name in os.listdir(tmp):
            os.unlink(os.path.join(tmp, name))
        os.rmdir(tmp)


# ---------------------------------------------------------------------------
# D. cors_enable wiring and duplicate guard
# ---------------------------------------------------------------------------


def cors_count(app):
    return sum(1 for m in app._unprepared_middleware if isinstance(m, CORSMiddleware))


class SubCORS(CORSMiddleware):
    pass


def section_d():
    for asgi in (False, True):
        cls = falcon.asgi.App if asgi else falcon.App
        other_cls = OtherMWAsync if asgi else OtherMW
        tag = 'D asgi=%s ' % asgi

        def gen(items):
            return (m for m in items)

        o1, o2 = other_cls(), other_cls()
        shapes = [
            ('none', lambda: None, []),
            ('emptylist', lambda: [], []),
            ('emptytuple', lambda: (), []),
            ('single', lambda: o1, [o1]),
            ('list1', lambda: [o1], [o1]),
            ('list2', lambda: [o1, o2], [o1, o2]),
            ('tuple2', lambda: (o2, o1), [o2, o1]),
            ('gen2', lambda: gen([o1, o2]), [o1, o2]),
            ('iter1', lambda: iter([o2]), [o2]),
        ]
        for name, factory, others in shapes:
            # without the flag: nothing is added
            app = cls(middleware=factory())
            expect(cors_count(app) == 0, tag + name + ' flag off count')
            expect(app._unprepared_middleware == others, tag + name + ' flag off list')
            expect(app._cors_enable is False, tag + name + ' flag off attr')
            # with the flag: exactly one default-policy instance, appended last
            app = cls(middleware=factory(), cors_enable=True)
            um = app._unprepared_middleware
            expect(type(um) is list, tag + name + ' list type')
            expect(cors_count(app) == 1, tag + name + ' flag on count')
            expect(um[:-1] == others, tag + name + ' flag on order')
            cm = um[-1]
            expect(type(cm) is CORSMiddleware, tag + name + ' flag on last')
            expect(
                cm.allow_origins == '*'
                and cm.expose_headers is None
                and cm.allow_credentials == frozenset(),
                tag + name + ' default policy',
            )
            expect(app._cors_enable is True, tag + name + ' flag on attr')
            # adding further non-CORS middleware is fine, in any shape
            extra = other_cls()
            app.add_middleware(extra)
            app.add_middleware([other_cls(), other_cls()])
            app.add_middleware(gen([other_cls()]))
            app.add_middleware([])
            app.add_middleware(None)
            expect(cors_count(app) == 1, tag + name + ' after add count')
            expect(len(app._unprepared_middleware) == len(others) + 5, tag + name + ' len')
            expect(app._unprepared_middleware[len(others) + 1] is extra, tag + name + ' pos')
            # a second CORS component is refused, whatever its shape, and the
            # refused call leaves the list untouched
            snapshot = list(app._unprepared_middleware)
            for dup_name, dup in (
                ('bare', lambda: CORSMiddleware()),
                ('list', lambda: [CORSMiddleware(allow_origins=A)]),
                ('mixed', lambda: [other_cls(), CORSMiddleware(), other_cls()]),
                ('gen', lambda: gen([CORSMiddleware()])),
                ('sub', lambda: SubCORS()),
                ('two', lambda: [CORSMiddleware(), CORSMiddleware()]),
            ):
                try:
                    app.add_middleware(dup())
                except ValueError as ex:
                    expect(
                        str(ex)
                        == 'CORSMiddleware is not allowed in conjunction with '
                        'cors_enable (which already constructs one instance)',
                        tag + name + dup_name + ' message',
                    )
                else:
                    expect(False, tag + name + ' duplicate accepted ' + dup_name)
                expect(
                    app._unprepared_middleware == snapshot,
                    tag + name + dup_name + ' list changed by refused call',
                )

        # cors_enable together with a CORS component passed to the initializer
        for name, factory in (
            ('bare', lambda: CORSMiddleware()),
            ('list', lambda: [CORSMiddleware()]),
            ('mixed', lambda: [other_cls(), CORSMiddleware(allow_origins=[A])]),
            ('tuple', lambda: (CORSMiddleware(), other_cls())),
            ('gen', lambda: gen([CORSMiddleware()])),
            ('sub', lambda: [SubCORS()]),
        ):
            try:
                cls(middleware=factory(), cors_enable=True)
            except ValueError:
                expect(True, 'dup')
            else:
                expect(False, tag + 'init duplicate accepted ' + name)

        # without the flag several CORS components are the user's business
        app = cls(middleware=[CORSMiddleware(), CORSMiddleware()])
        app.add_middleware(CORSMiddleware())
        expect(cors_count(app) == 3, tag + 'flag off several')

        # falsy cors_enable values
        for flag in (False, 0, None, ''):
            app = cls(cors_enable=flag)
            expect(cors_count(app) == 0, tag + 'falsy flag %r' % (flag,))
        for flag in (True, 1, 'yes'):
            app = cls(cors_enable=flag)
            expect(cors_count(app) == 1, tag + 'truthy flag %r' % (flag,))
            try:
                app.add_middleware(CORSMiddleware())
            except ValueError:
                expect(True, 'dup')
            else:
                expect(False, tag + 'truthy flag dup accepted %r' % (flag,))


# ---------------------------------------------------------------------------
# E. logging switched on
# ---------------------------------------------------------------------------


class _Collect(logging.Handler):
    def __init__(self):
        super().__init__(level=logging.DEBUG)
        self.records = []

    def emit(self, record):
        # force the formatting, as a real handler would
        self.records.append(record.getMessage())


def section_e():
    root = logging.getLogger()
    flogger = logging.getLogger('falcon')
    handler = _Collect()
    old_root, old_f = root.level, flogger.level
    root.addHandler(handler)
    root.setLevel(logging.DEBUG)
    flogger.setLevel(logging.DEBUG)
    try:
        section_b(seed=99, n_random=1200, tag='E')
    finally:
        root.removeHandler(handler)
        root.setLevel(old_root)
        flogger.setLevel(old_f)
    # nothing above WARNING may ever come out of the CORS policy
    expect(
        not any('Traceback' in r for r in handler.records), 'logging produced a traceback'
    )


def main():
    section_a()
    na = COUNT[0]
    section_b()
    nb = COUNT[0]
    section_c()
    nc = COUNT[0]
    section_d()
    nd = COUNT[0]
    section_e()
    ne = COUNT[0]
    print(
        'checks: A=%d B=%d C=%d D=%d E=%d total=%d'
        % (na, nb - na, nc - nb, nd - nc, ne - nd, ne)
    )
    print('falcon from:', os.path.dirname(falcon.__file__))
    if FAILURES:
        print('FAILED: %d of %d checks' % (len(FAILURES), COUNT[0]))
        sys.exit(1)
    print('PASS')


if __name__ == '__main__':
    main()
