#!/usr/bin/env python
"""Property C02 check: dispatch picks route, then sink/static by recency;
404 / 405 / OPTIONS are exact.

Run as:  PYTHONPATH=<falcon tree> /venv/bin/python check.py

The program builds several hundred randomly generated app configurations
(routes with / without suffix, resources implementing arbitrary subsets of the
HTTP / WebDAV methods, sinks with arbitrary prefix patterns, static routes,
both values of sink_before_static_route, WSGI and ASGI) and sends a spread of
request methods and paths to each.  Every observation is compared against a
small, independent reference model written below (it never calls into
falcon's routing code).  In addition the building blocks the mechanisms are
made of (map_http_methods, set_default_responders, the default responders,
App._get_responder with legacy routers) are exercised directly against
hard-coded expectations taken from the unmodified tree.

Prints PASS and exits 0 when every expectation holds.
"""

import asyncio
import os
import random
import re
import shutil
import sys
import tempfile
import warnings

import falcon
import falcon.asgi
from falcon import responders
from falcon import testing
from falcon.routing import util as rutil
from falcon.routing.static import StaticRoute

warnings.filterwarnings('ignore', 'Unknown REQUEST_METHOD')

# Which change this copy of the program accompanies (1-4); the section that
# touches the changed code most directly gets a larger share of the cases.
FOCUS = 4

SEED = 20261001

# NOTE: written out by hand on purpose (independent from falcon.constants).
HTTP = ['CONNECT', 'DELETE', 'GET', 'HEAD', 'OPTIONS', 'PATCH', 'POST', 'PUT', 'TRACE']
WEBDAV = [
    'CHECKIN', 'CHECKOUT', 'COPY', 'LOCK', 'MKCOL', 'MOVE', 'PROPFIND',
    'PROPPATCH', 'REPORT', 'UNCHECKIN', 'UNLOCK', 'UPDATE', 'VERSION-CONTROL',
]  # fmt: skip
KNOWN = HTTP + WEBDAV
UNKNOWN = 'SETECASTRONOMY'

FAILURES = []
COUNTS = {}


def fail(section, msg):
    FAILURES.append('[%s] %s' % (section, msg))
    if len(FAILURES) > 25:
        finish()


def tick(section, n=1):
    COUNTS[section] = COUNTS.get(section, 0) + n


def finish():
    for f in FAILURES[:25]:
        print('FAIL', f)
    print('cases per section:', COUNTS)
    if FAILURES:
        print('FAILED (%d failures)' % len(FAILURES))
        sys.exit(1)
    print('PASS')
    sys.exit(0)


# ---------------------------------------------------------------------------
# Reference model
# ---------------------------------------------------------------------------

TEMPLATES = [
    '/',
    '/a',
    '/a/b',
    '/items',
    '/items/{id}',
    '/items/{id}/sub',
    '/files/{name}',
    '/s/{x}/{y}',
    '/static/id.txt',
    '/o5',
]

PATHS = [
    '/', '/a', '/a/', '/a/b', '/a/b/c', '/items', '/items/', '/items/7',
    '/items/abc', '/items/7/sub', '/items/7/other', '/files/id.txt',
    '/files/missing.txt', '/files', '/files/', '/s', '/s/', '/s/1', '/s/12/34',
    '/s/id.txt', '/static/id.txt', '/static/nope', '/static', '/o', '/o5',
    '/o5/x', '/nomatch', '/UPPER/Case', '/id.txt', '/A',
]  # fmt: skip

SINK_PATTERNS = [
    r'/',
    r'/s',
    r'/s/(?P<id>\d+)',
    r'/(?P<a>[^/]+)/(?P<b>[^/]+)',
    r'/files',
    r'/items',
    r'/items/(?P<id>[a-z]+)$',
    r'/o(?P<x>\d+)?',
    r'/a$',
    r'/static/(?P<rest>.*)',
    r'/nomatch',
    r'(?i)/upper',
]

STATIC_PREFIXES = ['/files', '/s', '/static/', '/', '/items/', '/o5']


def model_match_template(template, path):
    """Independent template matcher: same number of segments, literal
    segments compare equal, a {field} takes the segment as is (also when the
    segment is empty -- behaviour observed on the unmodified tree)."""
    t_segs = template.split('/')[1:]
    p_segs = path.split('/')[1:]
    if len(t_segs) != len(p_segs):
        return None
    fields = {}
    for t, p in zip(t_segs, p_segs):
        if t.startswith('{') and t.endswith('}'):
            fields[t[1:-1]] = p
        elif t != p:
            return None
    return fields


class ResSpec:
    def __init__(self, rid, plain, suffixed, ws_plain, ws_suffixed, noncallable, style):
        self.rid = rid
        self.plain = frozenset(plain)
        self.suffixed = frozenset(suffixed)
        self.ws_plain = ws_plain
        self.ws_suffixed = ws_suffixed
        self.noncallable = frozenset(noncallable)
        self.style = style  # 'class' or 'instance'


class Config:
    def __init__(self):
        self.sbs = False
        self.ops = []  # ('route', template, ResSpec, suffix) | ('sink', sid, pattern, compiled?) | ('static', k, prefix, fallback)


def model_routes(cfg):
    """template -> (spec, suffix); the last add_route() for a template wins;
    an add_route() that must be refused (suffix without any suffixed
    responder) leaves the table untouched."""
    table = {}
    for op in cfg.ops:
        if op[0] != 'route':
            continue
        _, template, spec, suffix = op
        if suffix and not (spec.suffixed or spec.ws_suffixed):
            continue
        table[template] = (spec, suffix)
    return table


def model_fallbacks(cfg):
    sinks = [op for op in cfg.ops if op[0] == 'sink']
    statics = [op for op in cfg.ops if op[0] == 'static']
    sinks.reverse()
    statics.reverse()
    return sinks + statics if cfg.sbs else statics + sinks


def model_static_match(prefix, fallback, path):
    if not prefix.endswith('/'):
        prefix += '/'
    if path.startswith(prefix):
        return prefix
    if fallback and path == prefix[:-1]:
        return prefix
    return None


def model_expect(cfg, method, path):
    """Return a dict describing what must be observed."""
    if method == 'WEBSOCKET':
        # meta method: rejected for HTTP before routing
        return {'kind': 'meta', 'status': 400, 'calls': []}

    for template, (spec, suffix) in model_routes(cfg).items():
        fields = model_match_template(template, path)
        if fields is None:
            continue
        impl = spec.suffixed if suffix else spec.plain
        base = {'template': template, 'spec': spec, 'fields': fields, 'suffix': suffix}
        if method in impl:
            name = 'on_' + method.lower() + ('_' + suffix if suffix else '')
            base.update(
                kind='responder',
                name=name,
                status=204 if method == 'OPTIONS' else 200,
                calls=[('res', spec.rid, name, fields)],
            )
        elif method == 'OPTIONS':
            base.update(kind='auto-options', status=200, allow=', '.join(sorted(impl)), calls=[])
        elif method in KNOWN:
            allowed = sorted(impl)
            if 'OPTIONS' not in impl:
                allowed.append('OPTIONS')
            base.update(kind='405', status=405, allow=', '.join(allowed), calls=[])
        else:
            base.update(kind='400', status=400, calls=[])
        return base

    for op in model_fallbacks(cfg):
        if op[0] == 'sink':
            _, sid, pattern, _ = op
            m = re.compile(pattern).match(path)
            if m:
                return {
                    'kind': 'sink',
                    'sid': sid,
                    'params': m.groupdict(),
                    'status': 200,
                    'calls': [('sink', sid, m.groupdict())],
                }
        else:
            _, k, prefix, fallback = op
            norm = model_static_match(prefix, fallback, path)
            if norm is None:
                continue
            exp = {'kind': 'static', 'k': k, 'calls': []}
            if method == 'OPTIONS':
                exp.update(status=200, allow='GET', length='0', body=None)
                return exp
            filename = path[len(norm) :]
            if filename == 'id.txt':
                body = 'S' * (10 + k)
            elif fallback:
                body = 'F' * (100 + k)
            else:
                exp.update(status=404, body=None, length=None)
                return exp
            exp.update(status=200, body=body, length=str(len(body)))
            return exp

    return {'kind': '404', 'status': 404, 'calls': []}


# ---------------------------------------------------------------------------
# Building the real app from a Config
# ---------------------------------------------------------------------------

CALLS = []


def build_resource(spec, asgi):
    def make(name, with_self):
        status = falcon.HTTP_204 if name.startswith('on_options') else falcon.HTTP_200
        if 'websocket' in name:
            if asgi:
                if with_self:

                    async def ws(self, req, ws, **kw):
                        CALLS.append(('res', spec.rid, name, kw))

                else:

                    async def ws(req, ws, **kw):
                        CALLS.append(('res', spec.rid, name, kw))

            else:
                if with_self:

                    def ws(self, req, ws, **kw):
                        CALLS.append(('res', spec.rid, name, kw))

                else:

                    def ws(req, ws, **kw):
                        CALLS.append(('res', spec.rid, name, kw))

            return ws

        if asgi:
            if with_self:

                async def responder(self, req, resp, **kw):
                    CALLS.append(('res', spec.rid, name, kw))
                    resp.status = status
                    resp.text = 'R%d' % spec.rid

            else:

                async def responder(req, resp, **kw):
                    CALLS.append(('res', spec.rid, name, kw))
                    resp.status = status
                    resp.text = 'R%d' % spec.rid

        else:
            if with_self:

                def responder(self, req, resp, **kw):
                    CALLS.append(('res', spec.rid, name, kw))
                    resp.status = status
                    resp.text = 'R%d' % spec.rid

            else:

                def responder(req, resp, **kw):
                    CALLS.append(('res', spec.rid, name, kw))
                    resp.status = status
                    resp.text = 'R%d' % spec.rid

        return responder

    names = ['on_' + m.lower() for m in spec.plain]
    names += ['on_' + m.lower() + '_sfx' for m in spec.suffixed]
    if spec.ws_plain:
        names.append('on_websocket')
    if spec.ws_suffixed:
        names.append('on_websocket_sfx')

    class Resource:
        # decoys that must never be picked up as responders
        on_nothing = None
        get = None

        def on_get_other(self, req, resp, **kw):  # other suffix: never routed here
            CALLS.append(('res', spec.rid, 'on_get_other', kw))

    if asgi:

        async def on_get_other(self, req, resp, **kw):
            CALLS.append(('res', spec.rid, 'on_get_other', kw))

        Resource.on_get_other = on_get_other

    res = Resource()
    for name in names:
        if spec.style == 'class':
            setattr(Resource, name, make(name, True))
        else:
            setattr(res, name, make(name, False))
    for m in spec.noncallable:
        setattr(res, 'on_' + m.lower(), {})
    return res


def build_sink(sid, asgi):
    if asgi:

        async def sink(req, resp, **kw):
            CALLS.append(('sink', sid, kw))
            resp.status = falcon.HTTP_200
            resp.text = 'K%d' % sid

    else:

        def sink(req, resp, **kw):
            CALLS.append(('sink', sid, kw))
            resp.status = falcon.HTTP_200
            resp.text = 'K%d' % sid

    return sink


class Built:
    pass


def build_app(cfg, asgi, tmpdir):
    b = Built()
    cls = falcon.asgi.App if asgi else falcon.App
    b.app = cls(sink_before_static_route=cfg.sbs)
    b.resources = {}
    b.sinks = {}
    for op in cfg.ops:
        if op[0] == 'route':
            _, template, spec, suffix = op
            res = b.resources.get(spec.rid)
            if res is None:
                res = b.resources[spec.rid] = build_resource(spec, asgi)
            must_fail = bool(suffix) and not (spec.suffixed or spec.ws_suffixed)
            kw = {} if suffix is None else {'suffix': suffix}
            try:
                b.app.add_route(template, res, **kw)
            except rutil.SuffixedMethodNotFoundError:
                if not must_fail:
                    fail('config', 'unexpected SuffixedMethodNotFoundError %r' % (op,))
            else:
                if must_fail:
                    fail('config', 'missing SuffixedMethodNotFoundError %r' % (op,))
        elif op[0] == 'sink':
            _, sid, pattern, compiled = op
            sink = b.sinks[sid] = build_sink(sid, asgi)
            b.app.add_sink(sink, re.compile(pattern) if compiled else pattern)
        else:
            _, k, prefix, fallback = op
            d = os.path.join(tmpdir, 'static%d' % k)
            if not os.path.isdir(d):
                os.mkdir(d)
                with open(os.path.join(d, 'id.txt'), 'w') as f:
                    f.write('S' * (10 + k))
                with open(os.path.join(d, 'fb.txt'), 'w') as f:
                    f.write('F' * (100 + k))
            b.app.add_static_route(prefix, d, fallback_filename='fb.txt' if fallback else None)
    b.client = testing.TestClient(b.app)
    return b


def random_spec(rng, rid):
    def subset():
        r = rng.random()
        if r < 0.12:
            return []
        if r < 0.2:
            return list(KNOWN)
        if r < 0.3:
            return [rng.choice(KNOWN)]
        return rng.sample(KNOWN, rng.randint(1, 8))

    plain = subset()
    suffixed = subset() if rng.random() < 0.75 else []
    noncallable = [m for m in rng.sample(KNOWN, 2) if m not in plain] if rng.random() < 0.3 else []
    return ResSpec(
        rid,
        plain,
        suffixed,
        rng.random() < 0.3,
        rng.random() < 0.2,
        noncallable,
        rng.choice(['class', 'instance']),
    )


def random_config(rng):
    cfg = Config()
    cfg.sbs = rng.random() < 0.5
    specs = [random_spec(rng, i) for i in range(rng.randint(1, 3))]
    n_ops = rng.randint(0, 9)
    sid = 0
    k = 0
    for _ in range(n_ops):
        r = rng.random()
        if r < 0.4:
            cfg.ops.append(
                ('route', rng.choice(TEMPLATES), rng.choice(specs), rng.choice([None, None, '', 'sfx', 'sfx']))
            )
        elif r < 0.72:
            cfg.ops.append(('sink', sid, rng.choice(SINK_PATTERNS), rng.random() < 0.4))
            sid += 1
        else:
            cfg.ops.append(('static', k, rng.choice(STATIC_PREFIXES), rng.random() < 0.4))
            k += 1
    return cfg


def describe(cfg):
    out = ['sbs=%r' % cfg.sbs]
    for op in cfg.ops:
        if op[0] == 'route':
            out.append(
                'route(%s, r%d plain=%s sfxd=%s, suffix=%r)'
                % (op[1], op[2].rid, sorted(op[2].plain), sorted(op[2].suffixed), op[3])
            )
        else:
            out.append(repr(op))
    return '; '.join(out)


# ---------------------------------------------------------------------------
# Section A: generated configuration space, end to end + _get_responder
# ---------------------------------------------------------------------------


def check_observation(section, cfg, asgi, built, method, path, exp):
    ctx = '%s %s %s | %s' % ('ASGI' if asgi else 'WSGI', method, path, describe(cfg))
    del CALLS[:]
    result = built.client.simulate_request(method=method, path=path)
    calls = list(CALLS)
    status = int(result.status[:3])
    if status != exp['status']:
        fail(section, 'status %s != %s (%s) :: %s' % (status, exp['status'], exp['kind'], ctx))
        return
    if calls != exp['calls']:
        fail(section, 'calls %r != %r :: %s' % (calls, exp['calls'], ctx))
        return
    kind = exp['kind']
    if kind in ('auto-options', '405'):
        if result.headers.get('allow') != exp['allow']:
            fail(section, 'Allow %r != %r :: %s' % (result.headers.get('allow'), exp['allow'], ctx))
        if kind == 'auto-options':
            if result.headers.get('content-length') != '0' or result.content:
                fail(section, 'auto OPTIONS body/content-length :: %s' % ctx)
    elif kind == 'static':
        if method == 'OPTIONS':
            if result.headers.get('allow') != 'GET' or result.headers.get('content-length') != '0':
                fail(section, 'static OPTIONS headers %r :: %s' % (result.headers, ctx))
        elif exp['status'] == 200:
            if result.headers.get('content-length') != exp['length']:
                fail(
                    section,
                    'static content-length %r != %r :: %s'
                    % (result.headers.get('content-length'), exp['length'], ctx),
                )
            if method != 'HEAD' and result.text != exp['body']:
                fail(section, 'static body %r :: %s' % (result.text[:20], ctx))
    elif kind == 'sink':
        if method != 'HEAD' and result.text != 'K%d' % exp['sid']:
            fail(section, 'sink body %r :: %s' % (result.text, ctx))
    elif kind == 'responder':
        if method != 'HEAD' and status == 200 and result.text != 'R%d' % exp['spec'].rid:
            fail(section, 'responder body %r :: %s' % (result.text, ctx))
    elif kind == '404':
        if 'allow' in result.headers:
            fail(section, '404 with Allow :: %s' % ctx)


def check_direct(section, cfg, asgi, built, method, path, exp):
    """White-box: App._get_responder() returns the documented 4-tuple."""
    if method == 'WEBSOCKET':
        return
    ctx = '%s %s %s | %s' % ('ASGI' if asgi else 'WSGI', method, path, describe(cfg))
    if asgi:
        req = testing.create_asgi_req(path=path, method=method)
    else:
        req = testing.create_req(path=path, method=method)
    got = built.app._get_responder(req)
    if not (isinstance(got, tuple) and len(got) == 4):
        fail(section, 'not a 4-tuple: %r :: %s' % (got, ctx))
        return
    responder, params, resource, uri_template = got
    kind = exp['kind']
    app_cls = type(built.app)
    if kind in ('responder', 'auto-options', '405', '400'):
        res = built.resources[exp['spec'].rid]
        if resource is not res or params != exp['fields'] or uri_template != exp['template']:
            fail(section, 'route tuple %r :: %s' % (got, ctx))
        if kind == 'responder' and responder != getattr(res, exp['name']):
            fail(section, 'wrong responder %r :: %s' % (responder, ctx))
        if kind == '400' and responder is not app_cls._default_responder_bad_request:
            fail(section, 'unknown method responder %r :: %s' % (responder, ctx))
        if kind in ('auto-options', '405') and (
            responder in (app_cls._default_responder_bad_request, app_cls._default_responder_path_not_found)
            or getattr(responder, '__self__', None) is res
        ):
            fail(section, 'default responder expected, got %r :: %s' % (responder, ctx))
    elif kind == 'sink':
        if (
            responder is not built.sinks[exp['sid']]
            or params != exp['params']
            or type(params) is not dict
            or resource is not None
            or uri_template is not None
        ):
            fail(section, 'sink tuple %r :: %s' % (got, ctx))
    elif kind == 'static':
        if (
            not isinstance(responder, StaticRoute)
            or not responder.match(path)
            or params != {}
            or type(params) is not dict
            or resource is not None
            or uri_template is not None
        ):
            fail(section, 'static tuple %r :: %s' % (got, ctx))
    else:
        if (
            responder is not app_cls._default_responder_path_not_found
            or params != {}
            or type(params) is not dict
            or resource is not None
            or uri_template is not None
        ):
            fail(section, '404 tuple %r :: %s' % (got, ctx))
    # the params dict must be private to this call (fresh per request)
    if kind in ('sink', 'static', '404'):
        again = built.app._get_responder(req)[1]
        if again is params:
            fail(section, 'params dict shared between calls :: %s' % ctx)


def check_ws_direct(section, cfg, built, path):
    """ASGI WebSocket scope: the method looked up is the meta method."""
    scope = testing.create_scope_ws(path=path)

    async def receive():  # pragma: no cover
        return {'type': 'websocket.disconnect'}

    req = falcon.asgi.Request(scope, receive)
    responder, params, resource, uri_template = built.app._get_responder(req)
    ctx = 'WS %s | %s' % (path, describe(cfg))
    for template, (spec, suffix) in model_routes(cfg).items():
        fields = model_match_template(template, path)
        if fields is None:
            continue
        res = built.resources[spec.rid]
        if resource is not res or params != fields or uri_template != template:
            fail(section, 'ws route tuple :: %s' % ctx)
        has_ws = spec.ws_suffixed if suffix else spec.ws_plain
        name = 'on_websocket' + ('_' + suffix if suffix else '')
        if has_ws:
            if responder != getattr(res, name):
                fail(section, 'ws responder %r :: %s' % (responder, ctx))
        elif getattr(responder, '__self__', None) is res or responder in vars(res).values():
            fail(section, 'ws responder taken from resource %r :: %s' % (responder, ctx))
        return
    exp = model_expect(cfg, 'GET', path)  # fallbacks do not depend on the method
    if exp['kind'] == 'sink':
        if responder is not built.sinks[exp['sid']] or params != exp['params'] or resource is not None:
            fail(section, 'ws sink tuple :: %s' % ctx)
    elif exp['kind'] == 'static':
        if not isinstance(responder, StaticRoute) or params != {} or resource is not None:
            fail(section, 'ws static tuple :: %s' % ctx)
    else:
        if responder is not type(built.app)._default_responder_path_not_found or params != {}:
            fail(section, 'ws 404 tuple :: %s' % ctx)


def section_generated(rng, n_configs, n_requests, tmpdir):
    section = 'generated'
    methods_pool = KNOWN + ['GET', 'GET', 'POST', 'OPTIONS', 'OPTIONS', 'HEAD', 'WEBSOCKET', UNKNOWN]
    for i in range(n_configs):
        cfg = random_config(rng)
        requests = [(rng.choice(methods_pool), rng.choice(PATHS)) for _ in range(n_requests)]
        # make sure every routed template sees OPTIONS and an unimplemented method
        for template in model_routes(cfg):
            path = template.replace('{id}', '7').replace('{name}', 'id.txt').replace('{x}', '12').replace('{y}', '34')
            requests.append(('OPTIONS', path))
            requests.append((rng.choice(KNOWN), path))
        for asgi in (False, True):
            built = build_app(cfg, asgi, tmpdir)
            for n, (method, path) in enumerate(requests):
                exp = model_expect(cfg, method, path)
                # ASGI end-to-end requests spin an event loop each: sample them
                if not asgi or n % 3 == 0 or n >= n_requests:
                    check_observation(section, cfg, asgi, built, method, path, exp)
                    tick(section)
                check_direct(section + '-direct', cfg, asgi, built, method, path, exp)
                tick(section + '-direct')
            if asgi:
                for path in rng.sample(PATHS, 6):
                    check_ws_direct(section + '-ws', cfg, built, path)
                    tick(section + '-ws')


# ---------------------------------------------------------------------------
# Section B: hand-written corner cases (expectations from the unmodified tree)
# ---------------------------------------------------------------------------


def section_corner_cases(tmpdir):
    section = 'corner'
    for asgi in (False, True):
        for sbs in (False, True):
            cfg = Config()
            cfg.sbs = sbs
            spec = ResSpec(0, ['GET', 'OPTIONS', 'VERSION-CONTROL'], ['PUT'], True, True, ['PATCH'], 'class')
            empty = ResSpec(1, [], [], False, True, [], 'instance')
            nosfx = ResSpec(2, ['GET'], [], True, False, [], 'class')
            cfg.ops = [
                ('sink', 0, r'/', False),
                ('static', 0, '/files', True),
                ('route', '/items/{id}', spec, None),
                ('sink', 1, r'/files', True),
                ('static', 1, '/files', False),
                ('route', '/items/{id}/sub', spec, 'sfx'),
                ('route', '/a', empty, None),
                ('route', '/a/b', empty, 'sfx'),
                ('route', '/o5', spec, ''),
                ('sink', 2, r'/o(?P<x>\d+)?', False),
                ('route', '/items', nosfx, 'sfx'),  # refused: no suffixed responder
            ]
            built = build_app(cfg, asgi, tmpdir)
            table = [
                # (method, path, kind, status, detail)
                ('GET', '/items/7', 'responder', 200, 'on_get'),
                ('GET', '/items/', 'responder', 200, 'on_get'),
                ('OPTIONS', '/items/7', 'responder', 204, 'on_options'),
                ('VERSION-CONTROL', '/items/7', 'responder', 200, 'on_version-control'),
                ('PATCH', '/items/7', '405', 405, 'GET, OPTIONS, VERSION-CONTROL'),
                ('POST', '/items/7', '405', 405, 'GET, OPTIONS, VERSION-CONTROL'),
                ('PUT', '/items/7/sub', 'responder', 200, 'on_put_sfx'),
                ('GET', '/items/7/sub', '405', 405, 'PUT, OPTIONS'),
                ('OPTIONS', '/items/7/sub', 'auto-options', 200, 'PUT'),
                ('GET', '/a', '405', 405, 'OPTIONS'),
                ('OPTIONS', '/a', 'auto-options', 200, ''),
                ('OPTIONS', '/a/b', 'auto-options', 200, ''),
                ('DELETE', '/a/b', '405', 405, 'OPTIONS'),
                ('GET', '/o5', 'responder', 200, 'on_get'),
                ('GET', '/o', 'sink', 200, (2, {'x': None})),
                ('GET', '/o7', 'sink', 200, (2, {'x': '7'})),
                ('POST', '/items', 'sink', 200, (0, {})),
                (UNKNOWN, '/items/7', '400', 400, None),
                (UNKNOWN, '/zzz', 'sink', 200, (0, {})),
                ('WEBSOCKET', '/items/7', 'meta', 400, None),
                ('WEBSOCKET', '/zzz', 'meta', 400, None),
                # /files: sink 1 vs static 1 (no fallback) vs static 0 (fallback)
                ('GET', '/files/id.txt', 'sink' if sbs else 'static', 200, (1, {}) if sbs else 11),
                ('GET', '/files/missing.txt', 'sink' if sbs else 'static', 200 if sbs else 404, (1, {}) if sbs else None),
                ('GET', '/files', 'sink' if sbs else 'static', 200, (1, {}) if sbs else 100),
            ]
            for method, path, kind, status, detail in table:
                exp = model_expect(cfg, method, path)
                ctx = '%s sbs=%s %s %s' % ('ASGI' if asgi else 'WSGI', sbs, method, path)
                if exp['kind'] != kind or exp['status'] != status:
                    fail(section, 'model disagrees with table: %r :: %s' % (exp, ctx))
                if kind in ('405', 'auto-options') and exp['allow'] != detail:
                    fail(section, 'model Allow %r != %r :: %s' % (exp['allow'], detail, ctx))
                if kind == 'responder' and exp['name'] != detail:
                    fail(section, 'model name %r :: %s' % (exp['name'], ctx))
                if kind == 'sink' and (exp['sid'], exp['params']) != detail:
                    fail(section, 'model sink %r :: %s' % (exp, ctx))
                if kind == 'static' and status == 200 and len(exp['body']) != detail:
                    fail(section, 'model static %r :: %s' % (exp, ctx))
                check_observation(section, cfg, asgi, built, method, path, exp)
                check_direct(section, cfg, asgi, built, method, path, exp)
                tick(section)

    # An app without anything registered: everything is a 404
    for asgi in (False, True):
        cfg = Config()
        built = build_app(cfg, asgi, tmpdir)
        for method in ('GET', 'OPTIONS', 'PROPFIND', UNKNOWN):
            for path in ('/', '/a/b'):
                exp = model_expect(cfg, method, path)
                check_observation(section, cfg, asgi, built, method, path, exp)
                check_direct(section, cfg, asgi, built, method, path, exp)
                tick(section)


# ---------------------------------------------------------------------------
# Section C: legacy / custom routers handed to App (focus of change 1)
# ---------------------------------------------------------------------------


class LegacyRouter:
    def __init__(self, table):
        self.table = table

    def add_route(self, uri_template, resource, **kwargs):  # pragma: no cover
        raise NotImplementedError

    def find(self, uri, req=None):
        return self.table.get(uri)


def section_legacy_router(rng, rounds):
    section = 'legacy-router'

    class Res:
        def on_get(self, req, resp, **kw):
            CALLS.append(('res', 0, 'on_get', kw))

        async def on_get_async(self, req, resp, **kw):
            CALLS.append(('res', 0, 'on_get', kw))

    res = Res()
    for asgi in (False, True):
        get = res.on_get_async if asgi else res.on_get
        p3 = {'a': '1'}
        p4 = {'b': '2'}
        table = {
            '/none': None,
            '/none3': (None, None, None),
            '/none4': (None, None, None, '/tmpl-none'),
            '/three': (res, {'GET': get}, p3),
            '/four': (res, {'GET': get}, p4, '/four-tmpl'),
            '/four-none': (res, {'GET': get}, {}, None),
            '/list4': [res, {'GET': get}, {'c': '3'}, '/list-tmpl'],
        }

        for sbs in (False, True):
            cls = falcon.asgi.App if asgi else falcon.App
            app = cls(router=LegacyRouter(table), sink_before_static_route=sbs)
            bad = cls._default_responder_bad_request
            nf = cls._default_responder_path_not_found
            sink = build_sink(0, asgi)
            for with_sink in (False, True):
                if with_sink:
                    app.add_sink(sink, r'/none(?P<n>\d)?')
                for _ in range(rounds):
                    path = rng.choice(list(table) + ['/unknown'])
                    method = rng.choice(['GET', 'POST', 'OPTIONS', UNKNOWN])
                    req = (testing.create_asgi_req if asgi else testing.create_req)(path=path, method=method)
                    got = app._get_responder(req)
                    if path == '/three':
                        want = (get if method == 'GET' else bad, p3, res, None)
                    elif path == '/four':
                        want = (get if method == 'GET' else bad, p4, res, '/four-tmpl')
                    elif path == '/four-none':
                        want = (get if method == 'GET' else bad, {}, res, None)
                    elif path == '/list4':
                        want = (get if method == 'GET' else bad, {'c': '3'}, res, '/list-tmpl')
                    else:
                        tmpl = '/tmpl-none' if path == '/none4' else None
                        if with_sink and path.startswith('/none'):
                            n = path[5:] or None
                            want = (sink, {'n': n}, None, tmpl)
                        else:
                            want = (nf, {}, None, tmpl)
                    if got != want or type(got) is not tuple:
                        fail(section, '%s sbs=%s %s %s: %r != %r' % (asgi, sbs, method, path, got, want))
                    # params supplied by the router are passed through as is
                    if path == '/three' and got[1] is not p3:
                        fail(section, 'router params object not passed through')
                    if path == '/four' and got[1] is not p4:
                        fail(section, 'router params object not passed through')
                    tick(section)

            # a router answering with the wrong arity keeps raising ValueError
            app = cls(router=LegacyRouter({'/two': (res, {}), '/five': (res, {}, {}, None, 1)}))
            for path in ('/two', '/five'):
                req = (testing.create_asgi_req if asgi else testing.create_req)(path=path)
                try:
                    app._get_responder(req)
                except ValueError:
                    pass
                else:
                    fail(section, 'no ValueError for %s' % path)
                tick(section)


# ---------------------------------------------------------------------------
# Section D: default responders (focus of change 2)
# ---------------------------------------------------------------------------


def run(coro):
    loop = asyncio.new_event_loop()
    try:
        return loop.run_until_complete(coro)
    finally:
        loop.close()


def section_default_responders(rng, rounds):
    section = 'responders'
    for i in range(rounds):
        n = rng.choice([0, 0, 1, 2, 3, 5, 9, len(KNOWN)])
        allowed = rng.sample(KNOWN, n)
        want = ', '.join(allowed)
        shape = i % 4
        for asgi in (False, True):
            if shape == 0:
                arg = list(allowed)
            elif shape == 1:
                arg = tuple(allowed)
            elif shape == 2:
                arg = iter(list(allowed))
            else:
                arg = (m for m in list(allowed))
            responder = responders.create_default_options(arg, asgi=asgi)
            if shape == 0:
                arg.append('LATER')  # the Allow value was fixed at creation time
            resp = falcon.asgi.Response() if asgi else falcon.Response()
            resp.set_header('X-Pre', 'kept')
            resp.status = falcon.HTTP_500
            req = (testing.create_asgi_req if asgi else testing.create_req)(method='OPTIONS')
            for _ in range(2):
                if asgi:
                    if not asyncio.iscoroutinefunction(responder):
                        fail(section, 'async OPTIONS responder is not a coroutine function')
                    out = run(responder(req, resp, field='x'))
                else:
                    if asyncio.iscoroutinefunction(responder):
                        fail(section, 'sync OPTIONS responder is a coroutine function')
                    out = responder(req, resp, field='x')
                if out is not None:
                    fail(section, 'OPTIONS responder returned %r' % (out,))
                if (
                    resp.status != falcon.HTTP_200
                    or resp.get_header('Allow') != want
                    or resp.get_header('Content-Length') != '0'
                    or resp.get_header('X-Pre') != 'kept'
                    or resp.text is not None
                ):
                    fail(section, 'OPTIONS resp %r %r (allowed=%r asgi=%r)' % (resp.status, resp.headers, allowed, asgi))
            tick(section)

            na = responders.create_method_not_allowed(list(allowed), asgi=asgi)
            try:
                if asgi:
                    run(na(req, resp, field='x'))
                else:
                    na(req, resp, field='x')
            except falcon.HTTPMethodNotAllowed as ex:
                if ex.headers.get('Allow') != want or ex.status_code != 405:
                    fail(section, '405 headers %r' % (ex.headers,))
            else:
                fail(section, 'method_not_allowed did not raise')
            tick(section)

    for asgi, nf, bad in (
        (False, responders.path_not_found, responders.bad_request),
        (True, responders.path_not_found_async, responders.bad_request_async),
    ):
        for fn, exc, code in ((nf, falcon.HTTPRouteNotFound, '404'), (bad, falcon.HTTPBadRequest, '400')):
            try:
                if asgi:
                    run(fn(None, None, a=1))
                else:
                    fn(None, None, a=1)
            except exc as ex:
                if str(ex.status_code) != code:
                    fail(section, 'status %r' % ex.status)
            else:
                fail(section, '%r did not raise' % fn)
            tick(section)


# ---------------------------------------------------------------------------
# Section E: set_default_responders (focus of change 3)
# ---------------------------------------------------------------------------


def allow_of(responder, asgi):
    """Run a default responder; returns ('options', allow) or ('405', allow)."""
    resp = falcon.asgi.Response() if asgi else falcon.Response()
    try:
        if asgi:
            run(responder(None, resp))
        else:
            responder(None, resp)
    except falcon.HTTPMethodNotAllowed as ex:
        return ('405', ex.headers['Allow'])
    return ('options', resp.get_header('Allow'))


def section_set_default_responders(rng, rounds):
    section = 'set_default_responders'
    from falcon import constants

    combined = list(constants.COMBINED_METHODS)
    for i in range(rounds):
        asgi = bool(i % 2)
        r = rng.random()
        if r < 0.1:
            keys = []
        elif r < 0.2:
            keys = list(KNOWN)
        else:
            keys = rng.sample(KNOWN, rng.randint(1, 10))
        if rng.random() < 0.4:
            keys.insert(rng.randint(0, len(keys)), 'WEBSOCKET')
        if rng.random() < 0.3 and 'OPTIONS' not in keys:
            keys.append('OPTIONS')
        sentinels = {k: object() for k in keys}
        method_map = dict(sentinels)
        out = rutil.set_default_responders(method_map, asgi=asgi)
        if out is not None:
            fail(section, 'returned %r' % (out,))
        ctx = 'keys=%r asgi=%r' % (keys, asgi)
        if set(method_map) != set(combined) | set(keys):
            fail(section, 'key set %r :: %s' % (sorted(method_map), ctx))
        if list(method_map)[: len(keys)] != keys:
            fail(section, 'original keys reordered :: %s' % ctx)
        for k in keys:
            if method_map[k] is not sentinels[k]:
                fail(section, 'explicit responder for %s replaced :: %s' % (k, ctx))
        http_keys = sorted(k for k in keys if k != 'WEBSOCKET')
        want_options = ', '.join(http_keys)
        want_405 = ', '.join(http_keys if 'OPTIONS' in keys else http_keys + ['OPTIONS'])
        filled = [m for m in method_map if m not in keys]
        na = None
        for m in filled:
            kind, allow = (None, None)
            if m == 'OPTIONS':
                kind, allow = allow_of(method_map[m], asgi)
                if (kind, allow) != ('options', want_options):
                    fail(section, 'OPTIONS -> %r %r, want %r :: %s' % (kind, allow, want_options, ctx))
            else:
                if na is None:
                    na = method_map[m]
                    kind, allow = allow_of(na, asgi)
                    if (kind, allow) != ('405', want_405):
                        fail(section, '%s -> %r %r, want %r :: %s' % (m, kind, allow, want_405, ctx))
                elif method_map[m] is not na:
                    # every unimplemented method shares the one 405 responder
                    kind, allow = allow_of(method_map[m], asgi)
                    if (kind, allow) != ('405', want_405):
                        fail(section, '%s -> %r %r :: %s' % (m, kind, allow, ctx))
            if asyncio.iscoroutinefunction(method_map[m]) != asgi:
                fail(section, 'sync/async flavour of default for %s :: %s' % (m, ctx))
        if 'WEBSOCKET' not in keys and 'WEBSOCKET' not in filled:
            fail(section, 'WEBSOCKET not defaulted :: %s' % ctx)
        tick(section)


# ---------------------------------------------------------------------------
# Section F: map_http_methods (focus of change 4)
# ---------------------------------------------------------------------------


def section_map_http_methods(rng, rounds):
    section = 'map_http_methods'
    from falcon import constants

    combined = list(constants.COMBINED_METHODS)
    suffixes = [None, None, '', 'sfx', 'a_b', 'Get', '_', '1']
    for i in range(rounds):

        class Res:
            pass

        res = Res()
        defined = {}  # attribute name -> value
        sfx_pool = [s for s in suffixes if s]
        for m in rng.sample(combined, rng.randint(0, 8)):
            for s in [None] + rng.sample(sfx_pool, rng.randint(0, 3)):
                if s is None and rng.random() < 0.3:
                    continue
                name = 'on_' + m.lower() + ('_' + s if s else '')
                roll = rng.random()
                if roll < 0.7:
                    value = (lambda *a, **k: None)
                elif roll < 0.8:
                    value = {}
                elif roll < 0.9:
                    value = None
                else:
                    value = len  # any callable will do
                defined[name] = value
                if rng.random() < 0.5:
                    setattr(Res, name, value)
                else:
                    setattr(res, name, value)
        # attributes that look similar but must be ignored
        res.on_get_ = 'x'
        res.ON_GET = lambda *a: None
        res.on_GET = lambda *a: None
        raising = None
        if rng.random() < 0.2:
            raising = 'on_' + rng.choice(combined).lower()

            def boom(self):
                raise AttributeError('nope')

            setattr(Res, raising, property(boom))
            defined.pop(raising, None)
            if raising in vars(res):
                del vars(res)[raising]

        suffix = rng.choice(suffixes)
        want = {}
        for m in combined:
            name = 'on_' + m.lower() + ('_' + suffix if suffix else '')
            if name == raising:
                continue
            if name in defined and callable(defined[name]):
                want[m] = defined[name]
        ctx = 'suffix=%r defined=%r raising=%r' % (suffix, sorted(defined), raising)
        try:
            got = rutil.map_http_methods(res, suffix=suffix) if i % 3 else (
                rutil.map_http_methods(res, suffix) if suffix is not None or i % 2 else rutil.map_http_methods(res)
            )
        except rutil.SuffixedMethodNotFoundError as ex:
            if not (suffix and not want):
                fail(section, 'unexpected SuffixedMethodNotFoundError :: %s' % ctx)
            if ex.message != 'No responders found for the specified suffix' and 'suffix' not in ex.message:
                fail(section, 'message %r' % ex.message)
        else:
            if suffix and not want:
                fail(section, 'missing SuffixedMethodNotFoundError :: %s' % ctx)
            if type(got) is not dict:
                fail(section, 'not a dict :: %s' % ctx)
            if list(got) != list(want):
                fail(section, 'keys %r != %r :: %s' % (list(got), list(want), ctx))
            for m in want:
                g = got.get(m)
                # functions stored on the class come back as bound methods
                if g is not want[m] and getattr(g, '__func__', None) is not want[m]:
                    fail(section, '%s -> %r, want %r :: %s' % (m, g, want[m], ctx))
        tick(section)

    # a property raising something else than AttributeError propagates
    class Bad:
        @property
        def on_post(self):
            raise KeyError('boom')

    try:
        rutil.map_http_methods(Bad())
    except KeyError:
        pass
    else:
        fail(section, 'KeyError from property swallowed')
    tick(section)

    # a truthy non-string suffix is a TypeError (str concatenation)
    class G:
        def on_get(self, req, resp):
            pass

        def on_get_5(self, req, resp):
            pass

    for bad_suffix in (5, 1.5, ('x',), b'sfx', ['a']):
        try:
            rutil.map_http_methods(G(), suffix=bad_suffix)
        except TypeError:
            pass
        else:
            fail(section, 'no TypeError for suffix=%r' % (bad_suffix,))
        tick(section)
    # falsy non-string suffixes mean "no suffix"
    for falsy in (0, (), b'', False, None, ''):
        got = rutil.map_http_methods(G(), suffix=falsy)
        if list(got) != ['GET'] or got['GET'].__name__ != 'on_get':
            fail(section, 'falsy suffix %r -> %r' % (falsy, got))
        tick(section)


# ---------------------------------------------------------------------------
# Section G: StaticRoute.match / LIFO bookkeeping
# ---------------------------------------------------------------------------


def section_ordering(rng, rounds, tmpdir):
    """The combined sink/static order after every interleaving of
    add_sink / add_static_route equals the model, and is the sequence
    App._get_responder walks."""
    section = 'ordering'
    d = os.path.join(tmpdir, 'ordering')
    os.mkdir(d)
    with open(os.path.join(d, 'fb.txt'), 'w') as f:
        f.write('x')
    for i in range(rounds):
        asgi = bool(i % 2)
        sbs = bool((i // 2) % 2)
        cls = falcon.asgi.App if asgi else falcon.App
        app = cls(sink_before_static_route=sbs)
        sinks, statics = [], []
        for step in range(rng.randint(0, 7)):
            if rng.random() < 0.5:
                fn = build_sink(step, asgi)
                app.add_sink(fn, rng.choice(SINK_PATTERNS))
                sinks.insert(0, fn)
            else:
                app.add_static_route(rng.choice(STATIC_PREFIXES), d, fallback_filename=rng.choice([None, 'fb.txt']))
                statics.insert(0, None)
            combined = app._sink_and_static_routes
            if type(combined) is not tuple or len(combined) != len(sinks) + len(statics):
                fail(section, 'combined sequence %r' % (combined,))
                continue
            got_kinds = [is_sink for _, _, is_sink in combined]
            want_kinds = [True] * len(sinks) + [False] * len(statics)
            if not sbs:
                want_kinds = [False] * len(statics) + [True] * len(sinks)
            if got_kinds != want_kinds:
                fail(section, 'kinds %r != %r' % (got_kinds, want_kinds))
            got_sinks = [obj for _, obj, is_sink in combined if is_sink]
            if got_sinks != sinks or any(a is not b for a, b in zip(got_sinks, sinks)):
                fail(section, 'sink order is not LIFO')
            for matcher, obj, is_sink in combined:
                if not is_sink and not (matcher is obj and isinstance(obj, StaticRoute)):
                    fail(section, 'static entry %r' % ((matcher, obj),))
            tick(section)

    for prefix in STATIC_PREFIXES + ['/x/y', '/x/y/']:
        for fallback in (None, 'fb.txt'):
            sr = StaticRoute(prefix, d, fallback_filename=fallback)
            for path in PATHS + ['/x/y', '/x/y/', '/x/y/z', '/x/yz', '/x', '']:
                want = model_static_match(prefix, fallback, path) is not None
                got = sr.match(path)
                if got is not want:
                    fail(section, 'StaticRoute(%r, fb=%r).match(%r) -> %r' % (prefix, fallback, path, got))
                tick(section)


def main():
    rng = random.Random(SEED)
    tmpdir = tempfile.mkdtemp(prefix='c02check')
    try:
        section_corner_cases(tmpdir)
        section_generated(rng, 260 if FOCUS == 1 else 160, 24, tmpdir)
        section_legacy_router(rng, 60 if FOCUS == 1 else 25)
        section_default_responders(rng, 400 if FOCUS == 2 else 120)
        section_set_default_responders(rng, 900 if FOCUS == 3 else 300)
        section_map_http_methods(rng, 1500 if FOCUS == 4 else 500)
        section_ordering(rng, 120, tmpdir)
    finally:
        shutil.rmtree(tmpdir, ignore_errors=True)
    finish()


if __name__ == '__main__':
    main()
