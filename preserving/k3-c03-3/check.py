"""Property C03 check: middleware / hooks / responder / lifespan call order.

Run as:  PYTHONPATH=<falcon tree> /venv/bin/python check.py

The program drives real falcon WSGI and ASGI apps with generated stacks of
middleware components, before/after hooks, responders and error handlers, each
call site being assigned an action (return / set resp.complete / raise a
handled HTTP error / raise an app error with a custom handler / raise an app
error handled by the default handler; error handlers themselves may return,
raise an HTTP error or blow up).  The recorded sequence of calls is compared
with a small, independent reference model of the documented stack discipline.
It also checks prepare_middleware() directly and the ASGI lifespan protocol
(startup in order, shutdown reversed, first failure reported and final).
"""

import asyncio
import io
import itertools
import logging
import os
import random
import sys
import warnings

os.environ.pop('FALCON_ASGI_WRAP_NON_COROUTINES', None)
os.environ.pop('FALCON_TESTING_SESSION', None)

import falcon  # noqa: E402
import falcon.asgi  # noqa: E402
from falcon import app_helpers  # noqa: E402
import falcon.testing as ft  # noqa: E402

warnings.simplefilter('ignore')

FAILURES = []
COUNTS = {}


def count(name, n=1):
    COUNTS[name] = COUNTS.get(name, 0) + n


def fail(msg):
    FAILURES.append(msg)
    if len(FAILURES) > 15:
        finish()


def finish():
    if FAILURES:
        for f in FAILURES[:15]:
            print('FAIL:', f)
        print('FAILED (%d failures)' % len(FAILURES))
        sys.exit(1)
    print('cases:', ', '.join('%s=%d' % kv for kv in sorted(COUNTS.items())))
    print('PASS')
    sys.exit(0)


# ---------------------------------------------------------------------------
# Shared per-request state: the plan (site -> action) and the call log
# ---------------------------------------------------------------------------

PLAN = {}
LOG = []
HCOUNT = [0]


class AppErrHandled(Exception):
    pass


class AppErrDefault(Exception):
    pass


class HandlerBoom(Exception):
    pass


def do(site, resp, extra=()):
    LOG.append((site,) + tuple(extra))
    action = PLAN.get(site, 'ret')
    if action == 'ret':
        return
    if action == 'complete':
        resp.complete = True
    elif action == 'http':
        raise falcon.HTTPBadRequest()
    elif action == 'handled':
        raise AppErrHandled()
    elif action == 'default':
        raise AppErrDefault()
    else:  # pragma: no cover
        raise AssertionError(action)


def do_handler():
    site = ('handler', HCOUNT[0])
    HCOUNT[0] += 1
    LOG.append((site,))
    action = PLAN.get(site, 'ret')
    if action == 'http':
        raise falcon.HTTPConflict()
    if action == 'boom':
        raise HandlerBoom()


def sync_handler(req, resp, ex, params):
    do_handler()


async def async_handler(req, resp, ex, params):
    do_handler()


# ---------------------------------------------------------------------------
# Component / resource factories
# ---------------------------------------------------------------------------

RESOURCE_BOX = [None]


def res_extra_rsrc(resource, params):
    return (resource is RESOURCE_BOX[0], tuple(sorted(params.items())))


def make_component(i, shape, asgi, style):
    """Build middleware component number *i*.

    shape: set drawn from {'req','rsrc','resp','startup','shutdown'}
    style (ASGI only): 'plain' -> coroutine methods under the regular names;
       'suffix' -> *_async coroutine methods next to sync decoys that must
       never be called by an ASGI app.
    For WSGI, sync methods under the regular names, next to *_async decoys.
    """
    ns = {'index': i}

    def decoy(name):
        def _decoy(self, *a, **k):
            LOG.append((('DECOY', i, name),))

        return _decoy

    def adecoy(name):
        async def _adecoy(self, *a, **k):
            LOG.append((('DECOY', i, name),))

        return _adecoy

    if asgi:

        async def process_request(self, req, resp):
            do(('mw', i, 'req'), resp)

        async def process_resource(self, req, resp, resource, params):
            do(('mw', i, 'rsrc'), resp, res_extra_rsrc(resource, params))

        async def process_response(self, req, resp, resource, req_succeeded):
            assert req_succeeded is True or req_succeeded is False
            do(
                ('mw', i, 'resp'),
                resp,
                (resource is not None, resource is RESOURCE_BOX[0], req_succeeded),
            )

        async def process_startup(self, scope, event):
            LOG.append((('mw', i, 'startup'),))
            if PLAN.get(('mw', i, 'startup')) == 'raise':
                raise RuntimeError('startup-failure-%d' % i)

        async def process_shutdown(self, scope, event):
            LOG.append((('mw', i, 'shutdown'),))
            if PLAN.get(('mw', i, 'shutdown')) == 'raise':
                raise RuntimeError('shutdown-failure-%d' % i)

        sfx = '_async' if style == 'suffix' else ''
        if 'req' in shape:
            ns['process_request' + sfx] = process_request
            if sfx:
                ns['process_request'] = decoy('process_request')
        if 'rsrc' in shape:
            ns['process_resource' + sfx] = process_resource
            if sfx:
                ns['process_resource'] = decoy('process_resource')
        if 'resp' in shape:
            ns['process_response' + sfx] = process_response
            if sfx:
                ns['process_response'] = decoy('process_response')
        if 'startup' in shape:
            ns['process_startup'] = process_startup
        if 'shutdown' in shape:
            ns['process_shutdown'] = process_shutdown
    else:

        def process_request(self, req, resp):
            do(('mw', i, 'req'), resp)

        def process_resource(self, req, resp, resource, params):
            do(('mw', i, 'rsrc'), resp, res_extra_rsrc(resource, params))

        def process_response(self, req, resp, resource, req_succeeded):
            assert req_succeeded is True or req_succeeded is False
            do(
                ('mw', i, 'resp'),
                resp,
                (resource is not None, resource is RESOURCE_BOX[0], req_succeeded),
            )

        if 'req' in shape:
            ns['process_request'] = process_request
            ns['process_request_async'] = adecoy('process_request_async')
        if 'rsrc' in shape:
            ns['process_resource'] = process_resource
            ns['process_resource_async'] = adecoy('process_resource_async')
        if 'resp' in shape:
            ns['process_response'] = process_response
            ns['process_response_async'] = adecoy('process_response_async')

    return type('Component%d' % i, (), ns)()


def make_resource(hooks, n_class_hooks, asgi):
    """hooks: list, outermost first, of ('before'|'after', j).

    The first *n_class_hooks* entries are applied as class decorators, the
    rest decorate on_get directly.
    """

    def mk_before(j):
        if asgi:

            async def hook(req, resp, resource, params, tag, kw=None):
                assert tag == 'T%d' % j and kw == j
                do(
                    ('before', j),
                    resp,
                    (resource is RESOURCE_BOX[0], tuple(sorted(params.items()))),
                )
        else:

            def hook(req, resp, resource, params, tag, kw=None):
                assert tag == 'T%d' % j and kw == j
                do(
                    ('before', j),
                    resp,
                    (resource is RESOURCE_BOX[0], tuple(sorted(params.items()))),
                )

        return hook

    def mk_after(j):
        if asgi:

            async def hook(req, resp, resource, tag, kw=None):
                assert tag == 'T%d' % j and kw == j
                do(('after', j), resp, (resource is RESOURCE_BOX[0],))
        else:

            def hook(req, resp, resource, tag, kw=None):
                assert tag == 'T%d' % j and kw == j
                do(('after', j), resp, (resource is RESOURCE_BOX[0],))

        return hook

    def deco(kind, j):
        if kind == 'before':
            return falcon.before(mk_before(j), 'T%d' % j, kw=j)
        return falcon.after(mk_after(j), 'T%d' % j, kw=j)

    if asgi:

        async def on_get(self, req, resp, id):
            do(('responder',), resp, (id,))
    else:

        def on_get(self, req, resp, id):
            do(('responder',), resp, (id,))

    fn = on_get
    for kind, j in reversed(hooks[n_class_hooks:]):
        fn = deco(kind, j)(fn)
    cls = type('Res', (), {'on_get': fn, 'helper': lambda self: None})
    for kind, j in reversed(hooks[:n_class_hooks]):
        cls = deco(kind, j)(cls)
    return cls()


# ---------------------------------------------------------------------------
# Reference model
# ---------------------------------------------------------------------------


class Abort(Exception):
    pass


def model(shapes, independent, route, hooks, plan):
    """Return (trace, outcome) predicted by the documented discipline."""
    trace = []
    st = {'complete': False, 'h': 0}

    def act(site, extra=()):
        trace.append((site,) + tuple(extra))
        a = plan.get(site, 'ret')
        if a == 'ret':
            return False
        if a == 'complete':
            st['complete'] = True
            return False
        if a == 'handled':
            h = ('handler', st['h'])
            st['h'] += 1
            trace.append((h,))
            if plan.get(h, 'ret') == 'boom':
                raise Abort()
        return True

    params = (('id', '7'),)

    def run_hooks(stack):
        if not stack:
            return act(('responder',), ('7',))
        kind, j = stack[0]
        if kind == 'before':
            return act(('before', j), (True, params)) or run_hooks(stack[1:])
        return run_hooks(stack[1:]) or act(('after', j), (True,))

    try:
        queued = []
        failed = False
        for i, s in enumerate(shapes):
            if independent:
                if 'req' not in s:
                    continue
                if act(('mw', i, 'req')):
                    failed = True
                    break
                if st['complete']:
                    break
            else:
                if 'req' in s and not st['complete']:
                    if act(('mw', i, 'req')):
                        failed = True
                        break
                if 'resp' in s:
                    queued.insert(0, i)

        has_resource = False
        succeeded = False
        if not failed:
            if not st['complete']:
                has_resource = route in ('routed', 'notallowed')
            raised = False
            if has_resource:
                for i, s in enumerate(shapes):
                    if 'rsrc' not in s:
                        continue
                    if act(('mw', i, 'rsrc'), (True, params)):
                        raised = True
                        break
                    if st['complete']:
                        break
            if not raised and not st['complete']:
                if route == 'routed':
                    raised = run_hooks(list(hooks))
                else:
                    raised = True  # 404 / 405 raised by the default responder
            succeeded = not raised

        if independent:
            order = [i for i, s in reversed(list(enumerate(shapes))) if 'resp' in s]
        else:
            order = queued
        for i in order:
            if act(('mw', i, 'resp'), (has_resource, has_resource, succeeded)):
                succeeded = False
        return trace, 'ok'
    except Abort:
        return trace, 'boom'


# ---------------------------------------------------------------------------
# Drivers
# ---------------------------------------------------------------------------

LOOP = asyncio.new_event_loop()

ROUTES = {
    'routed': ('GET', '/r/7'),
    'notallowed': ('POST', '/r/7'),
    'unrouted': ('GET', '/nowhere'),
}


def build_app(shapes, independent, hooks, n_class_hooks, asgi, styles):
    comps = [
        make_component(i, s, asgi, styles[i % len(styles)]) for i, s in enumerate(shapes)
    ]
    # Exercise both ways of registering middleware
    if asgi:
        app = falcon.asgi.App(middleware=comps[:1], independent_middleware=independent)
        app.add_error_handler(AppErrHandled, async_handler)
    else:
        app = falcon.App(middleware=comps[:1], independent_middleware=independent)
        app.add_error_handler(AppErrHandled, sync_handler)
    if comps[1:]:
        app.add_middleware(comps[1:])
    resource = make_resource(hooks, n_class_hooks, asgi)
    app.add_route('/r/{id}', resource)
    return app, resource


def run_wsgi(app, route):
    method, path = ROUTES[route]
    env = ft.create_environ(path=path, method=method, wsgierrors=io.StringIO())
    captured = []

    def start_response(status, headers, exc_info=None):
        captured.append(status)

    try:
        body = app(env, start_response)
        b''.join(body)
    except HandlerBoom:
        return 'boom', None
    return 'ok', captured[0]


def run_asgi(app, route):
    method, path = ROUTES[route]
    scope = ft.create_scope(path=path, method=method)
    sent = []
    state = {'n': 0}

    async def receive():
        state['n'] += 1
        if state['n'] == 1:
            return {'type': 'http.request', 'body': b'', 'more_body': False}
        await asyncio.sleep(0)
        return {'type': 'http.disconnect'}

    async def send(event):
        sent.append(event)

    try:
        LOOP.run_until_complete(app(scope, receive, send))
    except HandlerBoom:
        return 'boom', None
    starts = [e for e in sent if e['type'] == 'http.response.start']
    return 'ok', starts[0]['status']


def run_case(shapes, independent, route, hooks, n_class_hooks, plan, styles, label):
    req_shapes = [set(s) & {'req', 'rsrc', 'resp'} for s in shapes]
    expected, outcome = model(req_shapes, independent, route, hooks, plan)
    statuses = []
    for asgi in (False, True):
        if not asgi and any(not (set(s) & {'req', 'rsrc', 'resp'}) for s in shapes):
            # lifespan-only components are rejected by WSGI apps; drop them
            w_shapes = [s for s in shapes if set(s) & {'req', 'rsrc', 'resp'}]
            # indices must stay aligned with the model -> skip WSGI here
            if len(w_shapes) != len(shapes):
                continue
        app, resource = build_app(shapes, independent, hooks, n_class_hooks, asgi, styles)
        RESOURCE_BOX[0] = resource
        PLAN.clear()
        PLAN.update(plan)
        del LOG[:]
        HCOUNT[0] = 0
        got_outcome, status = (run_asgi if asgi else run_wsgi)(app, route)
        side = 'ASGI' if asgi else 'WSGI'
        if LOG != expected or got_outcome != outcome:
            fail(
                '%s %s independent=%s route=%s shapes=%s hooks=%s plan=%s\n'
                '   expected %s %s\n   got      %s %s'
                % (
                    label,
                    side,
                    independent,
                    route,
                    shapes,
                    hooks,
                    plan,
                    outcome,
                    expected,
                    got_outcome,
                    LOG,
                )
            )
        statuses.append(status)
        count('requests')
    if len(statuses) == 2 and str(statuses[0])[:3] != str(statuses[1])[:3]:
        fail('%s WSGI/ASGI status differ %r plan=%s' % (label, statuses, plan))


# ---------------------------------------------------------------------------
# Part 1: request-path cases
# ---------------------------------------------------------------------------

ALL_SHAPES = [
    frozenset(c)
    for n in (1, 2, 3)
    for c in itertools.combinations(('req', 'rsrc', 'resp'), n)
]
ACTIONS = ['ret', 'complete', 'http', 'handled', 'default']


def sites_for(shapes, hooks):
    sites = []
    for i, s in enumerate(shapes):
        for m in ('req', 'rsrc', 'resp'):
            if m in s:
                sites.append(('mw', i, m))
    for kind, j in hooks:
        sites.append((kind, j))
    sites.append(('responder',))
    return sites


def part_exhaustive_single_fault():
    """3 full components, every single and every pair of fault placements."""
    shapes = [frozenset(('req', 'rsrc', 'resp'))] * 3
    hooks = [('before', 0), ('after', 1)]
    sites = sites_for(shapes, hooks)
    for independent in (False, True):
        for route in ('routed', 'unrouted'):
            run_case(shapes, independent, route, hooks, 0, {}, ['plain'], 'nofault')
            for site in sites:
                for a in ACTIONS[1:]:
                    run_case(
                        shapes, independent, route, hooks, 1, {site: a},
                        ['suffix'], 'single',
                    )
    # pairs of faults, routed only, restricted action set
    for independent in (False, True):
        for s1, s2 in itertools.combinations(sites, 2):
            for a1, a2 in (('http', 'handled'), ('complete', 'http'), ('default', 'complete')):
                run_case(
                    shapes, independent, 'routed', hooks, 0, {s1: a1, s2: a2},
                    ['plain', 'suffix'], 'pair',
                )


def part_exhaustive_two_components():
    """2 components of every shape; all actions on the first three sites."""
    for sa, sb in itertools.product(ALL_SHAPES, repeat=2):
        shapes = [sa, sb]
        sites = sites_for(shapes, [])
        for independent in (False, True):
            for a in ACTIONS:
                for b in ('ret', 'complete', 'http'):
                    plan = {sites[0]: a, sites[-2]: b}
                    run_case(shapes, independent, 'routed', [], 0, plan, ['plain'], 'two')


def part_random(rng, n):
    for k in range(n):
        ncomp = rng.choice([0, 1, 1, 2, 2, 3, 3, 4, 5])
        shapes = []
        for _ in range(ncomp):
            s = set(rng.choice(ALL_SHAPES))
            if rng.random() < 0.25:
                s.add('startup')
            if rng.random() < 0.25:
                s.add('shutdown')
            shapes.append(frozenset(s))
        # occasionally a lifespan/ws-only component (ASGI only)
        if rng.random() < 0.15:
            shapes.insert(
                rng.randrange(len(shapes) + 1),
                frozenset(rng.choice([('startup',), ('shutdown',), ('startup', 'shutdown')])),
            )
        nh = rng.choice([0, 0, 1, 2, 3, 4])
        hooks = [(rng.choice(['before', 'after']), j) for j in range(nh)]
        n_class = rng.randint(0, nh)
        independent = rng.random() < 0.5
        route = rng.choice(['routed', 'routed', 'routed', 'unrouted', 'notallowed'])
        plan = {}
        for site in sites_for(shapes, hooks):
            r = rng.random()
            if r < 0.30:
                plan[site] = rng.choice(ACTIONS[1:])
        for h in range(8):
            r = rng.random()
            if r < 0.25:
                plan[('handler', h)] = 'http'
            elif r < 0.33:
                plan[('handler', h)] = 'boom'
        styles = [rng.choice(['plain', 'suffix']) for _ in range(3)]
        run_case(shapes, independent, route, hooks, n_class, plan, styles, 'random%d' % k)


# ---------------------------------------------------------------------------
# Part 2: prepare_middleware() directly
# ---------------------------------------------------------------------------


def part_prepare(rng, n):
    for k in range(n):
        asgi = rng.random() < 0.5
        independent = rng.random() < 0.5
        shapes = []
        for _ in range(rng.randint(0, 6)):
            s = set(rng.choice(ALL_SHAPES))
            shapes.append(frozenset(s))
        if asgi and rng.random() < 0.4:
            shapes.insert(
                rng.randrange(len(shapes) + 1),
                frozenset(rng.choice([('startup',), ('shutdown',)])),
            )
        comps = [
            make_component(i, s, asgi, rng.choice(['plain', 'suffix']))
            for i, s in enumerate(shapes)
        ]

        def meth(c, base):
            if asgi:
                return getattr(c, base + '_async', None) or getattr(c, base, None)
            return getattr(c, base, None)

        exp_req, exp_rsrc, exp_resp = [], [], []
        for c, s in zip(comps, shapes):
            rq = meth(c, 'process_request') if 'req' in s else None
            rs = meth(c, 'process_resource') if 'rsrc' in s else None
            rp = meth(c, 'process_response') if 'resp' in s else None
            if independent:
                if rq:
                    exp_req.append(rq)
                if rp:
                    exp_resp.insert(0, rp)
            elif rq or rp:
                exp_req.append((rq, rp))
            if rs:
                exp_rsrc.append(rs)
        expected = (tuple(exp_req), tuple(exp_rsrc), tuple(exp_resp))
        # feed an iterator (one-shot) half of the time
        arg = iter(comps) if rng.random() < 0.5 else comps
        got = app_helpers.prepare_middleware(arg, independent, asgi)
        if got != expected or not all(isinstance(t, tuple) for t in got):
            fail('prepare_middleware mismatch asgi=%s ind=%s shapes=%s' % (asgi, independent, shapes))
        count('prepare')

    class Nothing:
        pass

    class OnlyWs:
        async def process_request_ws(self, req, ws):
            pass

    class OnlyWsRsrc:
        async def process_resource_ws(self, req, ws, resource, params):
            pass

    class OnlyStartup:
        async def process_startup(self, scope, event):
            pass

    class OnlyShutdown:
        process_shutdown = None  # attribute merely present

    class SyncReq:
        def process_request(self, req, resp):
            pass

    class AsyncReq:
        async def process_request(self, req, resp):
            pass

    for ind in (False, True):
        for asgi in (False, True):
            try:
                app_helpers.prepare_middleware([Nothing()], ind, asgi)
                fail('component without methods accepted')
            except TypeError:
                pass
            for cls in (OnlyWs, OnlyWsRsrc, OnlyStartup, OnlyShutdown):
                try:
                    got = app_helpers.prepare_middleware([cls(), SyncReq() if not asgi else AsyncReq()], ind, asgi)
                    if not asgi:
                        fail('%s accepted by WSGI' % cls.__name__)
                    elif len(got[0]) != 1 or got[1] != () or got[2] != ():
                        fail('%s not skipped: %r' % (cls.__name__, got))
                except TypeError:
                    if asgi:
                        fail('%s rejected by ASGI' % cls.__name__)
                count('prepare')
        try:
            app_helpers.prepare_middleware([AsyncReq()], ind, False)
            fail('coroutine accepted by WSGI')
        except falcon.CompatibilityError:
            pass
        try:
            app_helpers.prepare_middleware([SyncReq()], ind, True)
            fail('sync method accepted by ASGI')
        except falcon.CompatibilityError:
            pass


# ---------------------------------------------------------------------------
# Part 3: ASGI lifespan
# ---------------------------------------------------------------------------


def lifespan_model(shapes, plan, events, version_ok, form_opt):
    trace, sent = [], []
    for ev in events:
        if ev == 'lifespan.startup':
            if not version_ok:
                sent.append(('lifespan.startup.failed', 'Falcon requires ASGI version 3.x'))
                return trace, sent
            if form_opt:
                sent.append(('lifespan.startup.failed', 'auto_parse_form_urlencoded'))
                return trace, sent
            for i, s in enumerate(shapes):
                if 'startup' in s:
                    trace.append((('mw', i, 'startup'),))
                    if plan.get(('mw', i, 'startup')) == 'raise':
                        sent.append(('lifespan.startup.failed', 'startup-failure-%d' % i))
                        return trace, sent
            sent.append(('lifespan.startup.complete', None))
        elif ev == 'lifespan.shutdown':
            for i, s in reversed(list(enumerate(shapes))):
                if 'shutdown' in s:
                    trace.append((('mw', i, 'shutdown'),))
                    if plan.get(('mw', i, 'shutdown')) == 'raise':
                        sent.append(('lifespan.shutdown.failed', 'shutdown-failure-%d' % i))
                        return trace, sent
            sent.append(('lifespan.shutdown.complete', None))
            return trace, sent
    return trace, sent


class EndOfEvents(Exception):
    pass


class _ListHandler(logging.Handler):
    def __init__(self):
        super().__init__(logging.DEBUG)
        self.lines = []

    def emit(self, record):
        self.lines.append(self.format(record))


def run_lifespan(shapes, plan, events, asgi_info, form_opt, debug_logging):
    comps = [make_component(i, s, True, 'plain') for i, s in enumerate(shapes)]
    app = falcon.asgi.App(middleware=comps)
    if form_opt:
        app.req_options.auto_parse_form_urlencoded = form_opt
    scope = {'type': 'lifespan'}
    if asgi_info is not None:
        scope['asgi'] = dict(asgi_info)
    queue = list(events)
    sent = []

    async def receive():
        if not queue:
            raise EndOfEvents()
        return {'type': queue.pop(0)}

    async def send(event):
        sent.append(event)

    PLAN.clear()
    PLAN.update(plan)
    del LOG[:]
    # Half of the runs have DEBUG logging switched on for the 'falcon' logger
    # with a handler that really formats whatever is logged; logging must
    # never change what is called or what is sent.
    logger = logging.getLogger('falcon')
    old_level = logger.level
    handler = _ListHandler()
    if debug_logging:
        logger.setLevel(logging.DEBUG)
        logger.addHandler(handler)
    try:
        LOOP.run_until_complete(app(scope, receive, send))
        ended = 'returned'
    except EndOfEvents:
        ended = 'exhausted'
    finally:
        logger.setLevel(old_level)
        logger.removeHandler(handler)
    return list(LOG), sent, ended, len(queue)


def part_lifespan(rng, n):
    seqs = [
        ['lifespan.startup', 'lifespan.shutdown'],
        ['lifespan.startup', 'lifespan.shutdown'],
        ['lifespan.startup', 'lifespan.shutdown', 'lifespan.startup'],
        ['lifespan.shutdown', 'lifespan.startup'],
        ['lifespan.startup'],
        ['lifespan.bogus', 'lifespan.startup', 'lifespan.other', 'lifespan.shutdown'],
        ['lifespan.startup', 'lifespan.startup', 'lifespan.shutdown'],
        [],
    ]
    infos = [
        ({'version': '3.0'}, True),
        ({'version': '3.0', 'spec_version': '2.0'}, True),
        ({'version': '3.1', 'spec_version': '1.0'}, True),
        ({'version': '3.'}, True),
        ({'version': '2.0'}, False),
        ({'version': '2.3', 'spec_version': '2.1'}, False),
        ({'version': '4.0'}, False),
        ({'version': '33.0'}, False),
        ({'version': ''}, False),
        ({}, False),
        (None, False),
    ]
    for k in range(n):
        shapes = []
        for _ in range(rng.randint(0, 6)):
            s = set()
            if rng.random() < 0.7:
                s.add('startup')
            if rng.random() < 0.7:
                s.add('shutdown')
            if not s or rng.random() < 0.5:
                s |= set(rng.choice(ALL_SHAPES))
            shapes.append(frozenset(s))
        plan = {}
        for i, s in enumerate(shapes):
            for m in ('startup', 'shutdown'):
                if m in s and rng.random() < 0.2:
                    plan[('mw', i, m)] = 'raise'
        events = rng.choice(seqs)
        if k % 3 == 0:
            asgi_info, version_ok = infos[0]
        else:
            asgi_info, version_ok = rng.choice(infos)
        form_opt = rng.choice([False, False, False, True, 1, 'yes', 0, None])
        exp_trace, exp_sent = lifespan_model(shapes, plan, events, version_ok, bool(form_opt))
        trace, sent, ended, left = run_lifespan(
            shapes, plan, events, asgi_info, form_opt, debug_logging=(k % 2 == 0)
        )
        ok = trace == exp_trace and len(sent) == len(exp_sent)
        if ok:
            for ev, (etype, needle) in zip(sent, exp_sent):
                if ev['type'] != etype:
                    ok = False
                if needle is None and set(ev) != {'type'}:
                    ok = False
                if needle is not None and (
                    set(ev) != {'type', 'message'} or needle not in ev['message']
                ):
                    ok = False
        # exact text of the two sanity messages (taken from the unmodified tree)
        for ev in sent:
            msg = ev.get('message', '')
            if msg.startswith('Falcon requires'):
                detected = '2.0 (implicit)' if not asgi_info else asgi_info.get('version', '2.0 (implicit)')
                if asgi_info is None:
                    detected = '2.0'
                if msg != 'Falcon requires ASGI version 3.x. Detected: %s.' % detected:
                    ok = False
            elif msg.startswith('The deprecated'):
                if msg != (
                    'The deprecated WSGI RequestOptions.auto_parse_form_urlencoded '
                    'option is not supported for Falcon ASGI apps. '
                    'Please use Request.get_media() instead. '
                ):
                    ok = False
        # after a failure or a shutdown the app must stop consuming events
        terminal = bool(exp_sent) and (
            exp_sent[-1][0].endswith('.failed') or exp_sent[-1][0].startswith('lifespan.shutdown')
        )
        if terminal != (ended == 'returned'):
            ok = False
        if not ok:
            fail(
                'lifespan shapes=%s plan=%s events=%s asgi=%s form=%r\n   expected %s %s\n'
                '   got      %s %s (%s)'
                % (shapes, plan, events, asgi_info, form_opt, exp_trace, exp_sent, trace, sent, ended)
            )
        count('lifespan')


def main():
    rng = random.Random(20260301)
    part_exhaustive_single_fault()
    part_exhaustive_two_components()
    part_random(rng, 700)
    part_prepare(rng, 300)
    part_lifespan(rng, 600)
    finish()


if __name__ == '__main__':
    main()
