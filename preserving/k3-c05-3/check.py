"""Self-contained check of property C05 (responses are protocol-valid and
length-consistent on WSGI and ASGI).  Run as

    PYTHONPATH=<tree> /venv/bin/python check.py

A small reference model (written independently of falcon's code) predicts,
for every generated response, the status, the body bytes, Content-Length,
Content-Type and how many times the stream's close() is called; the program
drives falcon.App / falcon.asgi.App directly (no test client in between) and
compares.  Prints PASS and exits 0 when everything matches.
"""

import asyncio
import http
import inspect
import itertools
import json
import random
import re
import sys
from wsgiref.util import FileWrapper

import falcon
import falcon.asgi
from falcon.asgi import SSEvent
import falcon.testing as testing

FAILS = []
NCHECKS = [0]
NCASES = [0]


def check(cond, msg):
    NCHECKS[0] += 1
    if not cond:
        FAILS.append(msg)


class StreamBoom(Exception):
    pass


class SendBoom(Exception):
    pass


BODILESS = {100, 101, 204, 304}
TYPELESS = {204, 304}
STATUS_RE = re.compile(r'^\d{3} \S.*$')

STATUSES = [
    (None, 200),
    (200, 200),
    ('200 OK', 200),
    (http.HTTPStatus.OK, 200),
    (b'200 OK', 200),
    (201, 201),
    ('201 Created', 201),
    (http.HTTPStatus.CREATED, 201),
    (204, 204),
    ('204 No Content', 204),
    (http.HTTPStatus.NO_CONTENT, 204),
    (b'204 No Content', 204),
    ('204', 204),
    (304, 304),
    ('304 Not Modified', 304),
    (http.HTTPStatus.NOT_MODIFIED, 304),
    (100, 100),
    (101, 101),
    (http.HTTPStatus.SWITCHING_PROTOCOLS, 101),
    (404, 404),
    (http.HTTPStatus.NOT_FOUND, 404),
    (500, 500),
    (799, 799),
    ('745 Custom Thing', 745),
    ('418', 418),
]

METHODS = ['GET', 'HEAD', 'POST']

TEXTS = [None, '', 'hello', 'héllo 世界', b'raw-bytes-as-text']
DATAS = [None, b'', b'\x00\x01binary', b'x' * 3000]
MEDIAS = [None, {'a': 1, 'u': 'ü'}, [1, 2, 3], 0, '']

CHUNKSETS = [
    [],
    [b'one'],
    [b'a', b'bc', b'def'],
    [b'x' * 8192, b'y' * 8192, b'z'],
]


# ---------------------------------------------------------------------------
# Stream doubles
# ---------------------------------------------------------------------------


class WFile:
    """Sync file-like object: read() hands out the prepared chunks."""

    def __init__(self, chunks, fail_at=None):
        self.chunks = list(chunks)
        self.i = 0
        self.closed = 0
        self.fail_at = fail_at
        self.sizes = []

    def read(self, n=-1):
        self.sizes.append(n)
        if self.fail_at is not None and self.i == self.fail_at:
            raise StreamBoom()
        if self.i >= len(self.chunks):
            return b''
        c = self.chunks[self.i]
        self.i += 1
        return c

    def close(self):
        self.closed += 1


class WFileNoClose:
    def __init__(self, chunks, fail_at=None):
        self._f = WFile(chunks, fail_at)
        self.read = self._f.read

    closed = None


class WFileBadClose(WFile):
    # Not callable: CloseableStreamIterator is documented to ignore it.
    close = False


class WIter:
    """Sync iterator with a close() method (not file-like)."""

    def __init__(self, chunks, fail_at=None):
        self.chunks = list(chunks)
        self.i = 0
        self.closed = 0
        self.fail_at = fail_at

    def __iter__(self):
        return self

    def __next__(self):
        if self.fail_at is not None and self.i == self.fail_at:
            raise StreamBoom()
        if self.i >= len(self.chunks):
            raise StopIteration
        c = self.chunks[self.i]
        self.i += 1
        return c

    def close(self):
        self.closed += 1


def wgen(chunks, fail_at=None):
    for i, c in enumerate(chunks):
        if fail_at is not None and i == fail_at:
            raise StreamBoom()
        yield c
    if fail_at is not None and fail_at >= len(chunks):
        raise StreamBoom()


class AFile:
    """Async file-like object."""

    def __init__(self, chunks, fail_at=None):
        self.chunks = list(chunks)
        self.i = 0
        self.closed = 0
        self.fail_at = fail_at
        self.sizes = []

    async def read(self, n=-1):
        self.sizes.append(n)
        await asyncio.sleep(0)
        if self.fail_at is not None and self.i == self.fail_at:
            raise StreamBoom()
        if self.i >= len(self.chunks):
            return b''
        c = self.chunks[self.i]
        self.i += 1
        return c

    async def close(self):
        self.closed += 1


class AFileNoClose:
    closed = None

    def __init__(self, chunks, fail_at=None):
        self._f = AFile(chunks, fail_at)
        self.read = self._f.read


class AIter:
    """Async iterator (not a generator) with an async close()."""

    def __init__(self, chunks, fail_at=None):
        self.chunks = list(chunks)
        self.i = 0
        self.closed = 0
        self.fail_at = fail_at

    def __aiter__(self):
        return self

    async def __anext__(self):
        await asyncio.sleep(0)
        if self.fail_at is not None and self.i == self.fail_at:
            raise StreamBoom()
        if self.i >= len(self.chunks):
            raise StopAsyncIteration
        c = self.chunks[self.i]
        self.i += 1
        return c

    async def close(self):
        self.closed += 1


async def _agen(chunks, fail_at=None):
    for i, c in enumerate(chunks):
        if fail_at is not None and i == fail_at:
            raise StreamBoom()
        yield c
    if fail_at is not None and fail_at >= len(chunks):
        raise StreamBoom()


W_STREAM_KINDS = {
    'file': WFile,
    'file_noclose': WFileNoClose,
    'file_badclose': WFileBadClose,
    'iter': WIter,
    'gen': wgen,
    'list': lambda chunks, fail_at=None: list(chunks),
}
A_STREAM_KINDS = {
    'afile': AFile,
    'afile_noclose': AFileNoClose,
    'aiter': AIter,
    'agen': _agen,
}


# ---------------------------------------------------------------------------
# Spec -> response
# ---------------------------------------------------------------------------


class Spec:
    def __init__(self, **kw):
        self.status = (None, 200)
        self.method = 'GET'
        self.text = None
        self.data = None
        self.media = None
        self.stream_kind = None
        self.chunks = None
        self.fail_at = None
        self.preset_cl = None
        self.preset_ct = None
        self.deco = False
        self.custom = False
        self.sse = None
        self.file_wrapper = False
        self.__dict__.update(kw)
        self.stream_obj = None

    def __repr__(self):
        d = dict(self.__dict__)
        d.pop('stream_obj', None)
        return 'Spec(%r)' % (d,)


def apply_spec(resp, spec, kinds):
    if spec.status[0] is not None:
        resp.status = spec.status[0]
    if spec.preset_ct is not None:
        resp.content_type = spec.preset_ct
    if spec.media is not None:
        resp.media = spec.media
    if spec.data is not None:
        resp.data = spec.data
    if spec.text is not None:
        resp.text = spec.text
    if spec.stream_kind is not None:
        spec.stream_obj = kinds[spec.stream_kind](spec.chunks, spec.fail_at)
        if spec.preset_cl is not None and spec.preset_cl.isdigit():
            resp.set_stream(spec.stream_obj, int(spec.preset_cl))
        else:
            resp.stream = spec.stream_obj
    if spec.preset_cl is not None and spec.stream_kind is None:
        resp.set_header('Content-Length', spec.preset_cl)
    if spec.sse is not None:
        resp.sse = spec.sse()
    if spec.deco:
        resp.set_cookie('sid', 'abc123')
        resp.set_cookie('gone', 'x')
        resp.unset_cookie('gone')
        resp.append_header('X-Multi', '1')
        resp.append_header('X-Multi', '2')
        resp.append_header('Set-Cookie', 'raw=1')
        resp.set_header('X-Latin', 'café')
        resp.append_link('/next', 'next')


class WsgiResource:
    spec = None

    def on_get(self, req, resp):
        apply_spec(resp, self.spec, W_STREAM_KINDS)

    on_head = on_post = on_get


class AsgiResource:
    spec = None

    async def on_get(self, req, resp):
        apply_spec(resp, self.spec, A_STREAM_KINDS)

    on_head = on_post = on_get


class CustomWsgiResponse(falcon.Response):
    def render_body(self):
        data = super().render_body()
        if data is None:
            return None
        return b'<' + data + b'>'


class CustomAsgiResponse(falcon.asgi.Response):
    async def render_body(self):
        data = await super().render_body()
        if data is None:
            return None
        return b'<' + data + b'>'


# ---------------------------------------------------------------------------
# Reference model
# ---------------------------------------------------------------------------


def model_rendered(spec):
    if spec.text is not None:
        r = spec.text.encode() if isinstance(spec.text, str) else spec.text
    elif spec.data is not None:
        r = spec.data
    elif spec.media is not None:
        r = json.dumps(spec.media, ensure_ascii=False).encode()
    else:
        r = None
    if spec.custom and r is not None:
        r = b'<' + r + b'>'
    return r


def model(spec):
    """Return dict(body, cl, ct, streamed, bodyless)."""
    code = spec.status[1]
    r = model_rendered(spec)
    bodyless = spec.method == 'HEAD' or code in BODILESS
    streamed = r is None and spec.stream_kind is not None
    sse = spec.sse is not None and not bodyless
    media_chosen = spec.text is None and spec.data is None and spec.media is not None

    if bodyless:
        body = b''
    elif sse:
        body = None  # checked separately
    elif r is not None:
        body = r
    elif streamed:
        n = len(spec.chunks) if spec.fail_at is None else min(spec.fail_at, len(spec.chunks))
        body = b''.join(c or b'' for c in spec.chunks[:n])
    else:
        body = b''

    if sse:
        cl = spec.preset_cl
    elif not bodyless:
        cl = spec.preset_cl if streamed else str(len(r or b''))
    elif code in TYPELESS:
        cl = spec.preset_cl
    elif (
        spec.method == 'HEAD'
        and code not in BODILESS
        and not streamed
        and spec.preset_cl is None
    ):
        cl = str(len(r or b''))
    else:
        cl = spec.preset_cl

    if spec.preset_ct is not None:
        ct = spec.preset_ct
    elif media_chosen:
        # render_body() fills in the type it serialized the media with
        ct = 'application/json'
    elif code in TYPELESS:
        ct = None
    elif sse:
        ct = 'text/event-stream'
    else:
        ct = 'application/json'

    return dict(body=body, cl=cl, ct=ct, streamed=streamed, bodyless=bodyless, sse=sse)


def expected_status_line(spec):
    v = spec.status[0]
    if isinstance(v, str) and ' ' in v:
        return v
    if isinstance(v, bytes) and b' ' in v:
        return v.decode()
    return None


def check_common_headers(tag, spec, m, hdrs):
    """hdrs: list of (str lowercased name, str value)."""
    names = [n for n, _ in hdrs]
    d = {}
    for n, v in hdrs:
        d.setdefault(n, []).append(v)

    check(names.count('content-length') <= 1, f'{tag}: duplicate content-length')
    check(names.count('content-type') <= 1, f'{tag}: duplicate content-type')
    got_cl = d.get('content-length', [None])[0]
    check(got_cl == m['cl'], f'{tag}: content-length {got_cl!r} != model {m["cl"]!r}')
    got_ct = d.get('content-type', [None])[0]
    check(got_ct == m['ct'], f'{tag}: content-type {got_ct!r} != model {m["ct"]!r}')

    code = spec.status[1]
    if code in TYPELESS and spec.preset_ct is None and spec.media is None:
        check(got_ct is None, f'{tag}: 204/304 carries a framework content-type')
    if code not in TYPELESS:
        check(got_ct is not None, f'{tag}: missing content-type')

    if spec.deco:
        check(d.get('x-multi') == ['1, 2'], f'{tag}: x-multi {d.get("x-multi")!r}')
        check(d.get('x-latin') == ['café'], f'{tag}: x-latin {d.get("x-latin")!r}')
        check(d.get('link') == ['</next>; rel=next'], f'{tag}: link {d.get("link")!r}')
        sc = d.get('set-cookie', [])
        check(len(sc) == 3, f'{tag}: set-cookie count {sc!r}')
        check(sc[:1] == ['raw=1'], f'{tag}: extra header must precede cookies {sc!r}')
        check(any(c.startswith('sid=abc123') for c in sc), f'{tag}: sid cookie {sc!r}')
        check(any(c.startswith('gone=') and 'expires=' in c for c in sc), f'{tag}: gone cookie {sc!r}')
    else:
        check('set-cookie' not in d, f'{tag}: unexpected set-cookie')


# ---------------------------------------------------------------------------
# WSGI driver
# ---------------------------------------------------------------------------

_wsgi_apps = {}


def wsgi_app(custom):
    if custom not in _wsgi_apps:
        app = falcon.App(response_type=CustomWsgiResponse if custom else None)
        res = WsgiResource()
        app.add_route('/r', res)
        _wsgi_apps[custom] = (app, res)
    return _wsgi_apps[custom]


def run_wsgi(spec):
    NCASES[0] += 1
    tag = f'WSGI {spec!r}'
    app, res = wsgi_app(spec.custom)
    res.spec = spec
    env = testing.create_environ(method=spec.method, path='/r')
    env.pop('wsgi.file_wrapper', None)
    if spec.file_wrapper:
        env['wsgi.file_wrapper'] = FileWrapper

    calls = []

    def start_response(status, headers, exc_info=None):
        calls.append((status, headers, exc_info))

    body = app(env, start_response)
    check(len(calls) == 1, f'{tag}: start_response called {len(calls)} times')
    if len(calls) != 1:
        return

    status, headers, exc_info = calls[0]
    m = model(spec)
    code = spec.status[1]

    check(type(status) is str, f'{tag}: status not a native str: {status!r}')
    check(bool(STATUS_RE.match(status)), f'{tag}: malformed status line {status!r}')
    check(status[:3] == str(code), f'{tag}: status {status!r} != code {code}')
    exp_line = expected_status_line(spec)
    if exp_line is not None:
        check(status == exp_line, f'{tag}: status {status!r} != {exp_line!r}')

    check(type(headers) is list, f'{tag}: headers not a list')
    ok = all(
        type(h) is tuple and len(h) == 2 and type(h[0]) is str and type(h[1]) is str
        for h in headers
    )
    check(ok, f'{tag}: header pairs are not all (str, str): {headers!r}')
    if not ok:
        return
    check_common_headers(tag, spec, m, [(n.lower(), v) for n, v in headers])

    chunks = []
    err = None
    try:
        for c in body:
            chunks.append(c)
    except StreamBoom as ex:
        err = ex
    finally:
        if hasattr(body, 'close'):
            body.close()

    check(all(type(c) is bytes for c in chunks), f'{tag}: non-bytes body chunk')
    got = b''.join(chunks)
    check(got == m['body'], f'{tag}: body {got[:40]!r}.. != model {m["body"][:40]!r}..')
    if m['bodyless']:
        check(got == b'' and chunks == [], f'{tag}: bodyless response has chunks')
    if not m['bodyless'] and not m['streamed']:
        check(m['cl'] == str(len(got)), f'{tag}: content-length/body mismatch')

    if spec.fail_at is not None and m['streamed'] and not m['bodyless']:
        check(err is not None, f'{tag}: stream error was swallowed')
    else:
        check(err is None, f'{tag}: unexpected stream error')

    so = spec.stream_obj
    closed = getattr(so, 'closed', None)
    if isinstance(closed, int) and not isinstance(closed, bool):
        if m['streamed'] and not m['bodyless'] and spec.stream_kind != 'file_badclose':
            check(closed == 1, f'{tag}: close() called {closed} times')
        else:
            check(closed <= 1, f'{tag}: close() called {closed} times')
    if spec.stream_kind in ('file', 'file_noclose', 'file_badclose') and m['streamed']:
        f = so if isinstance(so, WFile) else so._f
        if not m['bodyless']:
            check(
                f.sizes and all(s == 8192 for s in f.sizes),
                f'{tag}: block sizes {f.sizes!r}',
            )


# ---------------------------------------------------------------------------
# ASGI driver
# ---------------------------------------------------------------------------

_asgi_apps = {}
_parked = []
_loop = asyncio.new_event_loop()


def asgi_app(custom):
    if custom not in _asgi_apps:
        app = falcon.asgi.App(response_type=CustomAsgiResponse if custom else None)
        res = AsgiResource()
        app.add_route('/r', res)
        _asgi_apps[custom] = (app, res)
    return _asgi_apps[custom]


def drive_asgi(app, method, send_fail_at=None):
    scope = testing.create_scope(method=method, path='/r')
    events = []
    attempts = [0]
    first = [True]

    async def receive():
        if first[0]:
            first[0] = False
            return {'type': 'http.request', 'body': b'', 'more_body': False}
        # Block "forever" (keep a strong reference so the watcher task of the
        # SSE branch is not garbage-collected while pending).
        ev = asyncio.Event()
        _parked.append(ev)
        await ev.wait()

    async def send(ev):
        i = attempts[0]
        attempts[0] += 1
        await asyncio.sleep(0)
        if send_fail_at is not None and i == send_fail_at:
            raise SendBoom()
        events.append(ev)

    err = None
    try:
        _loop.run_until_complete(app(scope, receive, send))
    except (StreamBoom, SendBoom) as ex:
        err = ex
    return events, err, attempts[0]


def check_asgi_event_shapes(tag, events, complete):
    """Protocol validity of what the server saw."""
    if not events:
        return
    ev0 = events[0]
    check(ev0.get('type') == 'http.response.start', f'{tag}: first event {ev0!r}')
    check(
        sum(1 for e in events if e.get('type') == 'http.response.start') == 1,
        f'{tag}: not exactly one start event',
    )
    check(type(ev0.get('status')) is int, f'{tag}: status not int {ev0.get("status")!r}')
    hdrs = ev0.get('headers')
    ok = type(hdrs) is list and all(
        len(h) == 2 and type(h[0]) is bytes and type(h[1]) is bytes and h[0] == h[0].lower()
        for h in hdrs
    )
    check(ok, f'{tag}: bad header list {hdrs!r}')
    bodies = events[1:]
    for e in bodies:
        check(e.get('type') == 'http.response.body', f'{tag}: bad event {e!r}')
        check(type(e.get('body', b'')) is bytes, f'{tag}: body not bytes {e!r}')
    if complete:
        check(len(bodies) >= 1, f'{tag}: no body event')
        for e in bodies[:-1]:
            check(e.get('more_body') is True, f'{tag}: early final event {e!r}')
        if bodies:
            check(not bodies[-1].get('more_body', False), f'{tag}: last event not final')
    else:
        for e in bodies:
            check(e.get('more_body') is True, f'{tag}: final event on failed response')


def run_asgi(spec, send_fail_at=None, sse_expected=None):
    NCASES[0] += 1
    tag = f'ASGI {spec!r} send_fail_at={send_fail_at}'
    app, res = asgi_app(spec.custom)
    res.spec = spec
    m = model(spec)
    code = spec.status[1]

    events, err, attempts = drive_asgi(app, spec.method, send_fail_at)

    stream_fails = spec.fail_at is not None and m['streamed'] and not m['bodyless']
    if send_fail_at is not None and send_fail_at < attempts and isinstance(err, SendBoom):
        complete = False
    elif stream_fails:
        check(isinstance(err, StreamBoom), f'{tag}: stream error swallowed ({err!r})')
        complete = False
    else:
        check(err is None, f'{tag}: unexpected error {err!r}')
        complete = True

    check_asgi_event_shapes(tag, events, complete)

    if events:
        ev0 = events[0]
        check(ev0.get('status') == code, f'{tag}: status {ev0.get("status")!r} != {code}')
        hdrs = [(n.decode('latin1'), v.decode('latin1')) for n, v in ev0['headers']]
        check_common_headers(tag, spec, m, hdrs)

    if complete:
        got = b''.join(e.get('body', b'') for e in events[1:])
        if m['sse']:
            exp = b''.join(sse_expected)
            check(got == exp, f'{tag}: sse body {got!r} != {exp!r}')
            check(len(events) == len(sse_expected) + 2, f'{tag}: sse event count')
        else:
            check(got == m['body'], f'{tag}: body {got[:40]!r} != model {m["body"][:40]!r}')
            if m['bodyless']:
                check(len(events) == 2, f'{tag}: bodyless response has {len(events)} events')
            if not m['bodyless'] and not m['streamed']:
                check(m['cl'] == str(len(got)), f'{tag}: content-length/body mismatch')
            if m['streamed'] and not m['bodyless']:
                exp_events = [c or b'' for c in spec.chunks]
                got_events = [e.get('body', b'') for e in events[1:-1]]
                check(got_events == exp_events, f'{tag}: chunk events {got_events!r}')

    so = spec.stream_obj
    closed = getattr(so, 'closed', None)
    if isinstance(closed, int) and not isinstance(closed, bool):
        began = m['streamed'] and not m['bodyless'] and send_fail_at != 0
        if began:
            check(closed == 1, f'{tag}: close() awaited {closed} times')
        else:
            check(closed == 0, f'{tag}: close() awaited {closed} times before streaming')
    if spec.stream_kind in ('afile', 'afile_noclose') and m['streamed'] and not m['bodyless']:
        f = so if isinstance(so, AFile) else so._f
        if send_fail_at != 0:
            check(f.sizes and all(s == 8192 for s in f.sizes), f'{tag}: sizes {f.sizes!r}')
    return events, err


# ---------------------------------------------------------------------------
# Generic matrix
# ---------------------------------------------------------------------------


def body_combos(kinds):
    """Single sources and several-at-once combinations."""
    out = []
    for t in TEXTS:
        out.append(dict(text=t))
    for d in DATAS[1:]:
        out.append(dict(data=d))
    for md in MEDIAS[1:]:
        out.append(dict(media=md))
    for k in kinds:
        for cs in CHUNKSETS:
            out.append(dict(stream_kind=k, chunks=cs))
    k0 = list(kinds)[0]
    k1 = list(kinds)[-1]
    out += [
        dict(text='T', data=b'D'),
        dict(text='T', media={'m': 1}),
        dict(data=b'D', media={'m': 1}),
        dict(text='', data=b'D', media={'m': 1}),
        dict(data=b'', media={'m': 1}, stream_kind=k0, chunks=[b'S1', b'S2']),
        dict(text='T', stream_kind=k0, chunks=[b'S1', b'S2']),
        dict(media=[1], stream_kind=k1, chunks=[b'S1', b'S2']),
        dict(media=0, stream_kind=k0, chunks=[b'S1']),
        dict(text='T', data=b'D', media={'m': 1}, stream_kind=k1, chunks=[b'S']),
    ]
    return out


def generic_matrix(rng, n_wsgi=1500, n_asgi=1200):
    wb = body_combos(W_STREAM_KINDS)
    ab = body_combos(A_STREAM_KINDS)

    def mk(bodies):
        kw = dict(rng.choice(bodies))
        kw['status'] = rng.choice(STATUSES)
        kw['method'] = rng.choice(METHODS)
        kw['preset_cl'] = rng.choice([None, None, '5', '0', '123456'])
        kw['preset_ct'] = rng.choice([None, None, 'text/plain', 'application/x-custom; v=1'])
        kw['deco'] = rng.random() < 0.3
        kw['custom'] = rng.random() < 0.3
        if kw.get('text') is None and kw.get('data') is None and kw.get('media') is not None:
            # the media handler is picked by content type; keep to types that
            # have a handler so that serialization succeeds
            kw['preset_ct'] = rng.choice([None, 'application/json', 'application/json; charset=UTF-8'])
        return kw

    # every body combo x every status at least once with the plain settings
    for b in wb:
        for st in STATUSES[::3]:
            for meth in ('GET', 'HEAD'):
                kw = dict(b, status=st, method=meth)
                if kw.get('stream_kind') == 'file_badclose':
                    run_wsgi(Spec(file_wrapper=False, **kw))
                else:
                    run_wsgi(Spec(file_wrapper=bool(len(repr(kw)) % 2), **kw))
    for b in ab:
        for st in STATUSES[1::4]:
            for meth in ('GET', 'HEAD'):
                run_asgi(Spec(**dict(b, status=st, method=meth)))

    for _ in range(n_wsgi):
        kw = mk(wb)
        fw = rng.random() < 0.5 and kw.get('stream_kind') != 'file_badclose'
        run_wsgi(Spec(file_wrapper=fw, **kw))
    for _ in range(n_asgi):
        run_asgi(Spec(**mk(ab)))


def fault_matrix():
    # WSGI: the stream raises after k chunks, with and without file_wrapper
    for kind in ('file', 'file_noclose', 'iter', 'gen'):
        for cs in CHUNKSETS:
            for k in range(len(cs) + 1):
                for fw in (False, True):
                    for st in ((None, 200), (404, 404), (204, 204)):
                        for meth in ('GET', 'HEAD'):
                            run_wsgi(
                                Spec(
                                    stream_kind=kind,
                                    chunks=cs,
                                    fail_at=k,
                                    file_wrapper=fw,
                                    status=st,
                                    method=meth,
                                )
                            )
    # ASGI: the stream raises after k chunks and/or send fails at call n
    for kind in A_STREAM_KINDS:
        for cs in CHUNKSETS:
            for k in [None] + list(range(len(cs) + 1)):
                for n in [None] + list(range(len(cs) + 3)):
                    for st, meth in (((None, 200), 'GET'), ((201, 201), 'POST'), ((304, 304), 'GET'), ((200, 200), 'HEAD')):
                        run_asgi(
                            Spec(stream_kind=kind, chunks=cs, fail_at=k, status=st, method=meth),
                            send_fail_at=n,
                        )
    # ASGI: send fails for non-streamed bodies too
    for n in (0, 1, 2):
        for kw in (dict(text='abc'), dict(data=b''), dict(media={'k': 'v'}), dict()):
            for meth in ('GET', 'HEAD'):
                run_asgi(Spec(method=meth, **kw), send_fail_at=n)


# ---------------------------------------------------------------------------
# SSE
# ---------------------------------------------------------------------------


def model_sse(ev, dumps=None):
    """Independent serialization model for an SSEvent-like field set."""
    out = ''
    if ev.get('comment') is not None:
        out += ': ' + ev['comment'] + '\n'
    if ev.get('event') is not None:
        out += 'event: ' + ev['event'] + '\n'
    if ev.get('event_id') is not None:
        out += 'id: ' + ev['event_id'] + '\n'
    if ev.get('retry') is not None:
        out += 'retry: ' + str(ev['retry']) + '\n'
    if ev.get('data') is not None:
        out += 'data: ' + ev['data'].decode('utf-8') + '\n'
    elif ev.get('text') is not None:
        out += 'data: ' + ev['text'] + '\n'
    elif ev.get('json') is not None:
        dumps = dumps or (lambda o: json.dumps(o, ensure_ascii=False).encode())
        return out.encode('utf-8') + b'data: ' + dumps(ev['json']) + b'\n\n'
    if out == '':
        return b': ping\n\n'
    return (out + '\n').encode('utf-8')


SSE_FIELDSETS = [
    None,
    {},
    {'data': b'raw \xc3\xa9'},
    {'text': 'some text'},
    {'json': {'k': [1, 2], 'u': 'é'}},
    {'json': 0},
    {'event': 'tick', 'event_id': '7', 'retry': 1500, 'comment': 'c', 'text': 't'},
    {'comment': ''},
    {'event': 'only-event'},
    {'retry': 0, 'json': []},
    {'data': b'', 'text': 'ignored', 'json': {'ignored': True}},
]


def sse_end_to_end():
    for n in range(0, len(SSE_FIELDSETS) + 1):
        fieldsets = SSE_FIELDSETS[:n]

        def emitter(fieldsets=fieldsets):
            async def gen():
                for fs in fieldsets:
                    yield None if fs is None else SSEvent(**fs)

            return gen()

        expected = [model_sse(fs or {}) for fs in fieldsets]
        for st, meth in (
            ((None, 200), 'GET'),
            ((201, 201), 'POST'),
            ((200, 200), 'HEAD'),
            ((204, 204), 'GET'),
            ((304, 304), 'HEAD'),
        ):
            for ct in (None, 'text/event-stream; charset=utf-8'):
                for deco in (False, True):
                    run_asgi(
                        Spec(sse=emitter, status=st, method=meth, preset_ct=ct, deco=deco),
                        sse_expected=expected,
                    )
        # send failing at every point of the SSE exchange
        for fail in range(0, n + 2):
            spec = Spec(sse=emitter)
            run_asgi(spec, send_fail_at=fail, sse_expected=expected)


def finish():
    try:
        pending = [t for t in asyncio.all_tasks(_loop) if not t.done()]
        for t in pending:
            t.cancel()
        if pending:
            _loop.run_until_complete(asyncio.gather(*pending, return_exceptions=True))
        _loop.close()
    except Exception:
        pass
    if FAILS:
        print(f'FAIL: {len(FAILS)} of {NCHECKS[0]} checks failed ({NCASES[0]} cases)')
        for f in FAILS[:25]:
            print('  -', f[:600])
        sys.exit(1)
    print(f'PASS ({NCASES[0]} cases, {NCHECKS[0]} checks) on falcon at {falcon.__file__}')
    sys.exit(0)


# ---------------------------------------------------------------------------
# Change-specific part: SSEvent.serialize()
# ---------------------------------------------------------------------------


class UpperHandler:
    """Custom media handler double: only serialize() is used by SSEvent."""

    def __init__(self):
        self.calls = []

    def serialize(self, media, content_type):
        self.calls.append((media, content_type))
        return b'<' + json.dumps(media, sort_keys=True).upper().encode() + b'>'


def model_sse2(fields, dumps):
    """Independent model, tolerant of non-str attribute values (str() ==
    format(x, '') for every value used here)."""
    out = ''
    if fields.get('comment') is not None:
        out += ': ' + str(fields['comment']) + '\n'
    if fields.get('event') is not None:
        out += 'event: ' + str(fields['event']) + '\n'
    if fields.get('event_id') is not None:
        out += 'id: ' + str(fields['event_id']) + '\n'
    if fields.get('retry') is not None:
        out += 'retry: ' + str(fields['retry']) + '\n'
    if fields.get('data') is not None:
        out += 'data: ' + fields['data'].decode('utf-8') + '\n'
    elif fields.get('text') is not None:
        out += 'data: ' + str(fields['text']) + '\n'
    elif fields.get('json') is not None:
        payload = dumps(fields['json'])
        return (out + 'data: ').encode('utf-8') + payload + b'\n\n'
    if out == '':
        return b': ping\n\n'
    return (out + '\n').encode('utf-8')


def outcome(fn):
    try:
        return ('ok', fn())
    except Exception as ex:  # noqa: BLE001 - the *type* is what we compare
        return ('err', type(ex))


def specific():
    comments = [None, '', 'c', 'multi word é', 'line\nbreak', '\udcff']
    events = [None, '', 'tick']
    ids = [None, '', '42', 'ü']
    retries = [None, 0, -5, 1500, True]
    payloads = [
        {},
        {'data': b''},
        {'data': b'raw'},
        {'data': 'é€'.encode()},
        {'data': b'\xff\xfe'},
        {'text': ''},
        {'text': 'txt'},
        {'text': 'snow ☃'},
        {'text': '\udcff'},
        {'json': 0},
        {'json': False},
        {'json': ''},
        {'json': []},
        {'json': {}},
        {'json': {'a': 'é', 'n': [1, 2.5, None]}},
        {'json': object()},
        {'data': b'D', 'text': 'T', 'json': {'j': 1}},
        {'data': b'', 'json': [1]},
        {'text': '', 'json': [1]},
        {'text': 'T', 'json': object()},
    ]

    default_dumps = lambda o: json.dumps(o, ensure_ascii=False).encode()  # noqa: E731
    upper = UpperHandler()
    upper_dumps = lambda o: b'<' + json.dumps(o, sort_keys=True).upper().encode() + b'>'  # noqa: E731
    app_handler = falcon.asgi.App().resp_options.media_handlers['application/json']

    n = 0
    for comment, event, event_id, retry, payload in itertools.product(
        comments, events, ids, retries, payloads
    ):
        fields = dict(payload, comment=comment, event=event, event_id=event_id, retry=retry)
        ev = SSEvent(**fields)
        n += 1
        for handler, dumps in (
            (None, default_dumps),
            (upper, upper_dumps),
            (app_handler, default_dumps),
        )[: 3 if n % 5 == 0 else 1]:
            NCASES[0] += 1
            before = len(upper.calls)
            got = outcome(lambda: ev.serialize(handler) if handler is not None or n % 2 else ev.serialize())
            exp = outcome(lambda: model_sse2(fields, dumps))
            check(got == exp, f'SSE {fields!r} handler={handler!r}: {got!r} != {exp!r}')
            if got[0] == 'ok':
                check(type(got[1]) is bytes, f'SSE {fields!r}: not bytes')
                check(got[1].endswith(b'\n\n'), f'SSE {fields!r}: no blank-line terminator')
            if handler is upper:
                uses_json = 'json' in payload and 'data' not in payload and 'text' not in payload
                exp_calls = 1 if uses_json else 0
                check(
                    len(upper.calls) - before == exp_calls,
                    f'SSE {fields!r}: handler called {len(upper.calls) - before} times',
                )
                if uses_json and len(upper.calls) > before:
                    check(
                        upper.calls[-1][1] == falcon.MEDIA_JSON,
                        f'SSE {fields!r}: handler content type {upper.calls[-1][1]!r}',
                    )
            # serialize() is repeatable and leaves the event untouched
            if n % 11 == 0:
                again = outcome(lambda: ev.serialize(handler))
                check(again == got, f'SSE {fields!r}: second serialize differs')
                for k, v in fields.items():
                    check(getattr(ev, k) is v, f'SSE {fields!r}: attribute {k} changed')

    # attributes assigned after construction (no validation there)
    rng = random.Random(5053)
    pool = {
        'comment': [None, 'k', 7],
        'event': [None, 'e', 3.5],
        'event_id': [None, 'i', 12],
        'retry': [None, 10, '20'],
        'data': [None, b'B', bytearray(b'BA')],
        'text': [None, 'T', 99],
        'json': [None, {'x': 1}, 'S'],
    }
    for _ in range(400):
        NCASES[0] += 1
        fields = {k: rng.choice(v) for k, v in pool.items()}
        ev = SSEvent()
        for k, v in fields.items():
            setattr(ev, k, v)
        got = outcome(lambda: ev.serialize())
        exp = outcome(lambda: model_sse2(fields, default_dumps))
        check(got == exp, f'SSE late-set {fields!r}: {got!r} != {exp!r}')

    # end to end: random event sequences through falcon.asgi.App
    ok_payloads = [p for p in payloads if b'\xff\xfe' not in p.values()
                   and '\udcff' not in p.values()
                   and not any(type(v) is object for v in p.values())]
    for _ in range(150):
        seq = []
        for _ in range(rng.randrange(0, 6)):
            if rng.random() < 0.15:
                seq.append(None)
            else:
                seq.append(dict(
                    rng.choice(ok_payloads),
                    comment=rng.choice(comments[:4]),
                    event=rng.choice(events),
                    event_id=rng.choice(ids),
                    retry=rng.choice(retries),
                ))

        def emitter(seq=seq):
            async def gen():
                for fs in seq:
                    yield None if fs is None else SSEvent(**fs)

            return gen()

        expected = [model_sse2(fs or {}, default_dumps) for fs in seq]
        fail = rng.choice([None, None] + list(range(len(seq) + 2)))
        run_asgi(
            Spec(sse=emitter, method=rng.choice(['GET', 'POST']), deco=rng.random() < 0.3),
            send_fail_at=fail,
            sse_expected=expected,
        )


def main():
    rng = random.Random(505)
    generic_matrix(rng)
    fault_matrix()
    sse_end_to_end()
    specific()
    finish()


if __name__ == '__main__':
    main()
