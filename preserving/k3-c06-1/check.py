"""Check for change 1 (WSGI Request.__init__: QUERY_STRING pre-check).

Exercises property C06 (WSGI, ASGI and the test client are observationally
equivalent) with a focus on the query string / query parameters that the
changed block computes:

  A. falcon.Request built from an environ (QUERY_STRING present, empty or
     MISSING) is compared against
       - a tiny reference model  (query_string == env.get('QUERY_STRING', ''),
         params == parse_query_string(...) if the string is non-empty else {});
       - falcon.asgi.Request built from the equivalent ASGI scope.
  B. The same responder mounted on falcon.App and falcon.asgi.App is driven
       - through falcon.testing.simulate_request, and
       - through minimal hand-written WSGI / ASGI server drivers
         (the WSGI driver also OMITS the QUERY_STRING key when it is empty),
     and all four results must agree with each other and with the model.

Run:  PYTHONPATH=<tree> /venv/bin/python check.py
"""

import asyncio
import io
import itertools
import json
import random
import sys

import falcon
import falcon.asgi
from falcon import testing
from falcon.util.uri import parse_query_string

FAILURES = []
COUNT = {'unit': 0, 'stack': 0}


def fail(msg):
    FAILURES.append(msg)
    if len(FAILURES) <= 15:
        print('FAIL:', msg)


# ---------------------------------------------------------------------------
# Input generation
# ---------------------------------------------------------------------------

KEYS = ['a', 'b', 'id', 'q', 'x-y', 'caf%C3%A9', 'k%20k', 'A', 'empty', 't']
VALS = [
    '', '1', '-7', 'true', 'a,b', 'a,,b', ',', 'x%2Cy', '%E2%9C%93', 'a+b', '%',
    '%zz', '%C3', 'café', ' sp ', 'v=w', '0', 'False', '1,2,3', '%26', '%3D',
]
FIXED_QS = [
    '', 'a', 'a=', '=a', '=', '&', '&&', 'a&b', 'a=1&a=2', 'a=1&a=2&a=3', 'a=&a=',
    'a=1,2&a=3', 'a=,', 'a=1&&b=2', 'a=1&b', '&a=1', 'a=1&', 'a==1', 'a=1=2',
    'a=b=c&d', 'x=%', 'x=%2', 'x=%zz', '%=1', 'a=%00', 'a=+', '+=+', 'a=%2B',
    'a=é', 'é=1', 'a=1;b=2', 'a[]=1&a[]=2', 'a.b=1', 'a=1#frag',
    'A=1&a=2', 'empty=&t=1', 'q=a,b,c', 'q=a,b,c&q=d', 'q=,,', 'q=%2C',
    ' =1', 'a= ', '0', '0=0', 'None', 'a=None',
]


def gen_query_strings(rng, n):
    out = list(FIXED_QS)
    while len(out) < n:
        parts = []
        for _ in range(rng.randint(1, 5)):
            k = rng.choice(KEYS)
            form = rng.random()
            if form < 0.1:
                parts.append(k)
            elif form < 0.15:
                parts.append('')
            else:
                parts.append(k + '=' + rng.choice(VALS))
        out.append('&'.join(parts))
    return out


OPTION_COMBOS = list(itertools.product([False, True], repeat=3))


def make_options(strip, keep_blank, csv):
    opts = falcon.RequestOptions()
    opts.strip_url_path_trailing_slash = strip
    opts.keep_blank_qs_values = keep_blank
    opts.auto_parse_qs_csv = csv
    return opts


# ---------------------------------------------------------------------------
# Reference model
# ---------------------------------------------------------------------------


def model_params(qs, keep_blank, csv):
    if not qs:
        return {}
    return parse_query_string(qs, keep_blank=keep_blank, csv=csv)


def outcome(fn):
    try:
        return ('ok', fn())
    except falcon.HTTPError as ex:
        return ('http', type(ex).__name__, ex.status, ex.title, ex.description)
    except Exception as ex:  # pragma: no cover - reported as a difference
        return ('exc', type(ex).__name__, str(ex))


def snapshot(req):
    snap = {
        'method': req.method,
        'path': req.path,
        'query_string': req.query_string,
        'params': dict(req.params),
        'uri': outcome(lambda: req.uri),
        'url': outcome(lambda: req.url),
        'relative_uri': outcome(lambda: req.relative_uri),
        'forwarded_uri': outcome(lambda: req.forwarded_uri),
        'prefix': outcome(lambda: req.prefix),
        'host': outcome(lambda: req.host),
        'port': outcome(lambda: req.port),
        'scheme': req.scheme,
        'netloc': outcome(lambda: req.netloc),
        'content_type': req.content_type,
        'content_length': outcome(lambda: req.content_length),
        'user_agent': req.user_agent,
        'headers_lower': dict(req.headers_lower),
    }
    for key in ('a', 'b', 'q', 'empty', 'missing', 'café', 'k k'):
        snap['get_param:' + key] = outcome(lambda: req.get_param(key))
        snap['get_param_as_list:' + key] = outcome(lambda: req.get_param_as_list(key))
        snap['has_param:' + key] = req.has_param(key)
        snap['get_param_as_int:' + key] = outcome(lambda: req.get_param_as_int(key))
        snap['get_param_as_bool:' + key] = outcome(lambda: req.get_param_as_bool(key))
    snap['required'] = outcome(lambda: req.get_param('missing', required=True))
    return snap


async def _no_receive():  # pragma: no cover - never awaited here
    return {'type': 'http.disconnect'}


# ---------------------------------------------------------------------------
# Part A: request objects
# ---------------------------------------------------------------------------


def check_units(rng):
    query_strings = gen_query_strings(rng, 330)
    paths = ['/', '/a', '/a/', '/a/b/', '//', '/caf%C3%A9/', '/%FF/x']
    for i, qs in enumerate(query_strings):
        strip, keep_blank, csv = OPTION_COMBOS[i % 8]
        path = paths[i % len(paths)]
        method = ('GET', 'POST', 'HEAD', 'PUT')[i % 4]
        # "mode" selects how the environ carries an empty/absent query string
        for mode in ('present', 'missing', 'none'):
            if mode != 'present' and qs:
                continue
            COUNT['unit'] += 1
            env = testing.create_environ(path=path, query_string=qs, method=method)
            assert env['QUERY_STRING'] == qs
            if mode == 'missing':
                del env['QUERY_STRING']
            elif mode == 'none':
                env['QUERY_STRING'] = None
            wsgi_req = falcon.Request(env, options=make_options(strip, keep_blank, csv))

            exp_qs = env.get('QUERY_STRING', '')
            exp_params = model_params(exp_qs, keep_blank, csv)
            label = 'unit qs=%r mode=%s opts=%r' % (qs, mode, (strip, keep_blank, csv))
            if wsgi_req.query_string != exp_qs or type(wsgi_req.query_string) is not type(exp_qs):
                fail('%s: query_string %r != %r' % (label, wsgi_req.query_string, exp_qs))
            if wsgi_req._params != exp_params or type(wsgi_req._params) is not dict:
                fail('%s: params %r != %r' % (label, wsgi_req._params, exp_params))
            if wsgi_req.params is not wsgi_req._params:
                fail('%s: params is not _params' % label)

            if mode == 'none':
                continue

            scope = testing.create_scope(path=path, query_string=qs, method=method)
            asgi_req = falcon.asgi.Request(
                scope, _no_receive, options=make_options(strip, keep_blank, csv)
            )
            a, b = snapshot(wsgi_req), snapshot(asgi_req)
            if a != b:
                diff = {k: (a[k], b[k]) for k in a if a[k] != b[k]}
                fail('%s: WSGI/ASGI request differ: %r' % (label, diff))
            # the default options object must behave like explicit defaults
            if i % 8 == 0:
                d = falcon.Request(testing.create_environ(path=path, query_string=qs))
                e = falcon.Request(
                    testing.create_environ(path=path, query_string=qs),
                    options=falcon.RequestOptions(),
                )
                if d._params != e._params or d.query_string != e.query_string:
                    fail('%s: default options differ' % label)


    # A server is allowed to omit QUERY_STRING (or to set it to ''): sweep
    # that over paths, methods, option combinations and a few headers.
    hdr_sets = (None, {'Content-Type': 'application/json'}, {'X-Forwarded-Host': 'fw.example'})
    for path in paths:
        for method in ('GET', 'POST', 'HEAD', 'OPTIONS'):
            for combo in OPTION_COMBOS:
                for hdrs in hdr_sets[: 1 + (len(path) % 3)]:
                    COUNT['unit'] += 1
                    label = 'unit-missing %s %r opts=%r hdrs=%r' % (method, path, combo, hdrs)
                    env_missing = testing.create_environ(path=path, method=method, headers=hdrs)
                    del env_missing['QUERY_STRING']
                    env_empty = testing.create_environ(path=path, method=method, headers=hdrs)
                    scope = testing.create_scope(path=path, method=method, headers=hdrs)
                    r_missing = falcon.Request(env_missing, options=make_options(*combo))
                    r_empty = falcon.Request(env_empty, options=make_options(*combo))
                    r_asgi = falcon.asgi.Request(scope, _no_receive, options=make_options(*combo))
                    if r_missing.query_string != '' or r_missing._params != {}:
                        fail('%s: %r %r' % (label, r_missing.query_string, r_missing._params))
                    if type(r_missing._params) is not dict or 'QUERY_STRING' in r_missing.env:
                        fail('%s: params type / env mutated' % label)
                    a, b, c = snapshot(r_missing), snapshot(r_empty), snapshot(r_asgi)
                    if a != b or a != c:
                        fail('%s: missing/empty/ASGI snapshots differ' % label)


# ---------------------------------------------------------------------------
# Part B: full stacks
# ---------------------------------------------------------------------------


def describe(req):
    return {
        'method': req.method,
        'path': req.path,
        'qs': req.query_string,
        'params': req.params,
        'uri': req.uri,
        'relative_uri': req.relative_uri,
        'a': req.get_param('a'),
        'a_list': req.get_param_as_list('a'),
        'has_q': req.has_param('q'),
        'host': req.host,
        'port': req.port,
        'scheme': req.scheme,
    }


class WsgiEcho:
    def on_get(self, req, resp, **kw):
        resp.media = describe(req)
        resp.set_header('X-Param-Count', str(len(req.params)))

    on_post = on_get


class AsgiEcho:
    async def on_get(self, req, resp, **kw):
        resp.media = describe(req)
        resp.set_header('X-Param-Count', str(len(req.params)))

    on_post = on_get


def make_apps(strip, keep_blank, csv):
    apps = []
    for cls, res in ((falcon.App, WsgiEcho()), (falcon.asgi.App, AsgiEcho())):
        app = cls()
        app.req_options.strip_url_path_trailing_slash = strip
        app.req_options.keep_blank_qs_values = keep_blank
        app.req_options.auto_parse_qs_csv = csv
        app.add_route('/echo', res)
        app.add_route('/echo/{tail}', res)
        apps.append(app)
    return apps


def drive_wsgi(app, method, path, qs, omit_empty_qs):
    """Minimal PEP 3333 driver (no falcon.testing involved)."""
    env = {
        'REQUEST_METHOD': method,
        'SCRIPT_NAME': '',
        'PATH_INFO': path,
        'SERVER_NAME': 'falconframework.org',
        'SERVER_PORT': '80',
        'SERVER_PROTOCOL': 'HTTP/1.1',
        'HTTP_HOST': 'falconframework.org',
        'HTTP_USER_AGENT': 'driver',
        'wsgi.version': (1, 0),
        'wsgi.url_scheme': 'http',
        'wsgi.input': io.BytesIO(b''),
        'wsgi.errors': sys.stderr,
        'wsgi.multithread': False,
        'wsgi.multiprocess': False,
        'wsgi.run_once': False,
    }
    if qs or not omit_empty_qs:
        env['QUERY_STRING'] = qs
    captured = {}

    def start_response(status, headers, exc_info=None):
        captured['status'] = status
        captured['headers'] = headers

    body = b''.join(app(env, start_response))
    return captured['status'], sorted((k.lower(), v) for k, v in captured['headers']), body


def drive_asgi(app, method, path, qs):
    """Minimal ASGI HTTP driver (no falcon.testing involved)."""
    scope = {
        'type': 'http',
        'asgi': {'version': '3.0', 'spec_version': '2.1'},
        'http_version': '1.1',
        'method': method,
        'scheme': 'http',
        'path': path,
        'raw_path': path.encode(),
        'query_string': qs.encode(),
        'root_path': '',
        'headers': [(b'host', b'falconframework.org'), (b'user-agent', b'driver')],
        'server': ('falconframework.org', 80),
    }
    sent = []
    events = [{'type': 'http.request', 'body': b'', 'more_body': False}]

    async def receive():
        if events:
            return events.pop(0)
        return {'type': 'http.disconnect'}

    async def send(event):
        sent.append(event)

    asyncio.run(app(scope, receive, send))
    start = [e for e in sent if e['type'] == 'http.response.start'][0]
    body = b''.join(e.get('body', b'') for e in sent if e['type'] == 'http.response.body')
    headers = sorted((k.decode('latin1'), v.decode('latin1')) for k, v in start['headers'])
    return falcon.code_to_http_status(start['status']), headers, body


def normalize_result(result):
    return result.status, sorted((k.lower(), v) for k, v in result.headers.items()), result.content


def check_stacks(rng):
    query_strings = gen_query_strings(rng, 110)
    for i, qs in enumerate(query_strings):
        strip, keep_blank, csv = OPTION_COMBOS[(i // 3) % 8]
        wsgi_app, asgi_app = make_apps(strip, keep_blank, csv)
        path = ('/echo', '/echo/', '/echo/x', '/echo/x/')[i % 4]
        method = ('GET', 'POST')[i % 2]
        COUNT['stack'] += 1
        label = 'stack qs=%r path=%r opts=%r' % (qs, path, (strip, keep_blank, csv))

        headers = {'User-Agent': 'driver'}
        r_wsgi = normalize_result(
            testing.simulate_request(wsgi_app, method, path, query_string=qs, headers=headers)
        )
        r_asgi = normalize_result(
            testing.simulate_request(asgi_app, method, path, query_string=qs, headers=headers)
        )
        d_wsgi = drive_wsgi(wsgi_app, method, path, qs, omit_empty_qs=False)
        d_wsgi_omit = drive_wsgi(wsgi_app, method, path, qs, omit_empty_qs=True)
        d_asgi = drive_asgi(asgi_app, method, path, qs)

        results = {
            'client/wsgi': r_wsgi,
            'client/asgi': r_asgi,
            'driver/wsgi': d_wsgi,
            'driver/wsgi-omit': d_wsgi_omit,
            'driver/asgi': d_asgi,
        }
        for name, res in results.items():
            if res != r_wsgi:
                fail('%s: %s differs from client/wsgi:\n   %r\n   %r' % (label, name, res, r_wsgi))

        status, _, body = r_wsgi
        stripped = strip and path.endswith('/')
        exp_path = path[:-1] if stripped else path
        # NOTE: expectations taken from the unmodified tree: the compiled
        #   router matches '/echo/' against '/echo/{tail}' (empty tail), but
        #   does not match '/echo/x/' unless the trailing slash is stripped.
        if exp_path == '/echo/x/':
            if status != '404 Not Found':
                fail('%s: expected 404, got %s' % (label, status))
            continue
        if status != '200 OK':
            fail('%s: expected 200, got %s' % (label, status))
            continue
        doc = json.loads(body)
        exp_params = model_params(qs, keep_blank, csv)
        if doc['qs'] != qs or doc['params'] != exp_params or doc['path'] != exp_path:
            fail('%s: echoed %r, expected qs=%r params=%r' % (label, doc, qs, exp_params))
        exp_rel = exp_path + ('?' + qs if qs else '')
        if doc['relative_uri'] != exp_rel:
            fail('%s: relative_uri %r != %r' % (label, doc['relative_uri'], exp_rel))


def main():
    print('falcon imported from', falcon.__file__)
    rng = random.Random(60601)
    check_units(rng)
    check_stacks(rng)
    print('cases: %(unit)d request-object cases, %(stack)d full-stack cases' % COUNT)
    if FAILURES:
        print('%d FAILURES' % len(FAILURES))
        sys.exit(1)
    print('PASS')


if __name__ == '__main__':
    main()
