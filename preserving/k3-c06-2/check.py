"""Check for change 2 (testing.helpers: _normalize_root_path extracted).

Exercises property C06 (WSGI, ASGI and the test client are observationally
equivalent) with a focus on what create_environ()/create_scope() do with
`root_path` (and the deprecated `app` alias), i.e. SCRIPT_NAME / scope
'root_path' and everything derived from them (root_path, prefix, uri,
relative_uri, forwarded_prefix, forwarded_uri):

  A. create_environ()/create_scope() output is compared against a tiny
     reference model, and falcon.Request / falcon.asgi.Request built from them
     are compared against each other and against the model.
  B. The same responder mounted on falcon.App and falcon.asgi.App is driven
     through falcon.testing.simulate_request and through minimal hand-written
     WSGI / ASGI server drivers that are given the *model's* root path; all
     four results must agree.

Run:  PYTHONPATH=<tree> /venv/bin/python check.py
"""

import asyncio
import io
import json
import random
import sys

import falcon
import falcon.asgi
from falcon import testing

FAILURES = []
COUNT = {'unit': 0, 'stack': 0}


def fail(msg):
    FAILURES.append(msg)
    if len(FAILURES) <= 15:
        print('FAIL:', msg)


# ---------------------------------------------------------------------------
# Reference model
# ---------------------------------------------------------------------------


def norm(root_path):
    """SCRIPT_NAME-style normalization: a non-empty value starts with '/'."""
    if root_path == '' or root_path[0] == '/':
        return root_path
    return '/' + root_path


def model_script_name(root_path, app):
    if root_path:
        return norm(root_path)
    if app:
        return norm(app)
    return ''


def model_scope_root_path(root_path):
    """Returns (present, value)."""
    if root_path is None:
        return (False, None)
    return (True, norm(root_path))


# ---------------------------------------------------------------------------
# Input generation
# ---------------------------------------------------------------------------

FIXED_ROOTS = [
    None, '', '/', '//', 'api', '/api', 'api/', '/api/', 'api/v1', '/api/v1',
    '//api', 'a', '0', ' ', ' /x', '/ x', 'a b', 'café', '/café', '%2F',
    '%2Fapi', '?', '/?', '#', 'api?x=1', '.', '..', '/..', 'API', '\\', '\\api',
    '-', '_', 'a/', '/a//b', 'a//b', '✓', '/✓',
]
SEGMENTS = ['api', 'v1', 'v2', 'svc', 'x', 'café', 'a b', '%41', '0', 'mnt']


def gen_roots(rng, n):
    out = list(FIXED_ROOTS)
    while len(out) < n:
        segs = [rng.choice(SEGMENTS) for _ in range(rng.randint(1, 3))]
        value = '/'.join(segs)
        lead = rng.choice(['', '/', '//'])
        trail = rng.choice(['', '', '/'])
        out.append(lead + value + trail)
    return out


def outcome(fn):
    try:
        return ('ok', fn())
    except falcon.HTTPError as ex:
        return ('http', type(ex).__name__, ex.status, ex.title, ex.description)
    except Exception as ex:  # pragma: no cover - reported as a difference
        return ('exc', type(ex).__name__, str(ex))


def snapshot(req):
    return {
        'method': req.method,
        'path': req.path,
        'query_string': req.query_string,
        'params': dict(req.params),
        'root_path': req.root_path,
        'uri': outcome(lambda: req.uri),
        'url': outcome(lambda: req.url),
        'relative_uri': outcome(lambda: req.relative_uri),
        'prefix': outcome(lambda: req.prefix),
        'forwarded_uri': outcome(lambda: req.forwarded_uri),
        'forwarded_prefix': outcome(lambda: req.forwarded_prefix),
        'forwarded_host': outcome(lambda: req.forwarded_host),
        'forwarded_scheme': outcome(lambda: req.forwarded_scheme),
        'host': outcome(lambda: req.host),
        'port': outcome(lambda: req.port),
        'scheme': req.scheme,
        'netloc': outcome(lambda: req.netloc),
        'remote_addr': outcome(lambda: req.remote_addr),
        'access_route': outcome(lambda: list(req.access_route)),
        'content_type': req.content_type,
        'user_agent': req.user_agent,
        'headers_lower': dict(req.headers_lower),
    }


async def _no_receive():  # pragma: no cover - never awaited here
    return {'type': 'http.disconnect'}


VARIANTS = [
    # scheme, host, port, path, query_string, headers, remote_addr, http_version
    ('http', 'falconframework.org', None, '/', '', None, None, '1.1'),
    ('https', 'example.com', None, '/items/', 'a=1&b=2', None, '10.0.0.9', '1.1'),
    ('http', 'example.com', 8080, '/caf%C3%A9', 'q=%E2%9C%93', {'X-Forwarded-Host': 'pub.example', 'X-Forwarded-Proto': 'HTTPS'}, None, '1.1'),
    ('https', 'localhost', 443, '/a/b', '', {'Forwarded': 'for=1.2.3.4;host=fw.example;proto=https'}, '127.0.0.1', '2'),
    ('http', 'h.example', 80, '/x', 'k', None, None, '1.0'),
    ('https', 'h.example', 8443, '/x//y/', 'a=,', [('Accept', 'text/plain'), ('accept', 'text/html')], '::1', '1.0'),
]


# ---------------------------------------------------------------------------
# Part A: environ / scope / request objects
# ---------------------------------------------------------------------------


def check_units(rng):
    roots = gen_roots(rng, 120)
    for i, root in enumerate(roots):
        for j, variant in enumerate(VARIANTS):
            if j != 0 and (i + j) % 2:
                continue
            scheme, host, port, path, qs, headers, remote_addr, http_version = variant
            COUNT['unit'] += 1
            label = 'unit root_path=%r variant=%d' % (root, j)

            kwargs = dict(
                path=path, query_string=qs, scheme=scheme, host=host, port=port,
                headers=headers, remote_addr=remote_addr, http_version=http_version,
            )
            env = testing.create_environ(root_path=root, **kwargs)
            scope = testing.create_scope(root_path=root, **kwargs)

            exp_script_name = model_script_name(root, None)
            if env['SCRIPT_NAME'] != exp_script_name or type(env['SCRIPT_NAME']) is not str:
                fail('%s: SCRIPT_NAME %r != %r' % (label, env['SCRIPT_NAME'], exp_script_name))
            present, exp_scope_root = model_scope_root_path(root)
            if ('root_path' in scope) != present:
                fail('%s: scope root_path presence %r' % (label, 'root_path' in scope))
            elif present and (
                scope['root_path'] != exp_scope_root or type(scope['root_path']) is not str
            ):
                fail('%s: scope root_path %r != %r' % (label, scope['root_path'], exp_scope_root))

            # The (deprecated) `app` alias of create_environ
            for app_alias in (None, '', 'legacy', '/legacy', 'l/'):
                env2 = testing.create_environ(root_path=root, app=app_alias, **kwargs)
                exp2 = model_script_name(root, app_alias)
                if env2['SCRIPT_NAME'] != exp2:
                    fail('%s app=%r: SCRIPT_NAME %r != %r' % (label, app_alias, env2['SCRIPT_NAME'], exp2))
            if root is None:
                env3 = testing.create_environ(**kwargs)
                scope3 = testing.create_scope(**kwargs)
                if env3['SCRIPT_NAME'] != '' or 'root_path' in scope3:
                    fail('%s: defaults' % label)

            wsgi_req = falcon.Request(env)
            asgi_req = falcon.asgi.Request(scope, _no_receive)
            a, b = snapshot(wsgi_req), snapshot(asgi_req)
            if a != b:
                diff = {k: (a[k], b[k]) for k in a if a[k] != b[k]}
                fail('%s: WSGI/ASGI request differ: %r' % (label, diff))

            exp_root = exp_script_name
            if a['root_path'] != exp_root:
                fail('%s: req.root_path %r != %r' % (label, a['root_path'], exp_root))
            if a['prefix'][0] == 'ok' and a['netloc'][0] == 'ok':
                exp_prefix = scheme + '://' + a['netloc'][1] + exp_root
                if a['prefix'][1] != exp_prefix:
                    fail('%s: prefix %r != %r' % (label, a['prefix'][1], exp_prefix))
                exp_rel = exp_root + a['path'] + ('?' + qs if qs else '')
                if a['relative_uri'] != ('ok', exp_rel):
                    fail('%s: relative_uri %r != %r' % (label, a['relative_uri'], exp_rel))
                if a['uri'] != ('ok', scheme + '://' + a['netloc'][1] + exp_rel):
                    fail('%s: uri %r' % (label, a['uri']))
            else:
                fail('%s: unexpected failure %r %r' % (label, a['prefix'], a['netloc']))

            # WebSocket scope goes through the same normalization
            ws_scope = testing.create_scope_ws(path=path, root_path=root)
            if ('root_path' in ws_scope) != present or (
                present and ws_scope['root_path'] != exp_scope_root
            ):
                fail('%s: ws scope root_path %r' % (label, ws_scope.get('root_path')))


# ---------------------------------------------------------------------------
# Part B: full stacks
# ---------------------------------------------------------------------------


def describe(req):
    return {
        'method': req.method,
        'path': req.path,
        'qs': req.query_string,
        'root_path': req.root_path,
        'uri': req.uri,
        'relative_uri': req.relative_uri,
        'prefix': req.prefix,
        'forwarded_prefix': req.forwarded_prefix,
        'forwarded_uri': req.forwarded_uri,
        'host': req.host,
        'port': req.port,
        'scheme': req.scheme,
        'netloc': req.netloc,
    }


class WsgiEcho:
    def on_get(self, req, resp, **kw):
        resp.media = describe(req)
        resp.location = req.prefix + '/next'
        resp.set_header('X-Prefix', req.prefix)

    on_head = on_get

    def on_post(self, req, resp, **kw):
        raise falcon.HTTPMovedPermanently(req.prefix + '/moved')


class AsgiEcho:
    async def on_get(self, req, resp, **kw):
        resp.media = describe(req)
        resp.location = req.prefix + '/next'
        resp.set_header('X-Prefix', req.prefix)

    on_head = on_get

    async def on_post(self, req, resp, **kw):
        raise falcon.HTTPMovedPermanently(req.prefix + '/moved')


def make_apps():
    apps = []
    for cls, res in ((falcon.App, WsgiEcho()), (falcon.asgi.App, AsgiEcho())):
        app = cls()
        app.add_route('/echo', res)
        app.add_route('/echo/{tail}', res)
        apps.append(app)
    return apps


def drive_wsgi(app, method, path, qs, script_name, scheme, host, port):
    """Minimal PEP 3333 driver (no falcon.testing involved)."""
    default = 443 if scheme == 'https' else 80
    env = {
        'REQUEST_METHOD': method,
        'SCRIPT_NAME': script_name,
        'PATH_INFO': path,
        'QUERY_STRING': qs,
        'SERVER_NAME': host,
        'SERVER_PORT': str(port),
        'SERVER_PROTOCOL': 'HTTP/1.1',
        'HTTP_HOST': host if port == default else '%s:%d' % (host, port),
        'HTTP_USER_AGENT': 'driver',
        'wsgi.version': (1, 0),
        'wsgi.url_scheme': scheme,
        'wsgi.input': io.BytesIO(b''),
        'wsgi.errors': sys.stderr,
        'wsgi.multithread': False,
        'wsgi.multiprocess': False,
        'wsgi.run_once': False,
    }
    captured = {}

    def start_response(status, headers, exc_info=None):
        captured['status'] = status
        captured['headers'] = headers

    body = b''.join(app(env, start_response))
    return captured['status'], sorted((k.lower(), v) for k, v in captured['headers']), body


def drive_asgi(app, method, path, qs, root_path, scheme, host, port):
    """Minimal ASGI HTTP driver (no falcon.testing involved)."""
    default = 443 if scheme == 'https' else 80
    host_header = host if port == default else '%s:%d' % (host, port)
    scope = {
        'type': 'http',
        'asgi': {'version': '3.0', 'spec_version': '2.1'},
        'http_version': '1.1',
        'method': method,
        'scheme': scheme,
        'path': path,
        'raw_path': path.encode(),
        'query_string': qs.encode(),
        'headers': [(b'host', host_header.encode()), (b'user-agent', b'driver')],
        'server': (host, port),
    }
    if root_path is not None:
        scope['root_path'] = root_path
    sent = []
    events = [{'type': 'http.request', 'body': b'', 'more_body': False}]

    async def receive():
        if events:
            return events.pop(0)
        return {'type': 'http.disconnect'}

    async def send(event):
        sent.append(event)

    asyncio.run(app(scope, receive, send))
    start = [e for e in sent if e['type'] == 'http.response.start'][0]
    body = b''.join(e.get('body', b'') for e in sent if e['type'] == 'http.response.body')
    headers = sorted((k.decode('latin1'), v.decode('latin1')) for k, v in start['headers'])
    return falcon.code_to_http_status(start['status']), headers, body


def normalize_result(result):
    return result.status, sorted((k.lower(), v) for k, v in result.headers.items()), result.content


def latin1_safe(value):
    try:
        value.encode('latin1')
    except UnicodeEncodeError:
        return False
    return True


def check_stacks(rng):
    wsgi_app, asgi_app = make_apps()
    roots = gen_roots(rng, 110)
    for i, root in enumerate(roots):
        # NOTE: response header values (Location) must be latin-1 encodable
        #   on both stacks, hence skip the few roots that are not.
        if root is not None and not latin1_safe(root):
            continue
        # NOTE: wsgiref.validate (used by simulate_request) rejects a
        #   SCRIPT_NAME of exactly '/'; that value is covered in part A.
        if root == '/':
            try:
                testing.simulate_request(wsgi_app, 'GET', '/echo', root_path=root)
            except AssertionError as ex:
                if "SCRIPT_NAME cannot be '/'" not in str(ex):
                    fail('unexpected validator message %r' % (ex,))
            else:
                fail("validator accepted SCRIPT_NAME == '/'")
            continue
        scheme = ('http', 'https')[i % 2]
        host = ('falconframework.org', 'example.com')[(i // 2) % 2]
        port = (None, 8080, 443)[i % 3]
        real_port = port if port is not None else (443 if scheme == 'https' else 80)
        path = ('/echo', '/echo/x')[(i // 3) % 2]
        qs = ('', 'a=1')[(i // 5) % 2]
        method = ('GET', 'POST', 'HEAD')[i % 3]
        COUNT['stack'] += 1
        label = 'stack root_path=%r %s %s' % (root, method, path)

        kwargs = dict(
            query_string=qs, headers={'User-Agent': 'driver'}, protocol=scheme,
            host=host, port=port, root_path=root,
        )
        r_wsgi = normalize_result(testing.simulate_request(wsgi_app, method, path, **kwargs))
        r_asgi = normalize_result(testing.simulate_request(asgi_app, method, path, **kwargs))
        exp_root = model_script_name(root, None)
        d_wsgi = drive_wsgi(wsgi_app, method, path, qs, exp_root, scheme, host, real_port)
        present, scope_root = model_scope_root_path(root)
        d_asgi = drive_asgi(asgi_app, method, path, qs, scope_root, scheme, host, real_port)

        results = {
            'client/wsgi': r_wsgi,
            'client/asgi': r_asgi,
            'driver/wsgi': d_wsgi,
            'driver/asgi': d_asgi,
        }
        for name, res in results.items():
            if res != r_wsgi:
                fail('%s: %s differs from client/wsgi:\n   %r\n   %r' % (label, name, res, r_wsgi))

        status, headers, body = r_wsgi
        netloc = host if real_port == (443 if scheme == 'https' else 80) else '%s:%d' % (host, real_port)
        exp_prefix = scheme + '://' + netloc + exp_root
        headers = dict(headers)
        if method == 'POST':
            # NOTE: the Location header is set as given for HTTPStatus-based
            #   redirects on both stacks (hard-coded from the unmodified tree).
            if status != '301 Moved Permanently' or headers.get('location') != exp_prefix + '/moved':
                fail('%s: redirect %s %r' % (label, status, headers.get('location')))
            continue
        # NOTE: resp.location percent-encodes its value (it is only compared
        #   across the four stacks above); X-Prefix is verbatim.
        if (
            status != '200 OK'
            or headers.get('x-prefix') != exp_prefix
            or 'location' not in headers
        ):
            fail('%s: %s x-prefix=%r location=%r, expected %r' % (
                label, status, headers.get('x-prefix'), headers.get('location'), exp_prefix))
            continue
        if method == 'HEAD':
            if body != b'':
                fail('%s: HEAD body %r' % (label, body))
            continue
        doc = json.loads(body)
        exp_rel = exp_root + path + ('?' + qs if qs else '')
        if (
            doc['root_path'] != exp_root
            or doc['prefix'] != exp_prefix
            or doc['relative_uri'] != exp_rel
            or doc['uri'] != scheme + '://' + netloc + exp_rel
            or doc['forwarded_prefix'] != exp_prefix
        ):
            fail('%s: echoed %r; expected root %r' % (label, doc, exp_root))


def main():
    print('falcon imported from', falcon.__file__)
    rng = random.Random(60602)
    check_units(rng)
    check_stacks(rng)
    print('cases: %(unit)d environ/scope/request cases, %(stack)d full-stack cases' % COUNT)
    if FAILURES:
        print('%d FAILURES' % len(FAILURES))
        sys.exit(1)
    print('PASS')


if __name__ == '__main__':
    main()
