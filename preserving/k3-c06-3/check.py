"""Check for change 3 (falcon.asgi.Request.__init__: options bound to a local).

Exercises property C06 (WSGI, ASGI and the test client are observationally
equivalent) with a focus on what the ASGI request constructor derives from the
request options: `req.options` itself, `req.path` (strip_url_path_trailing_slash)
and `req.params` (keep_blank_qs_values, auto_parse_qs_csv):

  A. falcon.asgi.Request built from hand-made and create_scope() scopes, with
     options=None and with each of the 8 option combinations, is compared
     against a tiny reference model and against falcon.Request built from the
     equivalent WSGI environ (also for WebSocket handshake scopes).
  B. The same responder mounted on falcon.App and falcon.asgi.App (options set
     on app.req_options, also flipped *after* a first request) is driven
     through falcon.testing.simulate_request and through minimal hand-written
     WSGI / ASGI server drivers; all four results must agree with each other
     and with the model.

Run:  PYTHONPATH=<tree> /venv/bin/python check.py
"""

import asyncio
import io
import itertools
import json
import random
import sys

import falcon
import falcon.asgi
from falcon import testing
from falcon.util.uri import parse_query_string

FAILURES = []
COUNT = {'unit': 0, 'stack': 0}


def fail(msg):
    FAILURES.append(msg)
    if len(FAILURES) <= 15:
        print('FAIL:', msg)


OPTION_COMBOS = list(itertools.product([False, True], repeat=3))
DEFAULTS = (False, True, False)  # hard-coded from the unmodified tree (falcon 4 defaults)


def make_options(strip, keep_blank, csv):
    opts = falcon.RequestOptions()
    opts.strip_url_path_trailing_slash = strip
    opts.keep_blank_qs_values = keep_blank
    opts.auto_parse_qs_csv = csv
    return opts


# ---------------------------------------------------------------------------
# Reference model
# ---------------------------------------------------------------------------


def model_path(decoded_path, strip):
    path = decoded_path or '/'
    if strip and len(path) != 1 and path[-1] == '/':
        return path[:-1]
    return path


def model_params(qs, keep_blank, csv):
    if not qs:
        return {}
    return parse_query_string(qs, keep_blank=keep_blank, csv=csv)


# ---------------------------------------------------------------------------
# Input generation
# ---------------------------------------------------------------------------

FIXED_PATHS = [
    '', '/', '//', '///', '/a', '/a/', '/a//', 'a', 'a/', '/a/b', '/a/b/',
    '/café', '/café/', '/✓/', '/ /', '/a b/', '/%2F', '/%2F/', '/a/?', '/./',
    '/../', '/a/./', '/A/', '/0/', '/-', '/-/', '/a;b/', '/a,b/', '/é/è/',
]
FIXED_QS = [
    '', 'a', 'a=', '=a', '&', 'a&b', 'a=1&a=2', 'a=&a=', 'a=1,2&a=3', 'a=,',
    'a=1&&b=2', 'a==1', 'x=%', 'x=%zz', 'a=%00', 'a=+', 'a=%2B', 'a=é',
    'empty=&t=1', 'q=a,b,c', 'q=a,b,c&q=d', 'q=,,', 'q=%2C', 'a= ', 'a=1#frag',
]
SEGMENTS = ['a', 'b', 'items', 'café', '0', 'x y', '✓', 'A', '-', '.']
KEYS = ['a', 'b', 'q', 'empty', 'k%20k', 'caf%C3%A9']
VALS = ['', '1', 'a,b', 'a,,b', ',', 'x%2Cy', '%E2%9C%93', 'a+b', '%', ' sp ', '1,2,3']


def gen_cases(rng, n):
    cases = []
    for path in FIXED_PATHS:
        cases.append((path, rng.choice(FIXED_QS)))
    for qs in FIXED_QS:
        cases.append((rng.choice(FIXED_PATHS), qs))
    while len(cases) < n:
        segs = [rng.choice(SEGMENTS) for _ in range(rng.randint(0, 3))]
        path = '/' + '/'.join(segs) + rng.choice(['', '/', '//'])
        parts = []
        for _ in range(rng.randint(0, 4)):
            k = rng.choice(KEYS)
            parts.append(k if rng.random() < 0.15 else k + '=' + rng.choice(VALS))
        cases.append((path, '&'.join(parts)))
    return cases


def outcome(fn):
    try:
        return ('ok', fn())
    except falcon.HTTPError as ex:
        return ('http', type(ex).__name__, ex.status, ex.title, ex.description)
    except Exception as ex:  # pragma: no cover - reported as a difference
        return ('exc', type(ex).__name__, str(ex))


def snapshot(req):
    snap = {
        'method': req.method,
        'path': req.path,
        'query_string': req.query_string,
        'params': dict(req.params),
        'uri': outcome(lambda: req.uri),
        'relative_uri': outcome(lambda: req.relative_uri),
        'prefix': outcome(lambda: req.prefix),
        'host': outcome(lambda: req.host),
        'port': outcome(lambda: req.port),
        'scheme': req.scheme,
        'netloc': outcome(lambda: req.netloc),
        'content_type': req.content_type,
        'content_length': outcome(lambda: req.content_length),
        'user_agent': req.user_agent,
        'accept': req.accept,
        'headers_lower': dict(req.headers_lower),
        'opts': (
            req.options.strip_url_path_trailing_slash,
            req.options.keep_blank_qs_values,
            req.options.auto_parse_qs_csv,
        ),
    }
    for key in ('a', 'q', 'empty', 'missing', 'café', 'k k'):
        snap['get_param:' + key] = outcome(lambda: req.get_param(key))
        snap['get_param_as_list:' + key] = outcome(lambda: req.get_param_as_list(key))
        snap['has_param:' + key] = req.has_param(key)
    return snap


async def _no_receive():  # pragma: no cover - never awaited here
    return {'type': 'http.disconnect'}


def raw_scope(path, qs, method='GET', scope_type='http', content_type=None):
    headers = [(b'host', b'falconframework.org'), (b'user-agent', b'driver')]
    if content_type is not None:
        headers.append((b'content-type', content_type.encode('latin1')))
    scope = {
        'type': scope_type,
        'asgi': {'version': '3.0', 'spec_version': '2.1'},
        'http_version': '1.1',
        'scheme': 'http' if scope_type == 'http' else 'ws',
        'path': path,
        'raw_path': path.encode(),
        'query_string': qs.encode(),
        'root_path': '',
        'headers': headers,
        'server': ('falconframework.org', 80),
    }
    if scope_type == 'http':
        scope['method'] = method
    return scope


def raw_environ(path, qs, method='GET', content_type=None):
    env = {
        'REQUEST_METHOD': method,
        'SCRIPT_NAME': '',
        'PATH_INFO': path.encode('utf-8').decode('latin1'),
        'QUERY_STRING': qs,
        'SERVER_NAME': 'falconframework.org',
        'SERVER_PORT': '80',
        'SERVER_PROTOCOL': 'HTTP/1.1',
        'HTTP_HOST': 'falconframework.org',
        'HTTP_USER_AGENT': 'driver',
        'wsgi.version': (1, 0),
        'wsgi.url_scheme': 'http',
        'wsgi.input': io.BytesIO(b''),
        'wsgi.errors': sys.stderr,
        'wsgi.multithread': False,
        'wsgi.multiprocess': False,
        'wsgi.run_once': False,
    }
    if content_type is not None:
        env['CONTENT_TYPE'] = content_type
    return env


# ---------------------------------------------------------------------------
# Part A: request objects
# ---------------------------------------------------------------------------


def check_one(label, path, qs, method, combo, content_type):
    """combo is None (no options passed) or a (strip, keep_blank, csv) tuple."""
    eff = DEFAULTS if combo is None else combo
    opts_asgi = None if combo is None else make_options(*combo)
    opts_wsgi = None if combo is None else make_options(*combo)

    asgi_req = falcon.asgi.Request(
        raw_scope(path, qs, method, content_type=content_type), _no_receive, options=opts_asgi
    )
    wsgi_req = falcon.Request(
        raw_environ(path, qs, method, content_type=content_type), options=opts_wsgi
    )

    # options object handling
    if combo is None:
        if type(asgi_req.options) is not falcon.RequestOptions:
            fail('%s: default options type %r' % (label, type(asgi_req.options)))
    elif asgi_req.options is not opts_asgi:
        fail('%s: req.options is not the object passed in' % label)

    exp_path = model_path(path, eff[0])
    exp_params = model_params(qs, eff[1], eff[2])
    if asgi_req.path != exp_path:
        fail('%s: asgi path %r != %r' % (label, asgi_req.path, exp_path))
    if asgi_req.query_string != qs:
        fail('%s: asgi query_string %r != %r' % (label, asgi_req.query_string, qs))
    if asgi_req._params != exp_params or type(asgi_req._params) is not dict:
        fail('%s: asgi params %r != %r' % (label, asgi_req._params, exp_params))
    if asgi_req.method != method or asgi_req.content_type != content_type:
        fail('%s: asgi method/content_type %r %r' % (label, asgi_req.method, asgi_req.content_type))
    if asgi_req.uri_template is not None or asgi_req.is_websocket:
        fail('%s: asgi uri_template/is_websocket' % label)

    a, b = snapshot(wsgi_req), snapshot(asgi_req)
    if a != b:
        diff = {k: (a[k], b[k]) for k in a if a[k] != b[k]}
        fail('%s: WSGI/ASGI request differ: %r' % (label, diff))
    if a['opts'] != eff:
        fail('%s: effective options %r != %r' % (label, a['opts'], eff))


def check_units(rng):
    cases = gen_cases(rng, 150)
    methods = ('GET', 'POST', 'HEAD', 'PUT', 'DELETE', 'OPTIONS', 'PATCH')
    ctypes = (None, 'application/json', 'text/plain; charset=utf-8', '', 'caf\xe9/x')
    for i, (path, qs) in enumerate(cases):
        method = methods[i % len(methods)]
        content_type = ctypes[i % len(ctypes)]
        combos = [None, OPTION_COMBOS[i % 8], OPTION_COMBOS[(i * 3 + 5) % 8]]
        if i < 40:
            combos = [None] + OPTION_COMBOS
        for combo in combos:
            COUNT['unit'] += 1
            label = 'unit path=%r qs=%r %s opts=%r' % (path, qs, method, combo)
            check_one(label, path, qs, method, combo, content_type)

        # Two requests without explicit options must not share an options object
        r1 = falcon.asgi.Request(raw_scope(path, qs), _no_receive)
        r2 = falcon.asgi.Request(raw_scope(path, qs), _no_receive)
        if r1.options is r2.options:
            fail('default options shared between requests')

        # WebSocket handshake scope: same constructor, method forced to GET
        combo = OPTION_COMBOS[i % 8]
        ws_req = falcon.asgi.Request(
            raw_scope(path, qs, scope_type='websocket'), _no_receive, options=make_options(*combo)
        )
        if (
            ws_req.method != 'GET'
            or not ws_req.is_websocket
            or ws_req.path != model_path(path, combo[0])
            or ws_req._params != model_params(qs, combo[1], combo[2])
        ):
            fail('ws path=%r qs=%r opts=%r: %r %r' % (path, qs, combo, ws_req.path, ws_req._params))

        # Through create_scope()/create_environ() (percent-encoded raw path)
        if path.startswith('/') and '?' not in path:
            raw = falcon.uri.encode(path)
            COUNT['unit'] += 1
            a = snapshot(
                falcon.Request(
                    testing.create_environ(path=raw, query_string=qs, method=method),
                    options=make_options(*combo),
                )
            )
            b = snapshot(
                falcon.asgi.Request(
                    testing.create_scope(path=raw, query_string=qs, method=method),
                    _no_receive,
                    options=make_options(*combo),
                )
            )
            if a != b:
                diff = {k: (a[k], b[k]) for k in a if a[k] != b[k]}
                fail('helpers path=%r qs=%r opts=%r differ: %r' % (raw, qs, combo, diff))
            if b['path'] != model_path(path, combo[0]) or b['params'] != model_params(
                qs, combo[1], combo[2]
            ):
                fail('helpers path=%r qs=%r opts=%r: %r' % (raw, qs, combo, b['path']))


# ---------------------------------------------------------------------------
# Part B: full stacks
# ---------------------------------------------------------------------------


def describe(req):
    return {
        'method': req.method,
        'path': req.path,
        'qs': req.query_string,
        'params': req.params,
        'relative_uri': req.relative_uri,
        'a_list': req.get_param_as_list('a'),
        'has_empty': req.has_param('empty'),
    }


def wsgi_sink(req, resp, **kw):
    resp.media = describe(req)
    resp.set_header('X-Path', falcon.uri.encode(req.path))


async def asgi_sink(req, resp, **kw):
    resp.media = describe(req)
    resp.set_header('X-Path', falcon.uri.encode(req.path))


def make_apps():
    wsgi_app = falcon.App()
    wsgi_app.add_sink(wsgi_sink, '/')
    asgi_app = falcon.asgi.App()
    asgi_app.add_sink(asgi_sink, '/')
    return wsgi_app, asgi_app


def set_app_options(app, combo):
    app.req_options.strip_url_path_trailing_slash = combo[0]
    app.req_options.keep_blank_qs_values = combo[1]
    app.req_options.auto_parse_qs_csv = combo[2]


def drive_wsgi(app, method, path, qs):
    captured = {}

    def start_response(status, headers, exc_info=None):
        captured['status'] = status
        captured['headers'] = headers

    body = b''.join(app(raw_environ(path, qs, method), start_response))
    return captured['status'], sorted((k.lower(), v) for k, v in captured['headers']), body


def drive_asgi(app, method, path, qs):
    sent = []
    events = [{'type': 'http.request', 'body': b'', 'more_body': False}]

    async def receive():
        if events:
            return events.pop(0)
        return {'type': 'http.disconnect'}

    async def send(event):
        sent.append(event)

    asyncio.run(app(raw_scope(path, qs, method), receive, send))
    start = [e for e in sent if e['type'] == 'http.response.start'][0]
    body = b''.join(e.get('body', b'') for e in sent if e['type'] == 'http.response.body')
    headers = sorted((k.decode('latin1'), v.decode('latin1')) for k, v in start['headers'])
    return falcon.code_to_http_status(start['status']), headers, body


def normalize_result(result):
    return result.status, sorted((k.lower(), v) for k, v in result.headers.items()), result.content


def check_stacks(rng):
    wsgi_app, asgi_app = make_apps()
    cases = [c for c in gen_cases(rng, 160) if c[0].startswith('/') and '?' not in c[0]]
    for i, (path, qs) in enumerate(cases[:120]):
        # NOTE: the same two app objects are reused and their options are
        #   flipped between requests: each request must see the current ones.
        combo = OPTION_COMBOS[(i * 5 + 3) % 8]
        set_app_options(wsgi_app, combo)
        set_app_options(asgi_app, combo)
        method = ('GET', 'POST', 'DELETE')[i % 3]
        raw = falcon.uri.encode(path)
        COUNT['stack'] += 1
        label = 'stack path=%r qs=%r %s opts=%r' % (path, qs, method, combo)

        headers = {'User-Agent': 'driver'}
        r_wsgi = normalize_result(
            testing.simulate_request(wsgi_app, method, raw, query_string=qs, headers=headers)
        )
        r_asgi = normalize_result(
            testing.simulate_request(asgi_app, method, raw, query_string=qs, headers=headers)
        )
        d_wsgi = drive_wsgi(wsgi_app, method, path, qs)
        d_asgi = drive_asgi(asgi_app, method, path, qs)

        results = {
            'client/wsgi': r_wsgi,
            'client/asgi': r_asgi,
            'driver/wsgi': d_wsgi,
            'driver/asgi': d_asgi,
        }
        for name, res in results.items():
            if res != r_wsgi:
                fail('%s: %s differs from client/wsgi:\n   %r\n   %r' % (label, name, res, r_wsgi))

        status, _, body = r_wsgi
        if status != '200 OK':
            fail('%s: status %s' % (label, status))
            continue
        doc = json.loads(body)
        exp_path = model_path(path, combo[0])
        exp_params = model_params(qs, combo[1], combo[2])
        if doc['path'] != exp_path or doc['params'] != exp_params or doc['qs'] != qs:
            fail('%s: echoed %r; expected path=%r params=%r' % (label, doc, exp_path, exp_params))


def main():
    print('falcon imported from', falcon.__file__)
    rng = random.Random(60603)
    check_units(rng)
    check_stacks(rng)
    print('cases: %(unit)d request-object cases, %(stack)d full-stack cases' % COUNT)
    if FAILURES:
        print('%d FAILURES' % len(FAILURES))
        sys.exit(1)
    print('PASS')


if __name__ == '__main__':
    main()
