"""Check for change 4 (ASGIRequestEventEmitter: optional emit_empty_chunks kwarg).

Exercises property C06 (WSGI, ASGI and the test client are observationally
equivalent) with a focus on the request body as delivered by
falcon.testing.ASGIRequestEventEmitter, for bodies and chunkings of all sorts:

  A. The exact sequence of events emitted by ASGIRequestEventEmitter (as it
     is constructed by today's callers, i.e. without the new keyword) is
     compared against an independent reference model of the emitter, and
     against the ASGI spec invariants (chunks concatenate to the body, every
     event but the last one has more_body=True, no chunk exceeds chunk_size,
     'http.disconnect' follows). falcon.asgi.BoundedStream fed by the emitter
     must read back exactly the body.
  B. Body-consuming responders mounted on falcon.App and falcon.asgi.App are
     driven through falcon.testing.simulate_request (several asgi_chunk_size
     values) and through minimal hand-written WSGI / ASGI server drivers
     (several chunkings); all results must agree with each other and with
     the model (echo of the body, its length, digest, parsed media).

When run on a tree that has the new keyword, part A additionally verifies that
passing emit_empty_chunks=True explicitly is the same as omitting it, and that
emit_empty_chunks=False still delivers the same body.

Run:  PYTHONPATH=<tree> /venv/bin/python check.py
"""

import asyncio
import hashlib
import inspect
import io
import json
import random
import sys
import time

import falcon
import falcon.asgi
from falcon import testing
from falcon.testing import ASGIRequestEventEmitter

FAILURES = []
COUNT = {'unit': 0, 'stack': 0}

HAS_KWARG = 'emit_empty_chunks' in inspect.signature(ASGIRequestEventEmitter.__init__).parameters


def fail(msg):
    FAILURES.append(msg)
    if len(FAILURES) <= 15:
        print('FAIL:', msg)


# ---------------------------------------------------------------------------
# Reference model of the emitter (starting from a cleared branch decider)
# ---------------------------------------------------------------------------


class ModelEmitter:
    def __init__(self, body, chunk_size, toggles, empty_chunks=True):
        if body is None:
            body = b''
        elif not isinstance(body, bytes):
            body = body.encode('utf-8')
        self.remaining = body  # None once exhausted
        self.chunk_size = 4096 if chunk_size is None else chunk_size
        self.toggles = toggles  # shared between instances, like the real thing
        self.empty_chunks = empty_chunks
        self.sent_a = False
        self.sent_b = False

    def toggle(self, name):
        self.toggles[name] = not self.toggles.get(name, False)
        return self.toggles[name]

    def next_event(self):
        """Returns the next http.request event, or None when exhausted."""
        if self.remaining is None:
            return None
        event = {'type': 'http.request'}
        if self.empty_chunks:
            if not self.sent_a:
                self.sent_a = True
                event['more_body'] = True
                return event
            if not self.sent_b:
                self.sent_b = True
                event['more_body'] = True
                event['body'] = b''
                return event
            if self.toggle('return_empty_chunk'):
                event['more_body'] = True
                if self.toggle('explicit_empty_body_1'):
                    event['body'] = b''
                return event

        chunk = self.remaining[: self.chunk_size]
        rest = self.remaining[self.chunk_size :]
        self.remaining = rest if len(rest) > 0 else None
        if len(chunk) > 0:
            event['body'] = chunk
        elif self.toggle('explicit_empty_body_2'):
            event['body'] = b''
        if self.remaining is not None:
            event['more_body'] = True
        elif self.toggle('set_more_body_false'):
            event['more_body'] = False
        return event


def model_events(body, chunk_size, toggles, empty_chunks=True):
    model = ModelEmitter(body, chunk_size, toggles, empty_chunks)
    events = []
    while True:
        event = model.next_event()
        if event is None:
            return events
        events.append(event)


# ---------------------------------------------------------------------------
# Input generation
# ---------------------------------------------------------------------------


def gen_bodies(rng):
    bodies = [
        None, b'', '', b'x', 'x', b'\x00', b'\r\n', b'\n\n', b'0', b' ', 'é', '✓✓✓',
        b'\xff\xfe', b'{}', b'[]', b'null', b'{"a": 1}', '{"k": "café"}',
        b'a=1&b=2', b'x' * 4095, b'x' * 4096, b'x' * 4097, b'ab' * 4096,
    ]
    for size in (2, 3, 5, 7, 8, 9, 63, 64, 65, 100, 1000, 5000, 10000):
        bodies.append(bytes(rng.getrandbits(8) for _ in range(size)))
    for size in (4, 17, 300):
        bodies.append(''.join(rng.choice('aé✓ \n{}"\\') for _ in range(size)))
    return bodies


def as_bytes(body):
    if body is None:
        return b''
    return body if isinstance(body, bytes) else body.encode('utf-8')


def chunk_sizes_for(data, rng):
    sizes = {1, 2, 3, 7, 64, 4096, None, 10**6}
    if len(data) > 0:
        sizes.update({len(data), len(data) + 1, max(1, len(data) - 1), max(1, len(data) // 2)})
    if len(data) > 3000:
        # keep the number of events reasonable for the big bodies
        sizes -= {1, 2, 3}
    sizes.add(rng.randint(1, 50))
    return sorted(sizes, key=lambda s: (s is None, s))


# ---------------------------------------------------------------------------
# Part A: the emitter itself
# ---------------------------------------------------------------------------


async def drain(emitter, limit=100000):
    """Collect http.request events until the body is exhausted, then disconnect."""
    events = []
    while True:
        event = await emitter()
        events.append(event)
        if event['type'] != 'http.request':
            fail('unexpected event %r' % (event,))
            break
        if not event.get('more_body', False):
            break
        if len(events) > limit:
            fail('emitter does not terminate')
            break
    if emitter.disconnected:
        fail('emitter disconnected prematurely')
    emitter.disconnect()
    if not emitter.disconnected:
        fail('emitter.disconnected is False after disconnect()')
    tail = [await emitter(), await emitter()]
    return events, tail


def make_emitter(body, chunk_size, how):
    """Construct the emitter the way today's callers do (no new keyword)."""
    if how == 'client':
        # as falcon.testing.client._simulate_request_asgi
        return ASGIRequestEventEmitter(
            (as_bytes(body) or b''), chunk_size=chunk_size, disconnect_at=time.time() + 300
        )
    if how == 'helpers':
        # as falcon.testing.helpers.create_asgi_req (no chunk_size)
        return ASGIRequestEventEmitter(body, disconnect_at=time.time() + 300)
    if how == 'kw':
        return ASGIRequestEventEmitter(body=body, chunk_size=chunk_size)
    return ASGIRequestEventEmitter(body, chunk_size, time.time() + 300)  # positional


def check_events(label, data, chunk_size, events, tail, expected):
    if events != expected:
        fail('%s: events differ from model:\n   %r\n   %r' % (label, events[:6], expected[:6]))
    # ASGI spec invariants
    got = b''.join(e.get('body', b'') for e in events)
    if got != data:
        fail('%s: reassembled body differs (%d vs %d bytes)' % (label, len(got), len(data)))
    for e in events[:-1]:
        if e.get('more_body') is not True:
            fail('%s: non-final event without more_body=True: %r' % (label, e))
    if events[-1].get('more_body', False) is not False:
        fail('%s: final event %r' % (label, events[-1]))
    limit = 4096 if chunk_size is None else chunk_size
    for e in events:
        if 'body' in e and (type(e['body']) is not bytes or len(e['body']) > limit):
            fail('%s: bad chunk %r' % (label, e['body'][:20]))
        if set(e) - {'type', 'body', 'more_body'}:
            fail('%s: unexpected keys %r' % (label, e))
    if tail != [{'type': 'http.disconnect'}] * 2:
        fail('%s: tail %r' % (label, tail))


async def check_units(rng):
    hows = ('client', 'helpers', 'kw', 'positional')
    n = 0
    for body in gen_bodies(rng):
        data = as_bytes(body)
        for chunk_size in chunk_sizes_for(data, rng):
            n += 1
            how = hows[n % 4]
            if how == 'helpers':
                eff_chunk_size = None
            else:
                eff_chunk_size = chunk_size
            COUNT['unit'] += 1
            label = 'unit body=%r.. len=%d chunk_size=%r how=%s' % (
                data[:8], len(data), eff_chunk_size, how)

            # deterministic history: start from a cleared (class-level) decider,
            # then run two emitters back-to-back so that the shared toggles carry over
            ASGIRequestEventEmitter._branch_decider.clear()
            toggles = {}
            for round_ in (1, 2):
                emitter = make_emitter(body, eff_chunk_size, how)
                events, tail = await drain(emitter)
                expected = model_events(body, eff_chunk_size, toggles)
                check_events('%s round=%d' % (label, round_), data, eff_chunk_size, events, tail, expected)
            if dict(ASGIRequestEventEmitter._branch_decider) != {
                k: v for k, v in toggles.items()
            }:
                fail('%s: branch decider %r != %r' % (
                    label, dict(ASGIRequestEventEmitter._branch_decider), toggles))

            # the private switch used by falcon's own test suite keeps working
            ASGIRequestEventEmitter._branch_decider.clear()
            toggles = {}
            emitter = make_emitter(body, eff_chunk_size, how)
            emitter._emit_empty_chunks = False
            events, tail = await drain(emitter)
            expected = model_events(body, eff_chunk_size, toggles, empty_chunks=False)
            check_events(label + ' (_emit_empty_chunks=False)', data, eff_chunk_size, events, tail, expected)

            # BoundedStream fed by the emitter reads back exactly the body
            stream = falcon.asgi.BoundedStream(
                make_emitter(body, eff_chunk_size, how), content_length=len(data)
            )
            if n % 3 == 0:
                got = await stream.read()
            elif n % 3 == 1:
                got = b''
                while True:
                    piece = await stream.read(rng.randint(1, 97))
                    if not piece:
                        break
                    got += piece
            else:
                got = b''.join([piece async for piece in stream])
            if got != data:
                fail('%s: BoundedStream read %d bytes, expected %d' % (label, len(got), len(data)))

            if HAS_KWARG:
                for flag in (True, False):
                    ASGIRequestEventEmitter._branch_decider.clear()
                    toggles = {}
                    emitter = ASGIRequestEventEmitter(
                        body, chunk_size=eff_chunk_size, emit_empty_chunks=flag
                    )
                    events, tail = await drain(emitter)
                    expected = model_events(body, eff_chunk_size, toggles, empty_chunks=flag)
                    check_events('%s (emit_empty_chunks=%r)' % (label, flag), data,
                                 eff_chunk_size, events, tail, expected)

    # immediate disconnect special case
    for body in (None, b'', b'abc'):
        emitter = ASGIRequestEventEmitter(body, disconnect_at=0)
        if await emitter() != {'type': 'http.disconnect'}:
            fail('disconnect_at=0 body=%r' % (body,))
    # disconnect(exhaust_body=False) short-circuits the body
    emitter = ASGIRequestEventEmitter(b'abc')
    emitter.disconnect(exhaust_body=False)
    if await emitter() != {'type': 'http.disconnect'}:
        fail('disconnect(exhaust_body=False)')
    # defaults, hard-coded from the unmodified tree
    emitter = ASGIRequestEventEmitter()
    if (
        emitter._chunk_size != 4096
        or emitter._emit_empty_chunks is not True
        or emitter._exhaust_body is not True
        or emitter._disconnected is not False
        or bytes(emitter._body) != b''
        or emitter.disconnected
    ):
        fail('emitter defaults')
    if ASGIRequestEventEmitter.__call__ is not ASGIRequestEventEmitter.emit:
        fail('__call__ is not emit')


# ---------------------------------------------------------------------------
# Part B: full stacks
# ---------------------------------------------------------------------------


def summarize(req, data, media):
    return {
        'method': req.method,
        'content_length': req.content_length,
        'content_type': req.content_type,
        'len': len(data),
        'sha': hashlib.sha256(data).hexdigest(),
        'media': media,
    }


class WsgiBody:
    def on_post(self, req, resp, mode):
        media = None
        if mode == 'read':
            data = req.bounded_stream.read()
        elif mode == 'pieces':
            data = b''
            while True:
                piece = req.bounded_stream.read(11)
                if not piece:
                    break
                data += piece
        elif mode == 'media':
            media = req.get_media(default_when_empty='EMPTY')
            data = b''
        else:  # 'ignore': the body is not consumed at all
            data = b''
        resp.media = summarize(req, data, media)
        if mode in ('read', 'pieces'):
            resp.set_header('X-Body-Length', str(len(data)))

    on_put = on_post


class AsgiBody:
    async def on_post(self, req, resp, mode):
        media = None
        if mode == 'read':
            data = await req.stream.read()
        elif mode == 'pieces':
            data = b''
            while True:
                piece = await req.stream.read(11)
                if not piece:
                    break
                data += piece
        elif mode == 'media':
            media = await req.get_media(default_when_empty='EMPTY')
            data = b''
        else:
            data = b''
        resp.media = summarize(req, data, media)
        if mode in ('read', 'pieces'):
            resp.set_header('X-Body-Length', str(len(data)))

    on_put = on_post


class WsgiEcho:
    def on_post(self, req, resp):
        resp.data = req.bounded_stream.read()
        resp.content_type = 'application/octet-stream'


class AsgiEcho:
    async def on_post(self, req, resp):
        resp.data = await req.stream.read()
        resp.content_type = 'application/octet-stream'


def make_apps():
    wsgi_app = falcon.App()
    wsgi_app.add_route('/body/{mode}', WsgiBody())
    wsgi_app.add_route('/echo', WsgiEcho())
    asgi_app = falcon.asgi.App()
    asgi_app.add_route('/body/{mode}', AsgiBody())
    asgi_app.add_route('/echo', AsgiEcho())
    return wsgi_app, asgi_app


def drive_wsgi(app, method, path, data, content_type):
    env = {
        'REQUEST_METHOD': method,
        'SCRIPT_NAME': '',
        'PATH_INFO': path,
        'QUERY_STRING': '',
        'SERVER_NAME': 'falconframework.org',
        'SERVER_PORT': '80',
        'SERVER_PROTOCOL': 'HTTP/1.1',
        'HTTP_HOST': 'falconframework.org',
        'HTTP_USER_AGENT': 'driver',
        'CONTENT_TYPE': content_type,
        'wsgi.version': (1, 0),
        'wsgi.url_scheme': 'http',
        'wsgi.input': io.BytesIO(data),
        'wsgi.errors': sys.stderr,
        'wsgi.multithread': False,
        'wsgi.multiprocess': False,
        'wsgi.run_once': False,
    }
    if data:
        env['CONTENT_LENGTH'] = str(len(data))
    captured = {}

    def start_response(status, headers, exc_info=None):
        captured['status'] = status
        captured['headers'] = headers

    body = b''.join(app(env, start_response))
    return captured['status'], sorted((k.lower(), v) for k, v in captured['headers']), body


def drive_asgi(app, method, path, data, content_type, chunking):
    headers = [
        (b'host', b'falconframework.org'),
        (b'user-agent', b'driver'),
        (b'content-type', content_type.encode('latin1')),
    ]
    if data:
        headers.append((b'content-length', str(len(data)).encode()))
    scope = {
        'type': 'http',
        'asgi': {'version': '3.0', 'spec_version': '2.1'},
        'http_version': '1.1',
        'method': method,
        'scheme': 'http',
        'path': path,
        'raw_path': path.encode(),
        'query_string': b'',
        'root_path': '',
        'headers': headers,
        'server': ('falconframework.org', 80),
    }
    if chunking is None or not data:
        events = [{'type': 'http.request', 'body': data, 'more_body': False}]
    else:
        pieces = [data[i : i + chunking] for i in range(0, len(data), chunking)]
        events = [{'type': 'http.request', 'body': p, 'more_body': True} for p in pieces]
        events[-1]['more_body'] = False
    sent = []

    async def receive():
        if events:
            return events.pop(0)
        return {'type': 'http.disconnect'}

    async def send(event):
        sent.append(event)

    asyncio.run(app(scope, receive, send))
    start = [e for e in sent if e['type'] == 'http.response.start'][0]
    body = b''.join(e.get('body', b'') for e in sent if e['type'] == 'http.response.body')
    hdrs = sorted((k.decode('latin1'), v.decode('latin1')) for k, v in start['headers'])
    return falcon.code_to_http_status(start['status']), hdrs, body


def normalize_result(result):
    return result.status, sorted((k.lower(), v) for k, v in result.headers.items()), result.content


def check_stacks(rng):
    wsgi_app, asgi_app = make_apps()
    json_bodies = [b'', b'{}', b'[]', b'null', b'{"a": 1}', '{"k": "café"}'.encode(),
                   json.dumps({'n': list(range(2000))}).encode(), b'"' + b'x' * 9000 + b'"']
    raw_bodies = [as_bytes(b) for b in gen_bodies(rng)]
    modes = ('read', 'pieces', 'ignore', 'media', 'echo')
    n = 0
    for i in range(130):
        mode = modes[i % len(modes)]
        if mode == 'media':
            data = json_bodies[(i // len(modes)) % len(json_bodies)]
            content_type = 'application/json'
        else:
            data = raw_bodies[(i * 7 + 3) % len(raw_bodies)]
            content_type = ('application/octet-stream', 'text/plain')[i % 2]
        method = 'POST' if mode == 'echo' else ('POST', 'PUT')[(i // 2) % 2]
        path = '/echo' if mode == 'echo' else '/body/' + mode
        client_chunk = (1 if len(data) < 600 else 13, 5, 64, 4096, max(1, len(data)))[i % 5]
        driver_chunk = (None, 1 if len(data) < 600 else 17, 1000, 3)[i % 4]
        if driver_chunk == 3 and len(data) > 3000:
            driver_chunk = 333
        COUNT['stack'] += 1
        n += 1
        label = 'stack %s %s len=%d client_chunk=%d driver_chunk=%r' % (
            method, path, len(data), client_chunk, driver_chunk)

        headers = {'User-Agent': 'driver', 'Content-Type': content_type}
        # NOTE: an explicitly empty body (b'') makes the ASGI test client send
        #   "Content-Length: 0" whereas the WSGI one omits the header; this
        #   (pre-existing, unrelated) difference in the simulated *request* is
        #   avoided by not passing a body at all when there is none.
        sim_body = data or None
        r_wsgi = normalize_result(
            testing.simulate_request(wsgi_app, method, path, body=sim_body, headers=headers)
        )
        r_asgi = normalize_result(
            testing.simulate_request(
                asgi_app, method, path, body=sim_body, headers=headers, asgi_chunk_size=client_chunk
            )
        )
        r_asgi_default = normalize_result(
            testing.simulate_request(asgi_app, method, path, body=sim_body, headers=headers)
        )
        d_wsgi = drive_wsgi(wsgi_app, method, path, data, content_type)
        d_asgi = drive_asgi(asgi_app, method, path, data, content_type, driver_chunk)

        results = {
            'client/wsgi': r_wsgi,
            'client/asgi': r_asgi,
            'client/asgi-default-chunks': r_asgi_default,
            'driver/wsgi': d_wsgi,
            'driver/asgi': d_asgi,
        }
        for name, res in results.items():
            if res != r_wsgi:
                fail('%s: %s differs from client/wsgi:\n   %r\n   %r' % (
                    label, name, (res[0], res[1], res[2][:80]), (r_wsgi[0], r_wsgi[1], r_wsgi[2][:80])))

        status, hdrs, body = r_wsgi
        hdrs = dict(hdrs)
        if status != '200 OK':
            fail('%s: status %s' % (label, status))
            continue
        if mode == 'echo':
            if body != data or hdrs.get('content-length') != str(len(data)):
                fail('%s: echo mismatch (%d bytes back)' % (label, len(body)))
            continue
        doc = json.loads(body)
        seen = data if mode in ('read', 'pieces') else b''
        exp = {
            'method': method,
            'content_length': len(data) if data else None,
            'content_type': content_type,
            'len': len(seen),
            'sha': hashlib.sha256(seen).hexdigest(),
            'media': (json.loads(data) if data else 'EMPTY') if mode == 'media' else None,
        }
        if doc != exp:
            fail('%s: echoed %r, expected %r' % (label, doc, exp))
        if mode in ('read', 'pieces') and hdrs.get('x-body-length') != str(len(data)):
            fail('%s: X-Body-Length %r' % (label, hdrs.get('x-body-length')))


def main():
    print('falcon imported from', falcon.__file__)
    print('emit_empty_chunks keyword available:', HAS_KWARG)
    rng = random.Random(60604)
    asyncio.run(check_units(rng))
    check_stacks(rng)
    print('cases: %(unit)d emitter cases, %(stack)d full-stack cases' % COUNT)
    if FAILURES:
        print('%d FAILURES' % len(FAILURES))
        sys.exit(1)
    print('PASS')


if __name__ == '__main__':
    main()
