"""Shared reference models for property C07 (request body streams deliver
exactly the declared body: no loss, no over-read).

This text is pasted verbatim at the top of every check.py so that each
check.py is self-contained.
"""

import asyncio
import io
import random
import sys

import falcon
import falcon.asgi
from falcon.asgi.stream import BoundedStream as AsgiStream
from falcon.errors import OperationNotAllowed
from falcon.stream import BoundedStream as WsgiStream
import falcon.testing as testing

FAILURES = []
COUNTS = {'wsgi': 0, 'asgi': 0, 'req': 0}


def fail(msg):
    FAILURES.append(msg)
    if len(FAILURES) > 20:
        finish()


def finish():
    if FAILURES:
        for msg in FAILURES[:20]:
            print('FAIL:', msg)
        print('FAILED (%d failures)' % len(FAILURES))
        sys.exit(1)
    print(
        'cases: wsgi=%(wsgi)d asgi=%(asgi)d req=%(req)d' % COUNTS,
    )
    print('PASS')
    sys.exit(0)


# ---------------------------------------------------------------------------
# WSGI side
# ---------------------------------------------------------------------------


class RecordingInput:
    """A wsgi.input that remembers how many bytes it was asked for."""

    def __init__(self, data, budget, label):
        self._io = io.BytesIO(data)
        self.budget = budget  # Content-Length
        self.handed_out = 0
        self.label = label
        self.calls = 0

    def _check(self, size, what):
        self.calls += 1
        if size is None or size < 0:
            fail('%s: raw %s called unbounded (%r)' % (self.label, what, size))
            return 0
        if self.handed_out + size > self.budget:
            fail(
                '%s: raw %s(%r) asks beyond Content-Length (%d handed out of %d)'
                % (self.label, what, size, self.handed_out, self.budget)
            )
        return size

    def read(self, size=None):
        size = self._check(size, 'read')
        out = self._io.read(size)
        self.handed_out += len(out)
        return out

    def readline(self, size=None):
        size = self._check(size, 'readline')
        out = self._io.readline(size)
        self.handed_out += len(out)
        return out

    def readlines(self, hint=None):
        fail('%s: raw readlines(%r) must not be used (may over-read)' % (self.label, hint))
        return self._io.readlines(hint)

    def __iter__(self):
        fail('%s: raw iteration must not be used (unbounded)' % self.label)
        return iter(self._io)


WSGI_OPS = ('read', 'readline', 'readlines', 'next', 'exhaust', 'eof', 'iterall')


def gen_body(rng):
    kind = rng.randrange(6)
    if kind == 0:
        return b''
    if kind == 1:
        return bytes(rng.randrange(256) for _ in range(rng.randrange(1, 40)))
    if kind == 2:
        return b'\n' * rng.randrange(1, 8)
    parts = []
    for _ in range(rng.randrange(1, 8)):
        parts.append(bytes(rng.choice(b'abcxyz\r') for _ in range(rng.randrange(0, 12))))
    body = b'\n'.join(parts)
    if kind == 3:
        body += b'\n'
    return body


def gen_size(rng, scale):
    return rng.choice(
        [None, None, -1, -1, -2, -100, 0, 1, 1, 2, 3, 5, 7, scale, scale + 1,
         max(scale - 1, 0), 2 * scale + 3, 10**9]
    )


def gen_content_length(rng, n):
    return rng.choice([n, n, n, 0, max(n - 1, 0), n // 2, n + 1, n + 17, 1])


def gen_wsgi_history(rng, n):
    hist = []
    for _ in range(rng.randrange(1, 9)):
        op = rng.choice(WSGI_OPS)
        if op in ('read', 'readline', 'readlines'):
            hist.append((op, gen_size(rng, n)))
        elif op == 'exhaust':
            hist.append((op, rng.choice([None, 1, 2, 3, 1024])))
        else:
            hist.append((op, None))
    hist.append(('eof', None))
    return hist


def clamp(size, rem):
    if size is None or size < 0 or size > rem:
        return rem
    return size


def run_wsgi_history(stream, raw, data, cl, hist, label):
    """Drive `stream` with `hist`, comparing with a plain BytesIO reference
    model over data[:cl]."""

    declared = data[:cl]
    ref = io.BytesIO(declared)
    returned = []
    rem = cl  # model of the remaining budget

    def take(out, exp, what, size=None):
        nonlocal rem
        if out != exp:
            fail('%s: %s -> %r, expected %r' % (label, what, out, exp))
        flat = b''.join(out) if isinstance(out, list) else out
        if size is not None and size >= 0 and not isinstance(out, list) and len(flat) > size:
            fail('%s: %s returned %d bytes > size' % (label, what, len(flat)))
        returned.append(flat)
        rem -= len(flat)

    for op, arg in hist:
        what = '%s(%r)' % (op, arg)
        if op == 'read':
            exp = ref.read(clamp(arg, rem))
            take(stream.read() if arg is None and len(returned) % 2 else stream.read(arg), exp, what, arg)
        elif op == 'readline':
            exp = ref.readline(clamp(arg, rem))
            take(stream.readline(arg), exp, what, arg)
        elif op == 'readlines':
            hint = clamp(arg, rem)
            exp = []
            total = 0
            model_rem = rem
            while total < hint:
                line = ref.readline(model_rem)
                if not line:
                    break
                exp.append(line)
                total += len(line)
                model_rem -= len(line)
            take(stream.readlines(arg), exp, what)
        elif op == 'next':
            exp = ref.readline(rem)
            try:
                out = next(stream)
            except StopIteration:
                out = b''
            take(out, exp, what)
        elif op == 'iterall':
            exp = []
            model_rem = rem
            while True:
                line = ref.readline(model_rem)
                if not line:
                    break
                exp.append(line)
                model_rem -= len(line)
            take(list(stream), exp, what)
        elif op == 'exhaust':
            if arg is None:
                stream.exhaust()
            else:
                stream.exhaust(arg)
            skipped = ref.read()
            rem -= len(skipped)
            returned.append(skipped)  # discarded, but consumed
            if stream.read(5) != b'':
                fail('%s: read after exhaust returned data' % label)
        elif op == 'eof':
            if stream.eof != (rem <= 0):
                fail('%s: eof=%r but model remaining=%d' % (label, stream.eof, rem))

        consumed = b''.join(returned)
        if not declared.startswith(consumed):
            fail('%s: consumed bytes are not a prefix of the declared body' % label)
        if raw.handed_out != len(consumed):
            fail(
                '%s: raw stream handed out %d bytes, caller saw %d'
                % (label, raw.handed_out, len(consumed))
            )
        if raw.handed_out > cl:
            fail('%s: over-read of the raw stream' % label)
        if stream._bytes_remaining != rem:
            fail('%s: remaining budget %d != model %d' % (label, stream._bytes_remaining, rem))

    if stream.eof and b''.join(returned) != declared:
        fail('%s: eof reported but body incomplete' % label)


def wsgi_cases(seed, count, make_stream=None):
    rng = random.Random(seed)
    for i in range(count):
        data = gen_body(rng)
        cl = gen_content_length(rng, len(data))
        hist = gen_wsgi_history(rng, max(len(data), 1))
        label = 'wsgi#%d data=%r cl=%d hist=%r' % (i, data, cl, hist)
        raw = RecordingInput(data, cl, label)
        stream = (make_stream or WsgiStream)(raw, cl)
        run_wsgi_history(stream, raw, data, cl, hist, label)
        COUNTS['wsgi'] += 1


def request_cases(seed, count):
    """The same, going through falcon.Request.bounded_stream (lazy wrapping)."""

    rng = random.Random(seed)
    for i in range(count):
        data = gen_body(rng)
        mode = rng.randrange(8)
        env = testing.create_environ(method='POST', path='/x', body=b'')
        if mode == 0:
            env.pop('CONTENT_LENGTH', None)
            cl = 0
        elif mode == 1:
            env['CONTENT_LENGTH'] = ''
            cl = 0
        elif mode == 2:
            env['CONTENT_LENGTH'] = rng.choice(['abc', '1.5', '0x10', '-3', '-0x1', ' ', 'ten'])
            cl = 0
        elif mode == 3:
            env['CONTENT_LENGTH'] = '0'
            cl = 0
        else:
            cl = gen_content_length(rng, len(data))
            env['CONTENT_LENGTH'] = rng.choice(['%d', ' %d', '%d ', '0%d', '+%d']) % cl
        hist = gen_wsgi_history(rng, max(len(data), 1))
        label = 'req#%d data=%r CONTENT_LENGTH=%r hist=%r' % (
            i, data, env.get('CONTENT_LENGTH'), hist)
        raw = RecordingInput(data, cl, label)
        env['wsgi.input'] = raw
        req = falcon.Request(env)
        if raw.calls:
            fail('%s: constructing the request touched wsgi.input' % label)
        stream = req.bounded_stream
        if req.bounded_stream is not stream:
            fail('%s: bounded_stream is not cached' % label)
        if type(stream) is not WsgiStream:
            fail('%s: bounded_stream has type %r' % (label, type(stream)))
        if stream.stream is not raw or stream.stream_len != cl:
            fail('%s: wrapped with stream_len=%r, expected %d' % (label, stream.stream_len, cl))
        if req.stream is not raw:
            fail('%s: req.stream is not the raw input' % label)
        run_wsgi_history(stream, raw, data, cl, hist, label)
        if req.bounded_stream is not stream:
            fail('%s: bounded_stream re-wrapped after use' % label)
        COUNTS['req'] += 1


# ---------------------------------------------------------------------------
# ASGI side
# ---------------------------------------------------------------------------


def gen_events(rng):
    """Return (events, note). events[-1] always terminates the body
    (more_body false/missing, or http.disconnect)."""

    events = []
    n = rng.randrange(1, 7)
    disconnect_at = rng.randrange(0, n + 1) if rng.random() < 0.4 else None
    for j in range(n):
        if disconnect_at == j:
            events.append({'type': 'http.disconnect'})
            return events
        ev = {'type': 'http.request'}
        shape = rng.randrange(8)
        if shape == 0:
            pass  # no 'body' key
        elif shape == 1:
            ev['body'] = b''
        elif shape == 2:
            ev['body'] = bytes(rng.randrange(256) for _ in range(rng.randrange(20, 60)))
        else:
            ev['body'] = bytes(rng.choice(b'abcdefgh\n') for _ in range(rng.randrange(1, 12)))
        last = j == n - 1
        if last:
            if rng.random() < 0.5:
                ev['more_body'] = False
        else:
            ev['more_body'] = True
            if rng.random() < 0.08:
                # Early terminator; following events must never be consumed
                if rng.random() < 0.5:
                    ev['more_body'] = False
                else:
                    del ev['more_body']
        events.append(ev)
    if disconnect_at == n:
        events[-1]['more_body'] = True
        events.append({'type': 'http.disconnect'})
    return events


def deliverable(events, cl):
    """Reference model: the bytes the app may see, and the index of the last
    event that may be consumed."""

    budget = cl
    out = []
    last = -1
    for idx, ev in enumerate(events):
        if budget is not None and budget <= 0 and idx > 0:
            break
        last = idx
        if ev['type'] == 'http.disconnect':
            break
        body = ev.get('body', b'')
        if budget is not None:
            body = body[:budget]
            budget -= len(body)
        out.append(body)
        if not ev.get('more_body', False):
            break
        if budget is not None and budget <= 0:
            break
    return b''.join(out), last


ASGI_OPS = ('read', 'read', 'read', 'readall', 'iter', 'iter_some', 'exhaust',
            'close', 'tell', 'eof')


def gen_asgi_history(rng, scale, ops=ASGI_OPS):
    hist = []
    for _ in range(rng.randrange(1, 8)):
        op = rng.choice(ops)
        if op == 'read':
            hist.append((op, gen_size(rng, scale)))
        elif op == 'iter_some':
            hist.append((op, rng.randrange(1, 3)))
        else:
            hist.append((op, None))
    hist.append(('eof', None))
    if rng.random() < 0.5:
        hist.append(('read', rng.choice([None, 1, 4])))
        hist.append(('eof', None))
    return hist


async def run_asgi_history(events, cl, preload, hist, label, yield_in_receive):
    expected, last_needed = deliverable(events, cl)
    state = {'next': 1 if preload else 0, 'overrun': False}

    async def receive():
        if yield_in_receive:
            await asyncio.sleep(0)
        idx = state['next']
        if idx > last_needed or idx >= len(events):
            state['overrun'] = True
            fail('%s: receive() awaited after the body was complete (would block)' % label)
            return {'type': 'http.disconnect'}
        state['next'] = idx + 1
        return events[idx]

    if preload:
        stream = AsgiStream(receive, first_event=events[0], content_length=cl)
    else:
        stream = AsgiStream(receive, content_length=cl)

    got = []  # bytes handed to the app
    pos = 0  # model of tell()
    closed = False
    live_iter = None

    def seen():
        return b''.join(got)

    def check_state(what):
        if not expected.startswith(seen()):
            fail('%s: after %s returned bytes %r are not a prefix of %r'
                 % (label, what, seen(), expected))
        if stream.tell() != pos:
            fail('%s: after %s tell()=%d, model %d' % (label, what, stream.tell(), pos))
        if stream.closed != closed:
            fail('%s: closed flag wrong after %s' % (label, what))
        if stream.eof and not closed and pos != len(expected):
            fail('%s: after %s eof reported at %d of %d bytes' % (label, what, pos, len(expected)))
        if closed and not stream.eof:
            fail('%s: closed stream does not report eof' % label)
        if cl is not None and pos == len(expected) == cl and not stream.eof:
            fail('%s: after %s all Content-Length bytes consumed but eof False' % (label, what))
        if stream._bytes_remaining < 0:
            fail('%s: negative remaining budget after %s' % (label, what))

    check_state('init')

    for op, arg in hist:
        what = '%s(%r)' % (op, arg)
        if live_iter is not None and not closed and op in ('read', 'readall', 'exhaust'):
            # NOTE: Mixing read()/exhaust() with a suspended iterator is
            #   documented as unsupported; finish the iteration first.
            async for chunk in live_iter:
                if not chunk:
                    fail('%s: iteration yielded an empty chunk' % label)
                got.append(chunk)
                pos += len(chunk)
            live_iter = None
            check_state('drain before ' + what)
        if closed and op in ('read', 'readall', 'iter', 'iter_some', 'exhaust'):
            exc_type = ValueError if op == 'exhaust' else OperationNotAllowed
            try:
                if op == 'read':
                    await stream.read(arg)
                elif op == 'readall':
                    await stream.readall()
                elif op == 'exhaust':
                    await stream.exhaust()
                else:
                    async for _ in stream:
                        pass
            except exc_type:
                pass
            else:
                fail('%s: %s on a closed stream did not raise' % (label, what))
            check_state(what)
            continue

        if op == 'read':
            out = await stream.read(arg)
            if arg is None or arg == -1:
                exp = expected[pos:]
            elif arg <= 0:
                exp = b''
            else:
                exp = expected[pos:pos + arg]
                if len(out) > arg:
                    fail('%s: %s returned %d bytes' % (label, what, len(out)))
            if out != exp:
                fail('%s: %s -> %r, expected %r' % (label, what, out, exp))
            got.append(out)
            pos += len(out)
            if (arg is None or arg == -1 or (arg > 0 and len(out) < arg)) and not stream.eof:
                fail('%s: short/unsized %s but eof is False' % (label, what))
        elif op == 'readall':
            out = await stream.readall()
            if out != expected[pos:]:
                fail('%s: readall -> %r, expected %r' % (label, out, expected[pos:]))
            got.append(out)
            pos += len(out)
            if not stream.eof:
                fail('%s: readall did not reach eof' % label)
        elif op in ('iter', 'iter_some'):
            if live_iter is not None and not stream.eof:
                # A second concurrent iteration is refused
                try:
                    async for _ in stream:
                        fail('%s: second iteration yielded data' % label)
                        break
                except OperationNotAllowed:
                    pass
                else:
                    fail('%s: second iteration was not refused' % label)
                it = live_iter
            elif live_iter is not None:
                it = live_iter
            else:
                it = stream.__aiter__()
            limit = arg if op == 'iter_some' else None
            n = 0
            finished = False
            while limit is None or n < limit:
                try:
                    chunk = await it.__anext__()
                except StopAsyncIteration:
                    finished = True
                    break
                if not chunk:
                    fail('%s: iteration yielded an empty chunk' % label)
                got.append(chunk)
                pos += len(chunk)
                n += 1
                check_state(what + ' chunk')
            if finished:
                if live_iter is None or it is live_iter:
                    live_iter = None if stream.eof else live_iter
                if not stream.eof:
                    fail('%s: iteration finished but eof False' % label)
                if pos != len(expected):
                    fail('%s: iteration finished at %d of %d' % (label, pos, len(expected)))
            else:
                live_iter = it
        elif op == 'exhaust':
            await stream.exhaust()
            pos = len(expected)
            got.append(expected[len(seen()):])  # discarded, but consumed
            if not stream.eof:
                fail('%s: exhaust did not reach eof' % label)
            if stream._bytes_remaining != 0 or stream._buffer != b'':
                fail('%s: exhaust left budget/buffer behind' % label)
        elif op == 'close':
            stream.close()
            stream.close()
            closed = True
        elif op == 'tell':
            pass
        elif op == 'eof':
            pass
        check_state(what)

    if state['next'] - 1 > last_needed:
        fail('%s: consumed events beyond the end of the body' % label)
    if live_iter is not None:
        await live_iter.aclose()


def asgi_cases(seed, count, ops=ASGI_OPS, force_cl=None):
    rng = random.Random(seed)

    async def main():
        for i in range(count):
            events = gen_events(rng)
            total = sum(len(ev.get('body', b'')) for ev in events)
            if force_cl is not None:
                cl = force_cl(rng, events, total)
            else:
                cl = rng.choice([None, None, total, total, 0, 1, total // 2,
                                 max(total - 1, 0), total + 1, total + 50])
            preload = rng.random() < 0.8
            hist = gen_asgi_history(rng, max(total, 1), ops)
            label = 'asgi#%d events=%r cl=%r preload=%r hist=%r' % (
                i, events, cl, preload, hist)
            await run_asgi_history(events, cl, preload, hist, label, rng.random() < 0.3)
            COUNTS['asgi'] += 1

    asyncio.run(main())


def asgi_request_cases(seed, count):
    """Through falcon.asgi.Request.stream (lazy wrapping with Content-Length)."""

    rng = random.Random(seed)

    async def main():
        for i in range(count):
            events = gen_events(rng)
            total = sum(len(ev.get('body', b'')) for ev in events)
            mode = rng.randrange(6)
            headers = []
            if mode == 0:
                cl = None
            elif mode == 1:
                cl = None
                headers.append((b'content-length', b''))
            else:
                cl = rng.choice([total, total, 0, total // 2, total + 3])
                headers.append((b'content-length', str(cl).encode()))
            scope = testing.create_scope(method='POST', path='/x')
            scope['headers'] = [(b'host', b'falconframework.org')] + headers
            expected, last_needed = deliverable(events, cl)
            state = {'next': 1}
            label = 'asgireq#%d events=%r headers=%r' % (i, events, headers)

            async def receive():
                idx = state['next']
                if idx > last_needed or idx >= len(events):
                    fail('%s: receive() awaited after the body was complete' % label)
                    return {'type': 'http.disconnect'}
                state['next'] = idx + 1
                return events[idx]

            req = falcon.asgi.Request(scope, receive, first_event=events[0])
            stream = req.stream
            if req.stream is not stream or req.bounded_stream is not stream:
                fail('%s: stream is not cached' % label)
            if type(stream) is not AsgiStream:
                fail('%s: unexpected stream type' % label)
            how = rng.randrange(3)
            if how == 0:
                out = await stream.read()
            elif how == 1:
                out = b''
                size = rng.randrange(1, 9)
                while True:
                    piece = await stream.read(size)
                    if len(piece) > size:
                        fail('%s: oversized read' % label)
                    if not piece:
                        break
                    out += piece
            else:
                out = b''
                async for chunk in stream:
                    out += chunk
            if out != expected:
                fail('%s: body %r, expected %r' % (label, out, expected))
            if not stream.eof or stream.tell() != len(expected):
                fail('%s: eof/tell wrong at the end' % label)
            COUNTS['req'] += 1

    asyncio.run(main())


# ---------------------------------------------------------------------------
# Change 2: Request._get_wrapped_wsgi_input() inlined into bounded_stream
# ---------------------------------------------------------------------------


def wrapping_table():
    """Hard-coded expectations (recorded on the unmodified tree) for the
    stream_len that the lazily created wrapper gets."""

    table = [
        (None, 0), ('', 0), ('0', 0), ('5', 5), ('005', 5), (' 7 ', 7), ('+3', 3),
        ('-1', 0), ('-0', 0), ('abc', 0), ('1e3', 0), ('4.0', 0), ('0x10', 0),
        ('1234567890123', 1234567890123), ('1_0', 10), (' ', 0),
    ]
    for value, want in table:
        env = testing.create_environ(method='PUT', path='/', body=b'')
        if value is None:
            env.pop('CONTENT_LENGTH', None)
        else:
            env['CONTENT_LENGTH'] = value
        marker = io.BytesIO(b'0123456789')
        env['wsgi.input'] = marker
        req = falcon.Request(env)
        if req._bounded_stream is not None:
            fail('wrapping: stream wrapped eagerly')
        bs = req.bounded_stream
        if bs.stream is not marker or bs.stream_len != want or bs._bytes_remaining != want:
            fail('wrapping: CONTENT_LENGTH=%r -> stream_len=%r, want %r'
                 % (value, bs.stream_len, want))
        if req.bounded_stream is not bs or req._bounded_stream is not bs:
            fail('wrapping: not cached for CONTENT_LENGTH=%r' % (value,))
        if bs.read() != b'0123456789'[:want]:
            fail('wrapping: read() wrong for CONTENT_LENGTH=%r' % (value,))
        if marker.tell() != min(want, 10):
            fail('wrapping: raw stream over-read for CONTENT_LENGTH=%r' % (value,))
        COUNTS['req'] += 1

    # No wsgi.input at all: the error surfaces on access, each time, and
    # nothing is cached.
    env = testing.create_environ(method='PUT', path='/', body=b'')
    req = falcon.Request(env)
    del req.env['wsgi.input']
    for _ in range(2):
        try:
            req.bounded_stream
        except KeyError:
            pass
        else:
            fail('wrapping: missing wsgi.input did not raise KeyError')
        if req._bounded_stream is not None:
            fail('wrapping: cached a stream without wsgi.input')

    # A subclass that customises content_length is still consulted, once.
    class Req(falcon.Request):
        lookups = 0

        @property
        def content_length(self):
            Req.lookups += 1
            return 4

    env = testing.create_environ(method='PUT', path='/', body=b'abcdefgh')
    req = Req(env)
    before = Req.lookups
    if req.bounded_stream.read() != b'abcd' or req.bounded_stream.read() != b'':
        fail('wrapping: subclass content_length ignored')
    if Req.lookups - before != 1:
        fail('wrapping: content_length consulted %d times' % (Req.lookups - before))


def end_to_end(seed, count):
    """Through a real App + test client: the resource echoes what it could
    read from req.bounded_stream."""

    rng = random.Random(seed)

    class Echo:
        def on_post(self, req, resp):
            how = req.get_param('how')
            bs = req.bounded_stream
            if how == 'read':
                out = bs.read()
            elif how == 'chunks':
                out = b''
                while True:
                    piece = bs.read(3)
                    assert len(piece) <= 3
                    if not piece:
                        break
                    out += piece
            elif how == 'lines':
                out = b''.join(bs.readlines())
            elif how == 'iter':
                out = b''.join(bs)
            else:
                first = bs.readline()
                out = first + bs.read()
            assert bs.eof or len(out) < bs.stream_len
            assert req.bounded_stream is bs
            resp.data = out

    app = falcon.App()
    app.add_route('/echo', Echo())
    client = testing.TestClient(app)
    for i in range(count):
        data = gen_body(rng)
        how = rng.choice(['read', 'chunks', 'lines', 'iter', 'mixed'])
        mode = rng.randrange(5)
        headers = {}
        if mode == 0:
            cl = len(data)
        elif mode == 1:
            cl = rng.randrange(0, len(data) + 1)
            headers['Content-Length'] = str(cl)
        elif mode == 2:
            cl = len(data) + rng.randrange(1, 9)
            headers['Content-Length'] = str(cl)
        elif mode == 3:
            # (invalid values are rejected by the test client's WSGI
            #   validator; they are covered by request_cases() instead)
            cl = min(1, len(data))
            headers['Content-Length'] = str(cl)
        else:
            cl = 0
            headers['Content-Length'] = '0'
        result = client.simulate_post('/echo', body=data, headers=headers,
                                      params={'how': how})
        if result.status_code != 200 or result.content != data[:cl]:
            fail('e2e#%d how=%s headers=%r data=%r -> %s %r'
                 % (i, how, headers, data, result.status, result.content))
        COUNTS['req'] += 1


if __name__ == '__main__':
    wrapping_table()
    request_cases(201, 1500)
    end_to_end(202, 300)
    wsgi_cases(203, 500)
    asgi_request_cases(204, 200)
    asgi_cases(205, 300)
    finish()
