"""Property C08 check: query strings parse to one well-defined mapping,
typed getters never misreport, to_query_str round-trips.

Run as:  PYTHONPATH=<tree> /venv/bin/python check.py

Everything is compared against small reference models written here from the
property statement (they do not share code with falcon).  The program prints
PASS and exits 0 iff every comparison agrees.
"""

import collections.abc
import datetime
import io
import itertools
import json
import random
import sys
import urllib.parse
import uuid

import falcon
import falcon.asgi
from falcon import errors
from falcon import testing
from falcon.util import misc
from falcon.util import uri

FOCUS = 'date getter'  # which mechanism this copy of the check stresses hardest

rng = random.Random(0xC08)
FAILURES = []
COUNTS = {}


def count(section, n=1):
    COUNTS[section] = COUNTS.get(section, 0) + n


def fail(section, *detail):
    FAILURES.append((section,) + detail)
    if len(FAILURES) > 25:
        report()


def report():
    for f in FAILURES[:25]:
        print('FAIL', *[repr(x) for x in f])
    print('FAILED (%d mismatches)' % len(FAILURES))
    sys.exit(1)


# ---------------------------------------------------------------------------
# Reference models
# ---------------------------------------------------------------------------

HEX = '0123456789abcdefABCDEF'


def ref_decode(s, plus=True):
    """Percent/plus decoding as UTF-8, malformed escapes kept literally."""
    if plus:
        s = s.replace('+', ' ')
    data = s.encode('utf-8')
    out = bytearray()
    i = 0
    n = len(data)
    while i < n:
        c = data[i]
        if (
            c == 0x25
            and i + 2 < n
            and chr(data[i + 1]) in HEX
            and chr(data[i + 2]) in HEX
        ):
            out.append(int(data[i + 1 : i + 3].decode('ascii'), 16))
            i += 3
        else:
            out.append(c)
            i += 1
    return out.decode('utf-8', 'replace')


def ref_parse(qs, keep_blank, csv):
    out = {}
    for field in qs.split('&'):
        pos = field.find('=')
        if pos < 0:
            name, value = field, ''
        else:
            name, value = field[:pos], field[pos + 1 :]
        if value == '' and not (keep_blank and name != ''):
            continue
        name = ref_decode(name)
        if csv and ',' in value:
            new = [ref_decode(e) for e in value.split(',') if keep_blank or e != '']
            if name not in out:
                out[name] = new
            elif isinstance(out[name], list):
                out[name] = out[name] + new
            else:
                out[name] = [out[name]] + new
        else:
            new = ref_decode(value)
            if name not in out:
                out[name] = new
            elif isinstance(out[name], list):
                out[name] = out[name] + [new]
            else:
                out[name] = [out[name], new]
    return out


def ref_quote(s):
    return urllib.parse.quote(s, safe='~')


def ref_to_query_str(params, comma=True, prefix=True):
    if not params:
        return ''
    fields = []
    for k, v in params.items():
        if v is True:
            fields.append(ref_quote(k) + '=true')
        elif v is False:
            fields.append(ref_quote(k) + '=false')
        elif isinstance(v, list):
            if comma:
                fields.append(
                    ref_quote(k) + '=' + ','.join(ref_quote(str(e)) for e in v)
                )
            else:
                for e in v:
                    if e is True:
                        e = 'true'
                    elif e is False:
                        e = 'false'
                    else:
                        e = ref_quote(str(e))
                    fields.append(ref_quote(k) + '=' + e)
        else:
            fields.append(ref_quote(k) + '=' + ref_quote(str(v)))
    if not fields:
        return ''
    return ('?' if prefix else '') + '&'.join(fields)


TRUE_S = {'true', 'True', 't', 'yes', 'y', '1', 'on'}
FALSE_S = {'false', 'False', 'f', 'no', 'n', '0', 'off'}


class Missing(Exception):
    pass


class Invalid(Exception):
    pass


def ref_last(params, name):
    if name not in params:
        raise Missing()
    v = params[name]
    if isinstance(v, list):
        v = v[-1]
    return v


def ref_int(params, name, lo=None, hi=None):
    v = ref_last(params, name)
    try:
        v = int(v)
    except ValueError:
        raise Invalid()
    if lo is not None and v < lo:
        raise Invalid()
    if hi is not None and hi < v:
        raise Invalid()
    return v


def ref_float(params, name, lo=None, hi=None):
    v = ref_last(params, name)
    try:
        v = float(v)
    except ValueError:
        raise Invalid()
    if lo is not None and v < lo:
        raise Invalid()
    if hi is not None and hi < v:
        raise Invalid()
    return v


def ref_bool(params, name, blank_as_true=True):
    v = ref_last(params, name)
    if v in TRUE_S:
        return True
    if v in FALSE_S:
        return False
    if v == '':
        return blank_as_true
    raise Invalid()


def ref_uuid(params, name):
    v = ref_last(params, name)
    try:
        return uuid.UUID(v)
    except ValueError:
        raise Invalid()


def ref_datetime(params, name, fmt='%Y-%m-%dT%H:%M:%S%z'):
    v = ref_last(params, name)
    try:
        return datetime.datetime.strptime(v, fmt)
    except ValueError:
        raise Invalid()


def ref_date(params, name, fmt='%Y-%m-%d'):
    return ref_datetime(params, name, fmt).date()


def ref_list(params, name, transform=None):
    if name not in params:
        raise Missing()
    v = params[name]
    if not isinstance(v, list):
        v = [v]
    if transform is None:
        return list(v)
    try:
        return [transform(e) for e in v]
    except ValueError:
        raise Invalid()


def ref_json(params, name):
    v = ref_last(params, name)
    try:
        return json.loads(v)
    except ValueError:
        raise Invalid()


def same(a, b):
    """Equality that also checks types and treats NaN as equal to NaN."""
    if type(a) is not type(b):
        return False
    if isinstance(a, float):
        return a == b or (a != a and b != b)
    if isinstance(a, list):
        return len(a) == len(b) and all(same(x, y) for x, y in zip(a, b))
    if isinstance(a, dict):
        return list(a) == list(b) and all(same(a[k], b[k]) for k in a)
    return a == b


# ---------------------------------------------------------------------------
# Input generation
# ---------------------------------------------------------------------------

ALPHABET = ['&', '=', ',', '+', '%', '4', '1', 'a', 'F', 'g', '\x00', 'é']


def exhaustive(max_len):
    for n in range(max_len + 1):
        for tup in itertools.product(ALPHABET, repeat=n):
            yield ''.join(tup)


PIECES = [
    '&', '&', '=', '=', ',', ',', '+', '%', '%', '%%', '%4', '%41', '%2C', '%2c',
    '%26', '%3D', '%25', '%2B', '%00', '%C3%A9', '%c3', '%A9', '%E2%82%AC', '%F0%9F',
    '%ff', '%zz', '%4g', '%g4', 'a', 'b', 'ab', 'x', 'id', 'flag', '1', '0', '42',
    '-7', '1e3', 'nan', 'true', 'off', '\x00', 'é', '€', '\U0001f600',
    ' ', ';', '/', '?', '#', '~', '.', '_', '-', '"', '{', '}', '[', ']', ':',
]


def random_qs():
    return ''.join(rng.choice(PIECES) for _ in range(rng.randint(1, 24)))


TYPED_VALUES = [
    '42', '-7', '+5', '%2B5', '0', '007', '1_0', '1e3', '1.5', '-0.0', 'nan', 'inf',
    '-inf', '9' * 30, ' 12 ', '%2012', '0x10', '', 'true', 'True', 'TRUE', 't', 'yes',
    'y', '1', 'on', 'false', 'False', 'f', 'no', 'n', 'off', 'maybe',
    '64be949b-3433-4d36-a4a8-9f19d352fee8', 'BE71ECAA-F719-4D42-87FD-32613C2EEB60',
    '64be949b34334d36a4a89f19d352fee8', '%7B64be949b-3433-4d36-a4a8-9f19d352fee8%7D',
    'urn:uuid:64be949b-3433-4d36-a4a8-9f19d352fee8', '64be949b-3433',
    '2015-04-20', '2015-4-2', '2015-02-30', '2015-04-20T10:10:10Z',
    '2015-04-20T10:10:10%2B02:00', '2015-04-20T10:10:10+02:00', '0001-01-01',
    '%7B%22a%22%3A1%7D', '{"a":1,"b":[1,2]}', '%5B1%2C2%5D', '[1,2]', '"s"', 'null',
    '1,2,3', '1,,3', ',', ',,', 'a,b', '%2C', 'a%2Cb,c', 'é', '%C3%A9', '%', '%4',
    '%zz', '%00', '\x00', 'x=y', '==',
]
NAMES = ['a', 'b', 'id', '%61', 'a+b', 'é', '%C3%A9', '']


def typed_qs():
    fields = []
    for _ in range(rng.randint(1, 5)):
        name = rng.choice(NAMES[:4]) if rng.random() < 0.8 else rng.choice(NAMES)
        r = rng.random()
        if r < 0.08:
            fields.append(name)
        else:
            fields.append(name + '=' + rng.choice(TYPED_VALUES))
    return '&'.join(fields)


OPTION_COMBOS = [(kb, csv) for kb in (False, True) for csv in (False, True)]


# ---------------------------------------------------------------------------
# Section A: decode
# ---------------------------------------------------------------------------


def check_decode():
    cases = list(exhaustive(4))
    for _ in range(3000):
        cases.append(random_qs())
    # Long inputs with many escapes: more than 8 '%'-separated tokens, so that
    # the platform-dependent token joiner is used as well.
    for _ in range(1500):
        n = rng.randint(8, 40)
        cases.append(
            ''.join(
                rng.choice(
                    ['%41', '%', '%%', '%4', '%zz', '%C3%A9', '%c3', '%E2%82', '+', 'q',
                     '%00', 'é', '%2C', ',', '=', '&', '%F', '%fF', '%Gf', '% 4']
                )
                for _ in range(n)
            )
        )
    cases += ['%' * k for k in range(1, 20)]
    cases += ['%41' * k for k in range(1, 20)]
    cases += ['%4' * k for k in range(1, 20)]
    cases += ['%C3' * k + '%A9' for k in range(1, 12)]
    for s in cases:
        for plus in (True, False):
            count('decode')
            try:
                got = uri.decode(s, unquote_plus=plus)
            except Exception as ex:  # parsing never fails
                fail('decode raised', s, plus, ex)
                continue
            want = ref_decode(s, plus)
            if got != want or type(got) is not str:
                fail('decode', s, plus, got, want)
        count('decode')
        if uri.decode(s) != ref_decode(s):
            fail('decode default', s)

    # Both pure-Python joiners, whichever the platform picked.
    joiners = [
        getattr(uri, n, None) for n in ('_join_tokens_bytearray', '_join_tokens_list')
    ]
    for s in cases:
        if '%' not in s:
            continue
        data = s.replace('+', ' ').encode()
        for j in joiners:
            if j is None:
                continue
            count('joiner')
            tokens = data.split(b'%')
            snapshot = list(tokens)
            got = j(tokens)
            if got != ref_decode(s):
                fail('joiner', j.__name__, s, got, ref_decode(s))
            if tokens != snapshot:
                fail('joiner mutated its argument', j.__name__, s)


# ---------------------------------------------------------------------------
# Section B: parse_query_string
# ---------------------------------------------------------------------------


def check_parse():
    cases = list(exhaustive(4))
    for _ in range(4000):
        cases.append(random_qs())
    for _ in range(1500):
        cases.append(typed_qs())
    cases += [
        'a=1&a=2&a=3', 'a=1,2&a=3', 'a=1&a=2,3', 'a=1,2&a=3,4', 'a=,&a=1', 'a=1&a=,',
        'a=,', 'a=,,&a=,', 'a&a&a', 'a=&a=', '=', '==', '=1', '=1&=2', '&&&', '&=&',
        'a==1', 'a=1=2', 'a%3D1=2', 'a%26b=1', 'a=%2C,%2C', 'a=%2c', 'a=1%2C2&a=3',
        'a=%', 'a=%&a=%4', 'a=%4,%41', '%=%', '%41=%41', '+=+', 'a=+,+', ',=,', ',',
        'a=\x00', '\x00=\x00', 'a=é,é', 'é=1&%C3%A9=2',
    ]
    for qs in cases:
        for kb, csv in OPTION_COMBOS:
            count('parse')
            try:
                got = uri.parse_query_string(qs, keep_blank=kb, csv=csv)
            except Exception as ex:
                fail('parse raised', qs, kb, csv, ex)
                continue
            want = ref_parse(qs, kb, csv)
            if not same(got, want):
                fail('parse', qs, kb, csv, got, want)
        count('parse')
        if not same(uri.parse_query_string(qs), ref_parse(qs, False, False)):
            fail('parse defaults', qs)
        if not same(uri.parse_query_string(qs, True, True), ref_parse(qs, True, True)):
            fail('parse positional', qs)

    # Results of separate calls never share list objects.
    r1 = uri.parse_query_string('a=1,2&b=1&b=2', csv=True)
    r2 = uri.parse_query_string('a=1,2&b=1&b=2', csv=True)
    r1['a'].append('x')
    r1['b'].append('x')
    if r2 != {'a': ['1', '2'], 'b': ['1', '2']}:
        fail('parse aliasing', r2)


# ---------------------------------------------------------------------------
# Section C/D: requests (WSGI + ASGI) and typed getters
# ---------------------------------------------------------------------------


def make_requests(qs, kb, csv):
    reqs = []

    opts = falcon.RequestOptions()
    opts.keep_blank_qs_values = kb
    opts.auto_parse_qs_csv = csv
    env = testing.create_environ(path='/x')
    env['QUERY_STRING'] = qs
    reqs.append(('wsgi', falcon.Request(env, options=opts)))

    opts = falcon.RequestOptions()
    opts.keep_blank_qs_values = kb
    opts.auto_parse_qs_csv = csv
    scope = testing.create_scope(path='/x')
    scope['query_string'] = qs.encode('utf-8')
    reqs.append(('asgi', falcon.asgi.Request(scope, None, options=opts)))
    return reqs


def outcome(fn, *args, **kwargs):
    try:
        return ('ok', fn(*args, **kwargs))
    except Missing:
        return ('missing',)
    except Invalid:
        return ('invalid',)
    except errors.HTTPMissingParam as ex:
        if ex.status_code != 400 or not isinstance(ex, errors.HTTPBadRequest):
            return ('bad-missing', ex)
        return ('missing',)
    except errors.HTTPInvalidParam as ex:
        if ex.status_code != 400 or not isinstance(ex, errors.HTTPBadRequest):
            return ('bad-invalid', ex)
        return ('invalid',)


SENTINEL = object()


def check_getter(tag, qs, opt, name, ref_params, getter, ref_fn, kwargs, ref_kwargs):
    """Exercise one getter with every required/default/store combination."""
    want = outcome(ref_fn, ref_params, name, **ref_kwargs)
    for required in (False, True):
        for default in (None, SENTINEL):
            for use_store in (False, True):
                count('getter')
                store = {} if use_store else None
                kw = dict(kwargs)
                kw['required'] = required
                if default is not None:
                    kw['default'] = default
                if use_store:
                    kw['store'] = store
                got = outcome(getter, name, **kw)

                if want[0] == 'ok':
                    exp = want
                    exp_store = {name: want[1]}
                elif want[0] == 'invalid':
                    exp = want
                    exp_store = {}
                else:  # missing
                    exp = ('missing',) if required else ('ok', default)
                    exp_store = {}

                ok = got[0] == exp[0]
                if ok and got[0] == 'ok':
                    if exp[1] is SENTINEL or exp[1] is None:
                        ok = got[1] is exp[1]
                    else:
                        ok = same(got[1], exp[1])
                if not ok:
                    fail('getter', tag, qs, opt, name, kw, got, exp)
                if use_store:
                    if list(store) != list(exp_store) or (
                        store and not same(store[name], exp_store[name])
                    ):
                        fail('getter store', tag, qs, opt, name, kw, store, exp_store)


def check_requests():
    cases = []
    for _ in range(200):
        cases.append(typed_qs())
    for _ in range(120):
        cases.append(random_qs())
    cases += [
        '', 'a', 'a=', 'a=1', 'a=1&a=2', 'a=1,2', 'a=2,1&a=7', 'a=x&a=3', 'a=3&a=x',
        'a=1&a=', 'a=&a=1', 'a=true&a=false', 'a=false,true', 'a=-5', 'a=5', 'a=10',
        'a=11', 'a=4', 'a=4.999', 'a=10.001', 'a=nan', 'a=inf', 'a=2015-04-20',
        'id=64be949b-3433-4d36-a4a8-9f19d352fee8&id=x',
        'id=x&id=64be949b-3433-4d36-a4a8-9f19d352fee8',
        'a=%7B%22k%22%3A%5B1%2C2%5D%7D', 'a={"k":[1,2]}', 'a=[1,2]',
        'a=2015-04-20T10:10:10Z', 'a=2015-04-20T10:10:10Z&a=2016-01-01T00:00:00%2B0100',
        '%C3%A9=1&é=2', 'a+b=1', '%61=5',
    ]
    probe_names = ['a', 'b', 'zz-missing']

    for qs in cases:
        for kb, csv in OPTION_COMBOS:
            want = ref_parse(qs, kb, csv) if qs else {}
            for tag, req in make_requests(qs, kb, csv):
                count('request')
                if not same(dict(req.params), want):
                    fail('req.params', tag, qs, kb, csv, dict(req.params), want)
                    continue

                names = [n for n in probe_names]
                for n in want:
                    if n not in names:
                        names.append(n)
                for name in names:
                    count('request')
                    if req.has_param(name) is not (name in want):
                        fail('has_param', tag, qs, kb, csv, name)
                    if name in want and want[name] == []:
                        # 'a=,' with csv on and blanks dropped yields an empty
                        # list; "last occurrence" is undefined there.
                        count('skipped-empty-list')
                        continue
                    opt = (kb, csv)
                    a = (tag, qs, opt, name, want)
                    check_getter(*a, req.get_param, ref_last, {}, {})
                    check_getter(*a, req.get_param_as_int, ref_int, {}, {})
                    for lo, hi in ((5, 10), (None, 4), (5, None), (10, 5), (-7, -7)):
                        check_getter(
                            *a,
                            req.get_param_as_int,
                            ref_int,
                            {'min_value': lo, 'max_value': hi},
                            {'lo': lo, 'hi': hi},
                        )
                    check_getter(*a, req.get_param_as_float, ref_float, {}, {})
                    for lo, hi in ((5, 10), (None, 4.5), (1.5, None), (0.0, 0.0)):
                        check_getter(
                            *a,
                            req.get_param_as_float,
                            ref_float,
                            {'min_value': lo, 'max_value': hi},
                            {'lo': lo, 'hi': hi},
                        )
                    check_getter(*a, req.get_param_as_bool, ref_bool, {}, {})
                    check_getter(
                        *a,
                        req.get_param_as_bool,
                        ref_bool,
                        {'blank_as_true': False},
                        {'blank_as_true': False},
                    )
                    check_getter(*a, req.get_param_as_uuid, ref_uuid, {}, {})
                    check_getter(*a, req.get_param_as_datetime, ref_datetime, {}, {})
                    check_getter(
                        *a,
                        req.get_param_as_datetime,
                        ref_datetime,
                        {'format_string': '%Y-%m-%dT%H:%M:%SZ'},
                        {'fmt': '%Y-%m-%dT%H:%M:%SZ'},
                    )
                    check_getter(*a, req.get_param_as_date, ref_date, {}, {})
                    check_getter(
                        *a,
                        req.get_param_as_date,
                        ref_date,
                        {'format_string': '%Y%m%d'},
                        {'fmt': '%Y%m%d'},
                    )
                    check_getter(*a, req.get_param_as_list, ref_list, {}, {})
                    check_getter(
                        *a,
                        req.get_param_as_list,
                        ref_list,
                        {'transform': int},
                        {'transform': int},
                    )
                    check_getter(*a, req.get_param_as_json, ref_json, {}, {})

                # Getters never change the mapping.
                if not same(dict(req.params), want):
                    fail('getter changed params', tag, qs, kb, csv)


# ---------------------------------------------------------------------------
# Section E: to_query_str and the round-trip law
# ---------------------------------------------------------------------------

KEY_PIECES = ['a', 'b', 'k', 'id', ' ', '&', '=', ',', '+', '%', '%41', 'é',
              '\x00', '~', '-', '/', '?', '€']
VAL_PIECES = KEY_PIECES + ['1', '0', 'true', '', 'x y', '%2C', '\U0001f600']


def rand_text(pieces, lo, hi):
    return ''.join(rng.choice(pieces) for _ in range(rng.randint(lo, hi)))


def rand_params(str_only):
    d = {}
    for _ in range(rng.randint(0, 5)):
        k = rand_text(KEY_PIECES, 1, 3)
        r = rng.random()
        if r < 0.5:
            v = rand_text(VAL_PIECES, 0, 4)
        elif r < 0.8 or str_only:
            v = [rand_text(VAL_PIECES, 0, 3) for _ in range(rng.randint(0, 4))]
        elif r < 0.85:
            v = rng.choice([True, False])
        elif r < 0.9:
            v = rng.choice([0, 1, -3, 2.5, None])
        else:
            v = [rng.choice([True, False, 1, 0, 'true', 2.5, None, 'x,y'])
                 for _ in range(rng.randint(0, 4))]
        d[k] = v
    return d


def normal_form(params, comma):
    """What a rendered mapping is expected to parse back to (blank kept)."""
    out = {}
    for k, v in params.items():
        if isinstance(v, list):
            if len(v) == 0:
                if comma:
                    out[k] = ''
            elif len(v) == 1:
                out[k] = v[0]
            else:
                out[k] = list(v)
        else:
            out[k] = v
    return out


def check_to_query_str():
    fixed = [
        {}, None, {'a': []}, {'a': [], 'b': []}, {'a': [], 'b': '1'}, {'a': ''},
        {'a': ['']}, {'a': ['', '']}, {'a': True, 'b': False}, {'a': [True, False]},
        {'a': 1, 'b': 0}, {'a': 1.0}, {'a': None}, {'a': 'x&y=z'}, {'a&b': 'c'},
        {'a': ['1,2', '3']}, {'a': (1, 2)}, {'': 'v'}, {'a': 'b' * 100},
    ]
    cases = fixed + [rand_params(False) for _ in range(4000)]
    for params in cases:
        for comma in (True, False):
            for prefix in (True, False):
                count('to_query_str')
                got = misc.to_query_str(params, comma_delimited_lists=comma, prefix=prefix)
                want = ref_to_query_str(params, comma, prefix)
                if got != want or type(got) is not str:
                    fail('to_query_str', params, comma, prefix, got, want)
        count('to_query_str')
        if misc.to_query_str(params) != ref_to_query_str(params, True, True):
            fail('to_query_str defaults', params)
    # Other mapping types, truthy/falsy non-bool flags.
    import collections
    import types

    class LazyMapping(collections.abc.Mapping):
        def __init__(self, d):
            self._d = d

        def __getitem__(self, k):
            return self._d[k]

        def __iter__(self):
            return iter(self._d)

        def __len__(self):
            return len(self._d)

    for params in fixed[2:] + [rand_params(False) for _ in range(300)]:
        for wrap in (collections.OrderedDict, types.MappingProxyType, LazyMapping):
            for comma in (True, False, 1, 0, '', 'x'):
                for prefix in (True, False, 1, 0, '', 'x', None):
                    count('to_query_str')
                    got = misc.to_query_str(wrap(params), comma, prefix)
                    want = ref_to_query_str(params, bool(comma), bool(prefix))
                    if got != want:
                        fail('to_query_str mapping', params, wrap, comma, prefix, got)

    # Which statement raises, and when nothing raises at all.
    class Boom:
        def __str__(self):
            raise ZeroDivisionError('boom')

    count('to_query_str', 6)
    for prefix in (True, False):
        if misc.to_query_str({1: []}, comma_delimited_lists=False, prefix=prefix) != '':
            fail('to_query_str non-str key, empty list')
    for params, exc in (
        ({1: 'a'}, (AttributeError, TypeError)),
        ({1: Boom()}, ZeroDivisionError),
        ({1: [Boom()]}, ZeroDivisionError),
        ({'a': 'b', 1: [Boom()]}, ZeroDivisionError),
    ):
        for comma in (True, False):
            try:
                misc.to_query_str(params, comma_delimited_lists=comma)
            except exc:
                pass
            else:
                fail('to_query_str should have raised', params, comma)

    if falcon.to_query_str is not misc.to_query_str:
        fail('falcon.to_query_str alias')

    # Round trip: str keys, str values or lists of str.
    for _ in range(2500):
        params = rand_params(True)
        for comma in (True, False):
            count('round-trip')
            qs = misc.to_query_str(params, comma_delimited_lists=comma, prefix=False)
            back = uri.parse_query_string(qs, keep_blank=True, csv=comma)
            want = normal_form(params, comma) if qs else {}
            if not same(back, want):
                fail('round-trip', params, comma, qs, back, want)
            with_prefix = misc.to_query_str(params, comma_delimited_lists=comma)
            if with_prefix != (('?' + qs) if qs else ''):
                fail('round-trip prefix', params, comma, with_prefix, qs)
            # ... and through a request object on both sides
            if qs and rng.random() < 0.15:
                for tag, req in make_requests(qs, True, comma):
                    count('round-trip')
                    if not same(dict(req.params), want):
                        fail('round-trip req', tag, params, comma, qs)


# ---------------------------------------------------------------------------
# Section G: the date getter (found / missing / malformed, every format)
# ---------------------------------------------------------------------------


def check_dates():
    formats = ['%Y-%m-%d', '%Y%m%d', '%d/%m/%Y', '%H:%M', '%Y-%m-%dT%H:%M:%S%z',
               '%Y-%m-%dT%H:%M:%SZ', '%j', '%y', '', '%%', 'x']
    raws = ['2015-04-20', '20150420', '20/04/2015', '0001-01-01', '00010101',
            '9999-12-31', '1900-01-01', '1970-01-01', '00:00', '23:59', '0:0',
            '2015-04-20T00:00:00Z', '2015-04-20T00:00:00+0000',
            '2015-04-20T23:59:59-1200', '2016-02-29', '2015-02-29', '001', '366',
            '00', '69', '', '%', 'x', ' ', '2015-04-20 ', '2015-4-2', '0', 'None',
            '2015-04-20,2016-01-01']
    probe = datetime.date(2000, 2, 2)
    for raw in raws:
        for shape in range(4):
            enc = urllib.parse.quote(raw)
            qs = ['d=' + enc, 'd=1999-01-01&d=' + enc, 'd=' + enc + '&e=1', 'e=' + enc][shape]
            for kb, csv in OPTION_COMBOS:
                want_params = ref_parse(qs, kb, csv)
                for tag, req in make_requests(qs, kb, csv):
                    for fmt in formats:
                        if 'd' in want_params and want_params['d'] == []:
                            continue
                        want = outcome(ref_date, want_params, 'd', fmt)
                        for required in (False, True):
                            for default in (None, probe, 0, ''):
                                for use_store in (False, True):
                                    count('dates')
                                    store = {'keep': 1} if use_store else None
                                    kw = {'format_string': fmt, 'required': required,
                                          'default': default}
                                    if use_store:
                                        kw['store'] = store
                                    got = outcome(req.get_param_as_date, 'd', **kw)
                                    if want[0] == 'missing':
                                        exp = ('missing',) if required else ('ok', default)
                                    else:
                                        exp = want
                                    ok = got[0] == exp[0]
                                    if ok and got[0] == 'ok':
                                        if want[0] == 'missing':
                                            ok = got[1] is default
                                        else:
                                            ok = (
                                                type(got[1]) is datetime.date
                                                and got[1] == exp[1]
                                            )
                                    if not ok:
                                        fail('dates', tag, qs, (kb, csv), kw, got, exp)
                                    if use_store:
                                        exp_store = {'keep': 1}
                                        if want[0] == 'ok':
                                            exp_store['d'] = want[1]
                                        if store != exp_store:
                                            fail('dates store', tag, qs, kw, store)
                        # positional form: (name, format_string, required, store, default)
                        count('dates')
                        st = {}
                        got = outcome(req.get_param_as_date, 'd', fmt, False, st, probe)
                        exp = ('ok', probe) if want[0] == 'missing' else want
                        if got != exp or (want[0] == 'ok') != ('d' in st):
                            fail('dates positional', tag, qs, fmt, got, exp, st)


def main():
    check_decode()
    check_parse()
    check_requests()
    check_to_query_str()
    check_dates()
    if FAILURES:
        report()
    print(
        'cases: '
        + ', '.join('%s=%d' % (k, v) for k, v in sorted(COUNTS.items()))
        + ' (focus: %s)' % FOCUS
    )
    print('PASS')


if __name__ == '__main__':
    main()
