"""Check for change 1 (netloc: the two identical per-scheme branches merged).

Exercises Request.netloc and everything composed from it (uri, url, prefix,
forwarded_host, forwarded_uri, forwarded_prefix, host, port) on WSGI and on
ASGI, with and without a Host header, for every scheme, a spread of server
names and ports (default ports of *both* schemes included, since that is where
the two merged branches differ), in several header-name casings, and checks
each value against a small independent reference model.  Every accessor is
read three times and must answer the same thing each time.

Run as:  PYTHONPATH=<tree> /venv/bin/python check.py
"""

import io
import itertools
import random
import sys

import falcon
import falcon.asgi
from falcon import testing

FAILURES = []
CASES = 0


def fail(msg):
    FAILURES.append(msg)
    if len(FAILURES) < 20:
        print('FAIL:', msg)


def expect(label, got, want):
    global CASES
    CASES += 1
    if got != want or type(got) is not type(want):
        fail('%s: got %r, want %r' % (label, got, want))


def read3(label, obj, attr):
    """Read an attribute three times; all reads must agree."""
    values = [getattr(obj, attr) for _ in range(3)]
    if not (values[0] == values[1] == values[2]):
        fail('%s.%s not stable: %r' % (label, attr, values))
    return values[0]


# ---------------------------------------------------------------------------
# Reference model (RFC 3986 / PEP 3333 / ASGI URL reconstruction)
# ---------------------------------------------------------------------------


def ref_netloc(host_header, server_name, server_port, secure):
    """host_header wins; otherwise name[:port], port dropped when default."""
    if host_header is not None:
        return host_header
    default = 443 if secure else 80
    if int(server_port) == default:
        return server_name
    return '%s:%s' % (server_name, server_port)


def ref_split_host(value, default_port):
    """Independent authority splitter for reg-name / IPv4 / IP-literal."""
    if value.startswith('['):
        close = value.rfind(']')
        rest = value[close + 1 :]
        if rest.startswith(':'):
            return value[1:close], int(rest[1:])
        return value[1:close], default_port
    if value.count(':') == 1:
        idx = value.index(':')
        return value[:idx], int(value[idx + 1 :])
    return value, default_port


SERVER_NAMES = [
    'falconframework.org',
    'localhost',
    'EXAMPLE.com',
    'a.b.c.example.org',
    '127.0.0.1',
    '10.0.0.1',
    'x',
]
PORTS = [80, 443, 8080, 8000, 1, 0, 65535, 4430, 800, 8443, 81, 444]
HOST_HEADERS = [
    None,
    'example.com',
    'example.com:80',
    'example.com:443',
    'example.com:8080',
    'sub.Example.COM:8443',
    '127.0.0.1:5000',
    '[::1]',
    '[::1]:80',
    '[2001:db8::1]:8443',
    'localhost',
]
ROOTS = ['', '/app', '/a/b']
PATHS_QS = [('/', ''), ('/hello', 'x=1&y=2'), ('/a/b/c', 'q'), ('/~u', '')]
HOST_NAME_CASINGS = ['Host', 'host', 'HOST', 'hOsT']


# ---------------------------------------------------------------------------
# WSGI
# ---------------------------------------------------------------------------


def make_env(scheme, server_name, port, host_header, root, path, qs, casing):
    env = {
        'SERVER_PROTOCOL': 'HTTP/1.1',
        'SERVER_SOFTWARE': 'check/1',
        'SCRIPT_NAME': root,
        'REQUEST_METHOD': 'GET',
        'PATH_INFO': path,
        'QUERY_STRING': qs,
        'REMOTE_PORT': '65133',
        'SERVER_NAME': server_name,
        'SERVER_PORT': str(port),
        'wsgi.version': (1, 0),
        'wsgi.url_scheme': scheme,
        'wsgi.input': io.BytesIO(b''),
        'wsgi.errors': sys.stderr,
        'wsgi.multithread': False,
        'wsgi.multiprocess': True,
        'wsgi.run_once': False,
    }
    if host_header is not None:
        # A WSGI server folds any casing of the name into HTTP_HOST.
        env['HTTP_' + casing.upper().replace('-', '_')] = host_header
    return env


def check_wsgi(scheme, server_name, port, host_header, root, path, qs, casing):
    label = 'wsgi(%r,%r,%r,%r,%r,%r,%r)' % (
        scheme,
        server_name,
        port,
        host_header,
        root,
        path,
        qs,
    )
    env = make_env(scheme, server_name, port, host_header, root, path, qs, casing)
    req = falcon.Request(env)

    secure = scheme == 'https'
    netloc = ref_netloc(host_header, server_name, port, secure)
    rel = root + path + ('?' + qs if qs else '')

    try:
        expect(label + '.netloc', read3(label, req, 'netloc'), netloc)
        expect(label + '.uri', read3(label, req, 'uri'), scheme + '://' + netloc + rel)
        expect(label + '.url', read3(label, req, 'url'), scheme + '://' + netloc + rel)
        expect(
            label + '.prefix',
            read3(label, req, 'prefix'),
            scheme + '://' + netloc + root,
        )
        expect(label + '.relative_uri', read3(label, req, 'relative_uri'), rel)
        expect(label + '.forwarded_host', read3(label, req, 'forwarded_host'), netloc)
        expect(
            label + '.forwarded_uri',
            read3(label, req, 'forwarded_uri'),
            scheme + '://' + netloc + rel,
        )
        expect(
            label + '.forwarded_prefix',
            read3(label, req, 'forwarded_prefix'),
            scheme + '://' + netloc + root,
        )
        # netloc again after the memoised composites were built
        expect(label + '.netloc#2', req.netloc, netloc)

        if host_header is not None:
            host, hport = ref_split_host(host_header, 80 if scheme == 'http' else 443)
        else:
            host, hport = server_name, int(port)
        expect(label + '.host', read3(label, req, 'host'), host)
        expect(label + '.port', read3(label, req, 'port'), hport)
        expect(label + '.get_header', req.get_header(casing), host_header)
    except falcon.HTTPError as ex:
        if not ex.status.startswith('4'):
            fail('%s raised non-4xx %r' % (label, ex))
    except Exception as ex:  # noqa: BLE001
        fail('%s raised %r' % (label, ex))


# ---------------------------------------------------------------------------
# ASGI
# ---------------------------------------------------------------------------


async def _receive():
    return {'type': 'http.disconnect'}


def make_scope(scheme, server, host_header, root, path, qs, casing, extra=()):
    scope = {
        'type': 'websocket' if scheme in ('ws', 'wss') else 'http',
        'asgi': {'version': '3.0', 'spec_version': '2.1'},
        'http_version': '1.1',
        'method': 'GET',
        'path': path,
        'raw_path': path.encode(),
        'query_string': qs.encode(),
        'root_path': root,
    }
    if scheme is not None:
        scope['scheme'] = scheme
    if server != 'absent':
        scope['server'] = server
    headers = list(extra)
    if host_header is not None:
        # ASGI servers always lowercase names; the casing is then exercised
        # through get_header() below.
        headers.append((b'host', host_header.encode('latin1')))
    scope['headers'] = headers
    return scope


def check_asgi(scheme, server, host_header, root, path, qs, casing):
    label = 'asgi(%r,%r,%r,%r,%r,%r)' % (scheme, server, host_header, root, path, qs)
    scope = make_scope(scheme, server, host_header, root, path, qs, casing)
    # keep our own copy of a one-shot iterable
    if server not in ('absent', None):
        server_t = tuple(server)
        scope['server'] = iter(server_t)
    else:
        server_t = None
    req = falcon.asgi.Request(scope, _receive)

    eff_scheme = scheme
    if eff_scheme is None:
        eff_scheme = 'ws' if scope['type'] == 'websocket' else 'http'
    secure = eff_scheme in ('https', 'wss')
    if server_t is None:
        server_t = ('localhost', 443 if secure else 80)

    netloc = ref_netloc(host_header, server_t[0], server_t[1], secure)
    rel = root + path + ('?' + qs if qs else '')

    try:
        expect(label + '.netloc', read3(label, req, 'netloc'), netloc)
        expect(
            label + '.uri', read3(label, req, 'uri'), eff_scheme + '://' + netloc + rel
        )
        expect(
            label + '.prefix',
            read3(label, req, 'prefix'),
            eff_scheme + '://' + netloc + root,
        )
        expect(label + '.relative_uri', read3(label, req, 'relative_uri'), rel)
        expect(label + '.forwarded_host', read3(label, req, 'forwarded_host'), netloc)
        expect(
            label + '.forwarded_uri',
            read3(label, req, 'forwarded_uri'),
            eff_scheme + '://' + netloc + rel,
        )
        expect(
            label + '.forwarded_prefix',
            read3(label, req, 'forwarded_prefix'),
            eff_scheme + '://' + netloc + root,
        )
        expect(label + '.netloc#2', req.netloc, netloc)

        if host_header is not None:
            host, hport = ref_split_host(host_header, 443 if secure else 80)
        else:
            host, hport = server_t
        expect(label + '.host', read3(label, req, 'host'), host)
        expect(label + '.port', read3(label, req, 'port'), hport)
        expect(label + '.get_header', req.get_header(casing), host_header)
    except falcon.HTTPError as ex:
        if not ex.status.startswith('4'):
            fail('%s raised non-4xx %r' % (label, ex))
    except Exception as ex:  # noqa: BLE001
        fail('%s raised %r' % (label, ex))


# ---------------------------------------------------------------------------
# Hard-coded expectations taken from the unmodified tree
# ---------------------------------------------------------------------------

HARD_WSGI = [
    # scheme, server_name, port, netloc
    ('http', 'h', 80, 'h'),
    ('http', 'h', 443, 'h:443'),
    ('https', 'h', 443, 'h'),
    ('https', 'h', 80, 'h:80'),
    ('http', 'h', 8080, 'h:8080'),
    ('https', 'h', 8080, 'h:8080'),
    ('HTTPS', 'h', 443, 'h:443'),  # scheme compare is case-sensitive
    ('HTTPS', 'h', 80, 'h'),
    ('ftp', 'h', 80, 'h'),
    ('ftp', 'h', 443, 'h:443'),
]

HARD_ASGI = [
    # scheme, server, netloc
    ('http', ('h', 80), 'h'),
    ('http', ('h', 443), 'h:443'),
    ('https', ('h', 443), 'h'),
    ('https', ('h', 80), 'h:80'),
    ('ws', ('h', 80), 'h'),
    ('ws', ('h', 443), 'h:443'),
    ('wss', ('h', 443), 'h'),
    ('wss', ('h', 80), 'h:80'),
    (None, ('h', 80), 'h'),
    (None, ('h', 443), 'h:443'),
    ('https', None, 'localhost'),
    ('http', None, 'localhost'),
    ('wss', 'absent', 'localhost'),
    ('ws', 'absent', 'localhost'),
    ('http', ['h', 8000], 'h:8000'),
    ('https', ['h', 8000], 'h:8000'),
    ('http', ('h', None), 'h:None'),
    ('http', ('h', '80'), 'h:80'),  # a str port is never equal to the int default
]


def main():
    rnd = random.Random(9)

    # full grid on the no-Host-header side (the changed branch) ...
    for scheme, name, port in itertools.product(('http', 'https'), SERVER_NAMES, PORTS):
        root = rnd.choice(ROOTS)
        path, qs = rnd.choice(PATHS_QS)
        check_wsgi(scheme, name, port, None, root, path, qs, 'Host')

    # ... and a broad sample with a Host header in every casing
    for scheme, hh, casing in itertools.product(
        ('http', 'https'), HOST_HEADERS, HOST_NAME_CASINGS
    ):
        name = rnd.choice(SERVER_NAMES)
        port = rnd.choice(PORTS)
        root = rnd.choice(ROOTS)
        path, qs = rnd.choice(PATHS_QS)
        check_wsgi(scheme, name, port, hh, root, path, qs, casing)

    for scheme, name, port in itertools.product(
        ('http', 'https', 'ws', 'wss', None), SERVER_NAMES, PORTS
    ):
        root = rnd.choice(ROOTS)
        path, qs = rnd.choice(PATHS_QS)
        check_asgi(scheme, (name, port), None, root, path, qs, 'Host')

    for scheme, server in itertools.product(
        ('http', 'https', 'ws', 'wss', None), ('absent', None)
    ):
        for root in ROOTS:
            path, qs = rnd.choice(PATHS_QS)
            check_asgi(scheme, server, None, root, path, qs, 'Host')

    for scheme, hh, casing in itertools.product(
        ('http', 'https', 'ws', 'wss', None), HOST_HEADERS, HOST_NAME_CASINGS
    ):
        name = rnd.choice(SERVER_NAMES)
        port = rnd.choice(PORTS)
        root = rnd.choice(ROOTS)
        path, qs = rnd.choice(PATHS_QS)
        check_asgi(scheme, (name, port), hh, root, path, qs, casing)

    # hard-coded expectations
    for scheme, name, port, want in HARD_WSGI:
        env = make_env(scheme, name, port, None, '', '/', '', 'Host')
        req = falcon.Request(env)
        expect('hard wsgi %r' % ((scheme, name, port),), req.netloc, want)
        expect('hard wsgi uri %r' % ((scheme, name, port),), req.uri, scheme + '://' + want + '/')

    for scheme, server, want in HARD_ASGI:
        scope = make_scope(scheme, server, None, '', '/', '', 'Host')
        req = falcon.asgi.Request(scope, _receive)
        expect('hard asgi %r' % ((scheme, server),), req.netloc, want)
        expect('hard asgi again %r' % ((scheme, server),), req.netloc, want)

    # the stock helpers go through the same code
    for scheme, port in itertools.product(('http', 'https'), (None, 80, 443, 8080)):
        req = testing.create_req(scheme=scheme, port=port, http_version='1.0', host='srv')
        default = 80 if scheme == 'http' else 443
        eff = default if port is None else port
        want = 'srv' if eff == default else 'srv:%d' % eff
        expect('create_req %r' % ((scheme, port),), req.netloc, want)
        areq = testing.create_asgi_req(
            scheme=scheme, port=port, http_version='1.0', host='srv'
        )
        expect('create_asgi_req %r' % ((scheme, port),), areq.netloc, want)

    if FAILURES:
        print('%d failure(s) out of %d checks' % (len(FAILURES), CASES))
        sys.exit(1)

    print('checks:', CASES)
    print('PASS')


if __name__ == '__main__':
    main()
