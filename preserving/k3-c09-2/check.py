"""Check for change 2 (forwarded.py: pair assignment moved to _set_forwarded_param).

* Generates RFC 7239 Forwarded header values from the ABNF (token and
  quoted-string values, quoted IPv6 with and without port, "unknown",
  obfuscated nodes and ports, extension parameters, any parameter-name casing,
  optional whitespace, one to five elements) and compares
  req.forwarded / forwarded_scheme / forwarded_host / forwarded_uri /
  forwarded_prefix / access_route on WSGI and on ASGI against an independent
  quote-aware splitter written here.
* Mutates the valid values (deleted/inserted/replaced characters, truncation)
  and checks that parsing is total (no exception), deterministic, identical on
  WSGI and ASGI, and memoised (same object on every access).
* Replays a table of malformed values with the readings of the unmodified tree.

Run as:  PYTHONPATH=<tree> /venv/bin/python check.py
"""

import io
import random
import string
import sys

import falcon
import falcon.asgi
from falcon.forwarded import _parse_forwarded_header
from falcon.forwarded import Forwarded

FAILURES = []
CHECKS = 0


def fail(msg):
    FAILURES.append(msg)
    if len(FAILURES) < 20:
        print('FAIL:', msg)


def expect(label, got, want):
    global CHECKS
    CHECKS += 1
    if got != want:
        fail('%s: got %r, want %r' % (label, got, want))


# ---------------------------------------------------------------------------
# Independent RFC 7239 reader (quote aware split, no regex)
# ---------------------------------------------------------------------------


def split_outside_quotes(text, sep):
    parts, cur, in_q, esc = [], [], False, False
    for ch in text:
        if in_q:
            cur.append(ch)
            if esc:
                esc = False
            elif ch == '\\':
                esc = True
            elif ch == '"':
                in_q = False
        elif ch == '"':
            in_q = True
            cur.append(ch)
        elif ch == sep:
            parts.append(''.join(cur))
            cur = []
        else:
            cur.append(ch)
    parts.append(''.join(cur))
    return parts


def rfc_unquote(value):
    if len(value) >= 2 and value[0] == '"' and value[-1] == '"':
        out, esc = [], False
        for ch in value[1:-1]:
            if esc:
                out.append(ch)
                esc = False
            elif ch == '\\':
                esc = True
            else:
                out.append(ch)
        return ''.join(out)
    return value


def ref_parse(header):
    """Return a list of dicts {for, by, host, proto} (missing -> None)."""
    result = []
    for element in split_outside_quotes(header, ','):
        element = element.strip(' \t')
        if not element:
            continue
        fields = {'for': None, 'by': None, 'host': None, 'proto': None}
        for pair in split_outside_quotes(element, ';'):
            pair = pair.strip(' \t')
            if not pair:
                continue
            name, _, value = pair.partition('=')
            name = name.lower()
            value = rfc_unquote(value)
            if name == 'proto':
                value = value.lower()
            if name in fields:
                fields[name] = value
        result.append(fields)
    return result


def ref_node_host(node):
    """nodename [":" node-port] -> nodename (brackets removed)."""
    if node.startswith('['):
        return node[1 : node.index(']')]
    if node.count(':') == 1:
        return node.split(':')[0]
    return node


def node_port_is_numeric(node):
    """False for an obfuscated (non numeric) node-port."""
    if node.startswith('['):
        rest = node[node.index(']') + 1 :]
        return (not rest) or rest[1:].isdigit()
    if node.count(':') == 1:
        return node.split(':')[1].isdigit()
    return True


# ---------------------------------------------------------------------------
# Generators
# ---------------------------------------------------------------------------

TCHAR = string.digits + string.ascii_letters + "!#$%&'*+.^_`|~-"
QDTEXT = '\t !' + ''.join(chr(c) for c in range(0x23, 0x7F) if c != 0x5C)
IPV6 = ['::1', '2001:db8:cafe::17', 'fe80::1', '2001:DB8::8:800:200C:417A', '::']
IPV4 = ['192.0.2.43', '198.51.100.17', '10.0.0.1', '127.0.0.1', '203.0.113.60']
OBF = ['_hidden', '_SEVKISEK', '_a.b-c_d', '_1']
HOSTS = ['example.com', 'Example.COM:8080', 'a.b.example.org', '[::1]:8443', 'localhost']
PROTOS = ['http', 'https', 'HTTP', 'HttpS', 'ws', 'WSS', 'gopher']
EXT_NAMES = ['secret', 'ext', 'x-Thing', 'FOR2', 'b', 'protox', 'hostname']


def gen_node(rnd):
    kind = rnd.randrange(6)
    if kind == 0:
        name = rnd.choice(IPV4)
    elif kind == 1:
        name = '[' + rnd.choice(IPV6) + ']'
    elif kind == 2:
        name = 'unknown'
    elif kind == 3:
        name = rnd.choice(OBF)
    elif kind == 4:
        name = rnd.choice(IPV4)
    else:
        name = '[' + rnd.choice(IPV6) + ']'
    port = rnd.randrange(5)
    if port == 0:
        return name + ':' + str(rnd.randrange(0, 65536))
    if port == 1 and rnd.random() < 0.4:
        return name + ':' + rnd.choice(OBF)
    return name


def is_token(value):
    return bool(value) and all(c in TCHAR for c in value)


def quote(rnd, value, extra_escapes):
    out = []
    for ch in value:
        if ch in '"\\' or (extra_escapes and rnd.random() < 0.15):
            out.append('\\' + ch)
        else:
            out.append(ch)
    return '"' + ''.join(out) + '"'


def render_value(rnd, value):
    if is_token(value) and rnd.random() < 0.6:
        return value
    return quote(rnd, value, rnd.random() < 0.3)


def random_case(rnd, name):
    return ''.join(rnd.choice((c.lower(), c.upper())) for c in name)


def gen_element(rnd):
    """Return (text, expected dict)."""
    fields = {'for': None, 'by': None, 'host': None, 'proto': None}
    names = [n for n in ('for', 'by', 'host', 'proto') if rnd.random() < 0.6]
    if rnd.random() < 0.3:
        names.append(rnd.choice(EXT_NAMES))
    if not names:
        names = ['for']
    rnd.shuffle(names)
    pairs = []
    for name in names:
        if name in ('for', 'by'):
            value = gen_node(rnd)
        elif name == 'host':
            value = rnd.choice(HOSTS)
        elif name == 'proto':
            value = rnd.choice(PROTOS)
        else:
            n = rnd.randrange(0, 6)
            value = ''.join(rnd.choice(QDTEXT + '"\\') for _ in range(n))
        if name in fields:
            fields[name] = value.lower() if name == 'proto' else value
        pairs.append(random_case(rnd, name) + '=' + render_value(rnd, value))
    return ';'.join(pairs), fields


def gen_header(rnd):
    n = rnd.choice((1, 1, 1, 2, 2, 3, 4, 5))
    texts, expected = [], []
    for _ in range(n):
        text, fields = gen_element(rnd)
        texts.append(text)
        expected.append(fields)
    seps = [rnd.choice((',', ', ', ' ,', ' , ', ',\t', ',  ')) for _ in range(n - 1)]
    header = texts[0]
    for sep, text in zip(seps, texts[1:]):
        header += sep + text
    return header, texts, expected


def mutate(rnd, text):
    if not text:
        return ','
    alphabet = ',;="\\ \t[]:_' + string.ascii_letters[:6] + '\x7f\xe9(){}'
    for _ in range(rnd.randrange(1, 4)):
        op = rnd.randrange(5)
        pos = rnd.randrange(len(text)) if text else 0
        if op == 0 and text:
            text = text[:pos] + text[pos + 1 :]
        elif op == 1:
            text = text[:pos] + rnd.choice(alphabet) + text[pos:]
        elif op == 2 and text:
            text = text[:pos] + rnd.choice(alphabet) + text[pos + 1 :]
        elif op == 3:
            text = text[:pos]
        else:
            text = text + rnd.choice(alphabet)
    return text


# ---------------------------------------------------------------------------
# Requests
# ---------------------------------------------------------------------------


def make_env(headers, remote_addr, scheme='http'):
    env = {
        'SERVER_PROTOCOL': 'HTTP/1.1',
        'SCRIPT_NAME': '/app',
        'REQUEST_METHOD': 'GET',
        'PATH_INFO': '/p',
        'QUERY_STRING': 'q=1',
        'SERVER_NAME': 'srv.test',
        'SERVER_PORT': '8000',
        'HTTP_HOST': 'srv.test:8000',
        'wsgi.version': (1, 0),
        'wsgi.url_scheme': scheme,
        'wsgi.input': io.BytesIO(b''),
        'wsgi.errors': sys.stderr,
    }
    if remote_addr is not None:
        env['REMOTE_ADDR'] = remote_addr
    for name, value in headers.items():
        env['HTTP_' + name.upper().replace('-', '_')] = value
    return env


async def _receive():
    return {'type': 'http.disconnect'}


def make_scope(header_list, remote_addr, scheme='http'):
    scope = {
        'type': 'http',
        'asgi': {'version': '3.0', 'spec_version': '2.1'},
        'http_version': '1.1',
        'method': 'GET',
        'path': '/p',
        'raw_path': b'/p',
        'query_string': b'q=1',
        'root_path': '/app',
        'scheme': scheme,
        'server': ('srv.test', 8000),
        'headers': [(b'host', b'srv.test:8000')]
        + [(n.lower().encode('latin1'), v.encode('latin1')) for n, v in header_list],
    }
    if remote_addr is not None:
        scope['client'] = iter([remote_addr, 50000])
    return scope


def hops(req):
    fwd = req.forwarded
    if fwd is None:
        return None
    out = []
    for hop in fwd:
        if type(hop) is not Forwarded:
            fail('not a Forwarded instance: %r' % (hop,))
        out.append({'for': hop.src, 'by': hop.dest, 'host': hop.host, 'proto': hop.scheme})
    return out


def snapshot(req, with_route=True):
    """Read every Forwarded-derived accessor twice; must be stable."""
    out = {}
    for attr in (
        'forwarded_scheme',
        'forwarded_host',
        'forwarded_uri',
        'forwarded_prefix',
    ) + (('access_route',) if with_route else ()):
        first = getattr(req, attr)
        second = getattr(req, attr)
        if first != second:
            fail('%s unstable: %r then %r' % (attr, first, second))
        out[attr] = list(first) if isinstance(first, list) else first
    first = req.forwarded
    if first is not req.forwarded:
        fail('forwarded is not memoised')
    out['forwarded'] = hops(req)
    return out


CASINGS = ['Forwarded', 'forwarded', 'FORWARDED', 'fOrWaRdEd']


def check_valid(rnd, idx):
    header, texts, expected = gen_header(rnd)
    label = 'valid[%d] %r' % (idx, header)

    # the independent reader agrees with the generator's own structure
    expect(label + ' ref-vs-gen', ref_parse(header), expected)

    remote = rnd.choice((None, '203.0.113.9', '127.0.0.1', ref_or_none(expected)))
    scheme = rnd.choice(('http', 'https'))

    first = expected[0]
    want_scheme = first['proto'] or scheme
    want_host = first['host'] or 'srv.test:8000'
    nodes = [e['for'] for e in expected if e['for'] is not None]
    numeric = all(node_port_is_numeric(n) for n in nodes)
    want_route = [ref_node_host(n) for n in nodes]

    wsgi_remote = remote if remote is not None else '127.0.0.1'
    want_route_wsgi = list(want_route)
    if not want_route_wsgi or want_route_wsgi[-1] != wsgi_remote:
        want_route_wsgi.append(wsgi_remote)

    casing = rnd.choice(CASINGS)

    wreq = falcon.Request(make_env({casing: header}, remote, scheme))
    # ASGI: sometimes deliver the elements as several header lines
    if len(texts) > 1 and rnd.random() < 0.3:
        cut = rnd.randrange(1, len(texts))
        lines = [','.join(texts[:cut]), ','.join(texts[cut:])]
    else:
        lines = [header]
    areq = falcon.asgi.Request(
        make_scope([('forwarded', line) for line in lines], remote, scheme), _receive
    )

    for kind, req in (('wsgi', wreq), ('asgi', areq)):
        try:
            snap = snapshot(req, with_route=numeric)
        except Exception as ex:  # noqa: BLE001
            fail('%s %s raised %r' % (label, kind, ex))
            continue
        expect(label + ' %s forwarded' % kind, snap['forwarded'], expected)
        expect(label + ' %s scheme' % kind, snap['forwarded_scheme'], want_scheme)
        expect(label + ' %s host' % kind, snap['forwarded_host'], want_host)
        expect(
            label + ' %s uri' % kind,
            snap['forwarded_uri'],
            want_scheme + '://' + want_host + '/app/p?q=1',
        )
        expect(
            label + ' %s prefix' % kind,
            snap['forwarded_prefix'],
            want_scheme + '://' + want_host + '/app',
        )
        if numeric:
            expect(label + ' %s route' % kind, snap['access_route'], want_route_wsgi)
        else:
            # NOTE: an obfuscated node-port is not numeric; what access_route
            # does with it is outside this change (the Forwarded list itself
            # is compared above).
            pass
        if len(lines) == 1:
            expect(label + ' %s get_header' % kind, req.get_header(casing), header)


def ref_or_none(expected):
    for e in reversed(expected):
        if e['for'] is not None:
            return ref_node_host(e['for'])
    return None


def check_mutated(rnd, idx):
    header, _, _ = gen_header(rnd)
    bad = mutate(rnd, header)
    label = 'mutated[%d] %r' % (idx, bad)
    try:
        bad.encode('latin1')
    except UnicodeEncodeError:
        return

    try:
        direct1 = [(h.src, h.dest, h.host, h.scheme) for h in _parse_forwarded_header(bad)]
        direct2 = [(h.src, h.dest, h.host, h.scheme) for h in _parse_forwarded_header(bad)]
    except Exception as ex:  # noqa: BLE001
        fail('%s: parser raised %r' % (label, ex))
        return
    expect(label + ' deterministic', direct1, direct2)
    for tup in direct1:
        for item in tup:
            if item is not None and not isinstance(item, str):
                fail('%s: non-str field %r' % (label, item))
        if tup[3] is not None and tup[3] != tup[3].lower():
            fail('%s: scheme not lowercased %r' % (label, tup[3]))

    wreq = falcon.Request(make_env({'Forwarded': bad}, '203.0.113.9'))
    areq = falcon.asgi.Request(make_scope([('forwarded', bad)], '203.0.113.9'), _receive)
    snaps = []
    for kind, req in (('wsgi', wreq), ('asgi', areq)):
        try:
            snaps.append(snapshot(req, with_route=False))
        except falcon.HTTPError as ex:
            if not ex.status.startswith('4'):
                fail('%s %s raised %r' % (label, kind, ex))
            snaps.append(('4xx', ex.status))
        except Exception as ex:  # noqa: BLE001
            fail('%s %s raised %r' % (label, kind, ex))
            snaps.append(None)
    expect(label + ' wsgi==asgi', snaps[0], snaps[1])
    if isinstance(snaps[0], dict):
        expect(
            label + ' list==direct',
            [(h['for'], h['by'], h['host'], h['proto']) for h in snaps[0]['forwarded']],
            direct1,
        )
        first = direct1[0] if direct1 else (None, None, None, None)
        expect(label + ' scheme', snaps[0]['forwarded_scheme'], first[3] or 'http')
        expect(label + ' host', snaps[0]['forwarded_host'], first[2] or 'srv.test:8000')


# (src, dest, host, scheme) readings of the unmodified tree
HARD = [
    ('', []),
    (',', []),
    (' , ,', []),
    ('for=1.2.3.4', [('1.2.3.4', None, None, None)]),
    ('FOR=1.2.3.4;BY=5.6.7.8', [('1.2.3.4', '5.6.7.8', None, None)]),
    ('for=a;for=b', [('b', None, None, None)]),
    ('for=a, for=b', [('a', None, None, None), ('b', None, None, None)]),
    ('for=a for=b, for=c', [('a', None, None, None), ('c', None, None, None)]),
    ('for=a;;by=b', [('a', 'b', None, None)]),
    ('for=a; by=b ;host=h ; proto=HTTPS', [('a', 'b', 'h', 'https')]),
    ('proto=HTTPS', [(None, None, None, 'https')]),
    ('Proto="HtTp"', [(None, None, None, 'http')]),
    ('secret=x', [(None, None, None, None)]),
    ('secret=x, for=y', [(None, None, None, None), ('y', None, None, None)]),
    ('for="[2001:db8::1]:4711"', [('[2001:db8::1]:4711', None, None, None)]),
    ('for=[2001:db8::1]', []),
    ('for="a\\"b"', [('a"b', None, None, None)]),
    ('for="a\\\\b"', [('a\\b', None, None, None)]),
    ('for=""', [('', None, None, None)]),
    ('for="unterminated', []),
    ('for="unterminated, for=ok', [('ok', None, None, None)]),
    ('for=a, garbage, for=b', [('a', None, None, None), ('b', None, None, None)]),
    ('garbage', []),
    ('=x', []),
    ('for=', []),
    ('for=;by=b', []),
    ('for=x;=;by=b', [('x', None, None, None)]),
    ('for=a;by', [('a', None, None, None)]),
    ('for=a@b', [('a', None, None, None)]),
    ('for=a@b, by=c', [('a', None, None, None), (None, 'c', None, None)]),
    ('host=example.com:80;proto=http', [(None, None, 'example.com', None)]),
    ('host="example.com:80";proto=http', [(None, None, 'example.com:80', 'http')]),
    ('by=_x;BY=_y;bY=_z', [(None, '_z', None, None)]),
    ('for=_hidden, for=_SEVKISEK', [('_hidden', None, None, None), ('_SEVKISEK', None, None, None)]),
    ('for=unknown;proto=ws', [('unknown', None, None, 'ws')]),
    ('\tfor=a\t,\tfor=b\t', [('a', None, None, None), ('b', None, None, None)]),
    ('for=a,', [('a', None, None, None)]),
    (',for=a', [('a', None, None, None)]),
    ('for=a;', [('a', None, None, None)]),
    (';for=a', [('a', None, None, None)]),
    ('for=\xe9', []),
    ('for="\xe9"', []),
]


def main():
    rnd = random.Random(20260109)

    for i in range(700):
        check_valid(rnd, i)
    for i in range(700):
        check_mutated(rnd, i)

    for header, want in HARD:
        got = [(h.src, h.dest, h.host, h.scheme) for h in _parse_forwarded_header(header)]
        expect('hard %r' % header, got, want)
        wreq = falcon.Request(make_env({'forwarded': header}, None))
        areq = falcon.asgi.Request(make_scope([('forwarded', header)], None), _receive)
        for req in (wreq, areq):
            got = [(h.src, h.dest, h.host, h.scheme) for h in req.forwarded]
            expect('hard req %r' % header, got, want)

    # header absent -> None, and no Forwarded-derived value changes
    wreq = falcon.Request(make_env({}, None))
    areq = falcon.asgi.Request(make_scope([], None), _receive)
    for req in (wreq, areq):
        expect('absent', req.forwarded, None)
        expect('absent again', req.forwarded, None)
        expect('absent scheme', req.forwarded_scheme, 'http')
        expect('absent host', req.forwarded_host, 'srv.test:8000')

    if FAILURES:
        print('%d failure(s) out of %d checks' % (len(FAILURES), CHECKS))
        sys.exit(1)
    print('checks:', CHECKS)
    print('PASS')


if __name__ == '__main__':
    main()
