"""Check for change 3 (misc.py: the IMF-fixdate format literal became one constant).

* Renders several hundred random instants as IMF-fixdate, rfc850-date and
  asctime-date with an independent formatter (own day/month tables) and checks
  req.date / if_modified_since / if_unmodified_since /
  get_header_as_datetime(..., obs_date=...) on WSGI and ASGI, for several
  header-name casings, against an independent strict reader.
* Writes dates through the response API (last_modified / expires on the WSGI
  and the ASGI Response, and falcon.dt_to_http / falcon.http_now) and reads
  them back through the request API: same instant, and byte-identical text to
  the independent formatter.
* Mutates valid values: the accessor must return None / an aware UTC datetime
  (equal to the strict reading whenever the strict reader accepts the text)
  or raise a 400 HTTPInvalidHeader -- nothing else -- and must answer the same
  on a second access.
* Replays a table of literal values with the readings of the unmodified tree.

Run as:  PYTHONPATH=<tree> /venv/bin/python check.py
"""

import datetime
import io
import random
import string
import sys

import falcon
import falcon.asgi
from falcon.util import misc

UTC = datetime.timezone.utc
DAYS = ['Mon', 'Tue', 'Wed', 'Thu', 'Fri', 'Sat', 'Sun']
LONG_DAYS = ['Monday', 'Tuesday', 'Wednesday', 'Thursday', 'Friday', 'Saturday', 'Sunday']
MONTHS = ['Jan', 'Feb', 'Mar', 'Apr', 'May', 'Jun', 'Jul', 'Aug', 'Sep', 'Oct', 'Nov', 'Dec']

FAILURES = []
CHECKS = 0


def fail(msg):
    FAILURES.append(msg)
    if len(FAILURES) < 20:
        print('FAIL:', msg)


def expect(label, got, want):
    global CHECKS
    CHECKS += 1
    if got != want:
        fail('%s: got %r, want %r' % (label, got, want))


# ---------------------------------------------------------------------------
# Independent formatter / strict reader (RFC 9110, 5.6.7)
# ---------------------------------------------------------------------------


def fmt_imf(dt):
    return '%s, %02d %s %04d %02d:%02d:%02d GMT' % (
        DAYS[dt.weekday()],
        dt.day,
        MONTHS[dt.month - 1],
        dt.year,
        dt.hour,
        dt.minute,
        dt.second,
    )


def fmt_rfc850(dt):
    return '%s, %02d-%s-%02d %02d:%02d:%02d GMT' % (
        LONG_DAYS[dt.weekday()],
        dt.day,
        MONTHS[dt.month - 1],
        dt.year % 100,
        dt.hour,
        dt.minute,
        dt.second,
    )


def fmt_asctime(dt):
    return '%s %s %2d %02d:%02d:%02d %04d' % (
        DAYS[dt.weekday()],
        MONTHS[dt.month - 1],
        dt.day,
        dt.hour,
        dt.minute,
        dt.second,
        dt.year,
    )


def _digits(text, n):
    if len(text) != n or not all(c in string.digits for c in text):
        raise ValueError(text)
    return int(text)


def strict_imf(text):
    """Strict IMF-fixdate reader; raises ValueError when not exactly that."""
    if len(text) != 29:
        raise ValueError(text)
    if text[:3] not in DAYS or text[3:5] != ', ' or text[7] != ' ':
        raise ValueError(text)
    if text[8:11] not in MONTHS or text[11] != ' ' or text[16] != ' ':
        raise ValueError(text)
    if text[19] != ':' or text[22] != ':' or text[25:] != ' GMT':
        raise ValueError(text)
    dt = datetime.datetime(
        _digits(text[12:16], 4),
        MONTHS.index(text[8:11]) + 1,
        _digits(text[5:7], 2),
        _digits(text[17:19], 2),
        _digits(text[20:22], 2),
        _digits(text[23:25], 2),
        tzinfo=UTC,
    )
    if DAYS[dt.weekday()] != text[:3]:
        raise ValueError(text)
    return dt


# ---------------------------------------------------------------------------
# Requests
# ---------------------------------------------------------------------------


def make_env(headers):
    env = {
        'SERVER_PROTOCOL': 'HTTP/1.1',
        'SCRIPT_NAME': '',
        'REQUEST_METHOD': 'GET',
        'PATH_INFO': '/',
        'QUERY_STRING': '',
        'SERVER_NAME': 'srv.test',
        'SERVER_PORT': '80',
        'HTTP_HOST': 'srv.test',
        'wsgi.version': (1, 0),
        'wsgi.url_scheme': 'http',
        'wsgi.input': io.BytesIO(b''),
        'wsgi.errors': sys.stderr,
    }
    for name, value in headers.items():
        env['HTTP_' + name.upper().replace('-', '_')] = value
    return env


async def _receive():
    return {'type': 'http.disconnect'}


def make_scope(headers):
    return {
        'type': 'http',
        'asgi': {'version': '3.0', 'spec_version': '2.1'},
        'http_version': '1.1',
        'method': 'GET',
        'path': '/',
        'raw_path': b'/',
        'query_string': b'',
        'root_path': '',
        'scheme': 'http',
        'server': ('srv.test', 80),
        'headers': [(b'host', b'srv.test')]
        + [(n.lower().encode('latin1'), v.encode('latin1')) for n, v in headers.items()],
    }


def both(headers):
    return (
        ('wsgi', falcon.Request(make_env(headers))),
        ('asgi', falcon.asgi.Request(make_scope(headers), _receive)),
    )


PROPS = [('Date', 'date'), ('If-Modified-Since', 'if_modified_since'), ('If-Unmodified-Since', 'if_unmodified_since')]


def casings(rnd, name):
    return [
        name,
        name.lower(),
        name.upper(),
        ''.join(rnd.choice((c.lower(), c.upper())) for c in name),
    ]


def outcome(func):
    """('ok', value) / ('400', title) ; anything else is recorded as a failure."""
    try:
        value = func()
    except falcon.HTTPInvalidHeader as ex:
        if ex.status != falcon.HTTP_400:
            fail('HTTPInvalidHeader with status %r' % ex.status)
        return ('400', ex.title)
    except falcon.HTTPError as ex:
        if not ex.status.startswith('4'):
            fail('non-4xx HTTP error %r' % ex)
        return ('4xx', ex.status)
    except Exception as ex:  # noqa: BLE001
        fail('unexpected exception %r' % (ex,))
        return ('exc', repr(ex))
    if value is not None:
        if not isinstance(value, datetime.datetime):
            fail('not a datetime: %r' % (value,))
        elif value.tzinfo is not UTC:
            fail('not aware/UTC: %r' % (value,))
    return ('ok', value)


def random_dt(rnd):
    kind = rnd.randrange(10)
    if kind == 0:
        year = rnd.choice((1000, 1001, 1582, 1899, 1900, 1969, 1970, 1999, 2000, 2038, 2100, 9999))
    else:
        year = rnd.randrange(1000, 10000) if rnd.random() < 0.3 else rnd.randrange(1970, 2070)
    month = rnd.randrange(1, 13)
    day = rnd.randrange(1, 29) if rnd.random() < 0.8 else rnd.choice((28, 29, 30, 31))
    try:
        datetime.date(year, month, day)
    except ValueError:
        day = 28
    hms = rnd.choice(((0, 0, 0), (23, 59, 59), (12, 0, 0), None))
    if hms is None:
        hms = (rnd.randrange(24), rnd.randrange(60), rnd.randrange(60))
    return datetime.datetime(year, month, day, *hms, tzinfo=UTC)


def posix_two_digit_year(dt):
    yy = dt.year % 100
    return dt.replace(year=(1900 if yy >= 69 else 2000) + yy)


def check_valid(rnd, idx):
    dt = random_dt(rnd)
    imf = fmt_imf(dt)
    label = 'valid[%d] %s' % (idx, imf)

    expect(label + ' strict', strict_imf(imf), dt)
    # writer side: byte-identical to the independent formatter
    expect(label + ' dt_to_http', falcon.dt_to_http(dt), imf)
    expect(label + ' dt_to_http naive', falcon.dt_to_http(dt.replace(tzinfo=None)), imf)
    expect(label + ' http_date_to_dt', falcon.http_date_to_dt(imf), dt)
    expect(label + ' http_date_to_dt obs', falcon.http_date_to_dt(imf, obs_date=True), dt)

    header_name, prop = PROPS[idx % 3]
    for kind, req in both({header_name: imf}):
        for _ in range(3):
            expect(label + ' %s.%s' % (kind, prop), outcome(lambda: getattr(req, prop)), ('ok', dt))
        for casing in casings(rnd, header_name):
            expect(
                label + ' %s get_header_as_datetime(%s)' % (kind, casing),
                outcome(lambda: req.get_header_as_datetime(casing)),
                ('ok', dt),
            )
            expect(
                label + ' %s get_header_as_datetime(%s, obs)' % (kind, casing),
                outcome(lambda: req.get_header_as_datetime(casing, obs_date=True)),
                ('ok', dt),
            )
            expect(label + ' %s get_header' % kind, req.get_header(casing), imf)
        # other date properties: header missing -> None
        for other_name, other_prop in PROPS:
            if other_name != header_name:
                expect(label + ' %s.%s missing' % (kind, other_prop), getattr(req, other_prop), None)

    # obsolete formats: refused by default (400), accepted with obs_date=True
    obs850 = fmt_rfc850(dt)
    asct = fmt_asctime(dt)
    for kind, req in both({'Date': obs850, 'If-Modified-Since': asct}):
        expect(label + ' %s rfc850 default' % kind, outcome(lambda: req.date)[0], '400')
        expect(label + ' %s asctime default' % kind, outcome(lambda: req.if_modified_since)[0], '400')
        expect(
            label + ' %s rfc850 obs' % kind,
            outcome(lambda: req.get_header_as_datetime('Date', obs_date=True)),
            ('ok', posix_two_digit_year(dt)),
        )
        expect(
            label + ' %s asctime obs' % kind,
            outcome(lambda: req.get_header_as_datetime('if-modified-since', obs_date=True)),
            ('ok', dt),
        )

    # response API -> request API
    for resp in (falcon.Response(), falcon.asgi.Response()):
        resp.last_modified = dt
        resp.expires = dt.replace(tzinfo=None)
        expect(label + ' resp.last_modified', resp.get_header('Last-Modified'), imf)
        expect(label + ' resp.last_modified prop', resp.last_modified, imf)
        expect(label + ' resp.expires', resp.get_header('Expires'), imf)
        written = resp.get_header('last-modified')
        for kind, req in both({'If-Modified-Since': written, 'If-Unmodified-Since': resp.expires}):
            expect(label + ' %s read back' % kind, outcome(lambda: req.if_modified_since), ('ok', dt))
            expect(label + ' %s read back 2' % kind, outcome(lambda: req.if_unmodified_since), ('ok', dt))


def mutate(rnd, text):
    alphabet = ' ,:-GMTUCZ0123456789abJanFebMon\t\x00\xe9+'
    for _ in range(rnd.randrange(1, 3)):
        op = rnd.randrange(6)
        pos = rnd.randrange(len(text)) if text else 0
        if op == 0 and text:
            text = text[:pos] + text[pos + 1 :]
        elif op == 1:
            text = text[:pos] + rnd.choice(alphabet) + text[pos:]
        elif op == 2 and text:
            text = text[:pos] + rnd.choice(alphabet) + text[pos + 1 :]
        elif op == 3:
            text = text[:pos]
        elif op == 4:
            text = text.swapcase() if rnd.random() < 0.5 else text.lower()
        else:
            text = text + rnd.choice(alphabet)
    return text


def check_mutated(rnd, idx):
    dt = random_dt(rnd)
    base = rnd.choice((fmt_imf, fmt_imf, fmt_imf, fmt_rfc850, fmt_asctime))(dt)
    bad = mutate(rnd, base)
    label = 'mutated[%d] %r' % (idx, bad)

    try:
        strict = strict_imf(bad)
    except ValueError:
        strict = None

    results = []
    header_name, prop = PROPS[idx % 3]
    for kind, req in both({header_name: bad}):
        first = outcome(lambda: getattr(req, prop))
        second = outcome(lambda: getattr(req, prop))
        expect(label + ' %s repeat' % kind, second, first)
        third = outcome(lambda: req.get_header_as_datetime(header_name.upper()))
        expect(label + ' %s method' % kind, third, first)
        outcome(lambda: req.get_header_as_datetime(header_name, obs_date=True))
        if strict is not None:
            expect(label + ' %s strict' % kind, first, ('ok', strict))
        if first[0] == '400':
            expect(label + ' %s title' % kind, first[1], 'Invalid header value')
        results.append(first)
    expect(label + ' wsgi==asgi', results[0], results[1])

    # the function itself: a datetime or ValueError, nothing else
    for obs in (False, True):
        try:
            value = falcon.http_date_to_dt(bad, obs_date=obs)
        except ValueError:
            value = None
        except Exception as ex:  # noqa: BLE001
            fail('%s: http_date_to_dt(obs=%r) raised %r' % (label, obs, ex))
            continue
        if not obs:
            expect(label + ' func', ('ok', value) if value is not None else '400', results[0] if results[0][0] == 'ok' else '400')


D = datetime.datetime

# readings of the unmodified tree; None stands for "400 HTTPInvalidHeader"
HARD = [
    ('Tue, 15 Nov 1994 12:45:26 GMT', D(1994, 11, 15, 12, 45, 26, tzinfo=UTC)),
    ('Sun, 06 Nov 1994 08:49:37 GMT', D(1994, 11, 6, 8, 49, 37, tzinfo=UTC)),
    ('Thu, 01 Jan 1970 00:00:00 GMT', D(1970, 1, 1, tzinfo=UTC)),
    ('Fri, 31 Dec 9999 23:59:59 GMT', D(9999, 12, 31, 23, 59, 59, tzinfo=UTC)),
    ('Thu, 29 Feb 2024 10:00:00 GMT', D(2024, 2, 29, 10, tzinfo=UTC)),
    # lenient readings
    ('Mon, 15 Nov 1994 12:45:26 GMT', D(1994, 11, 15, 12, 45, 26, tzinfo=UTC)),
    ('tue, 15 nov 1994 12:45:26 GMT', D(1994, 11, 15, 12, 45, 26, tzinfo=UTC)),
    ('Tue, 5 Nov 1994 12:45:26 GMT', D(1994, 11, 5, 12, 45, 26, tzinfo=UTC)),
    ('Tue,  15 Nov 1994  12:45:26 GMT', D(1994, 11, 15, 12, 45, 26, tzinfo=UTC)),
    ('Tue, 15 Nov 1994 12:45:26 gmt', D(1994, 11, 15, 12, 45, 26, tzinfo=UTC)),
    # refused
    ('Tue, 15 Nov 1994 12:45:26 UTC', None),
    ('Tue, 15 Nov 1994 12:45:26 +0000', None),
    ('Tue, 15 Nov 1994 12:45:26', None),
    ('Tue, 15 Nov 1994 12:45:26 GMT ', None),
    (' Tue, 15 Nov 1994 12:45:26 GMT', None),
    ('Tue, 15 Nov 1994 24:00:00 GMT', None),
    ('Tue, 15 Nov 1994 12:60:00 GMT', None),
    ('Tue, 31 Feb 1994 12:00:00 GMT', None),
    ('Wed, 29 Feb 2023 10:00:00 GMT', None),
    ('Tue, 15 Nov 94 12:45:26 GMT', None),
    ('Tue, 15 Nov 19940 12:45:26 GMT', None),
    ('Tue, 15 Foo 1994 12:45:26 GMT', None),
    ('Sunday, 06-Nov-94 08:49:37 GMT', None),
    ('Sun Nov  6 08:49:37 1994', None),
    ('1994-11-15T12:45:26Z', None),
    ('784903526', None),
    ('Thu, 04 Apr 2013', None),
    ('GMT', None),
    ('\x00', None),
    ('Tue, 15 Nov 1994 12:45:26 GMT, Tue, 15 Nov 1994 12:45:26 GMT', None),
]


def main():
    rnd = random.Random(3009)

    # the constant, when present, is exactly the IMF-fixdate strptime pattern
    fmt = getattr(misc, '_IMF_FIXDATE_FORMAT', '%a, %d %b %Y %H:%M:%S GMT')
    expect('format', fmt, '%a, %d %b %Y %H:%M:%S GMT')

    for i in range(400):
        check_valid(rnd, i)
    for i in range(600):
        check_mutated(rnd, i)

    for text, want in HARD:
        for header_name, prop in PROPS:
            for kind, req in both({header_name: text}):
                got = outcome(lambda: getattr(req, prop))
                again = outcome(lambda: getattr(req, prop))
                expect('hard %r %s.%s repeat' % (text, kind, prop), again, got)
                if want is None:
                    expect('hard %r %s.%s' % (text, kind, prop), got[0], '400')
                else:
                    expect('hard %r %s.%s' % (text, kind, prop), got, ('ok', want))

    # empty value: WSGI and ASGI both answer 400 (a lenient None would be fine
    # too, but this is what the unmodified tree does); missing -> None
    for kind, req in both({'Date': ''}):
        expect('empty %s' % kind, outcome(lambda: req.date)[0], '400')
    for kind, req in both({}):
        expect('missing %s' % kind, outcome(lambda: req.date), ('ok', None))
        got = outcome(lambda: req.get_header_as_datetime('Date', required=True))
        expect('missing required %s' % kind, got[0], '4xx')

    # http_now() is an IMF-fixdate for "now" that reads back
    now_text = falcon.http_now()
    try:
        parsed = strict_imf(now_text)
    except ValueError:
        fail('http_now() is not an IMF-fixdate: %r' % now_text)
    else:
        expect('http_now roundtrip', falcon.http_date_to_dt(now_text), parsed)
        delta = abs((datetime.datetime.now(UTC) - parsed).total_seconds())
        if delta > 5:
            fail('http_now is off by %r seconds' % delta)

    if FAILURES:
        print('%d failure(s) out of %d checks' % (len(FAILURES), CHECKS))
        sys.exit(1)
    print('checks:', CHECKS)
    print('PASS')


if __name__ == '__main__':
    main()
