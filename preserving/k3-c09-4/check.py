"""Check for change 4 (uri.parse_host: slice at the known colon, no re-partition).

* Generates RFC 3986 authority forms (reg-name, IPv4, bracketed IPv6, each with
  and without a port, ports with leading zeros, 0 and 65535) and checks
  falcon.uri.parse_host and, through a Host header, req.host / req.port /
  req.subdomain / req.netloc on WSGI and ASGI against an independent
  RFC reader; likewise Forwarded "for" nodes through req.access_route.
* Mutates those values and compares the outcome (value, or the class and text
  of the exception) with a model of the unmodified function written with
  str.split, so any divergence introduced by the slicing would show.
* Every request accessor is read twice and must answer the same.
* Replays a table of literal inputs with the readings of the unmodified tree.

Run as:  PYTHONPATH=<tree> /venv/bin/python check.py
"""

import io
import random
import string
import sys

import falcon
import falcon.asgi
from falcon import uri
from falcon.util.uri import parse_host

FAILURES = []
CHECKS = 0


def fail(msg):
    FAILURES.append(msg)
    if len(FAILURES) < 20:
        print('FAIL:', msg)


def expect(label, got, want):
    global CHECKS
    CHECKS += 1
    if got != want:
        fail('%s: got %r, want %r' % (label, got, want))
    elif isinstance(want, tuple) and want and want[0] == 'ok':
        # same types, too (str / int / None), element by element
        if repr(got) != repr(want):
            fail('%s: got %r, want %r (type)' % (label, got, want))


# ---------------------------------------------------------------------------
# Models
# ---------------------------------------------------------------------------


def rfc_authority(value, default_port):
    """Independent reader for *valid* host [":" port] (RFC 3986, 3.2.2-3.2.3)."""
    if value.startswith('['):
        close = value.index(']')
        rest = value[close + 1 :]
        port = int(rest[1:]) if rest else default_port
        return value[1:close], port
    name, colon, port = value.rpartition(':')
    if not colon:
        return port, default_port
    return name, int(port)


def model(value, default_port=None):
    """The unmodified function, re-expressed with split()."""
    if value[:1] == '[':
        idx = value.rfind(']:')
        if idx >= 0:
            return value[1:idx], int(value[idx + 2 :])
        return value[1 : len(value) - 1] if len(value) > 1 else '', default_port
    pieces = value.split(':')
    if len(pieces) != 2:
        return value, default_port
    return pieces[0], int(pieces[1])


def outcome(func):
    try:
        return ('ok', func())
    except falcon.HTTPError as ex:
        return ('http', ex.status)
    except Exception as ex:  # noqa: BLE001
        return ('exc', type(ex).__name__, str(ex))


# ---------------------------------------------------------------------------
# Generators
# ---------------------------------------------------------------------------

UNRESERVED = string.ascii_letters + string.digits + '-._~'
SUBDELIMS = "!$&'()*+,;="
IPV6 = [
    '::1',
    '::',
    '2001:db8::1',
    '2001:DB8:0:0:8:800:200C:417A',
    'fe80::1%25eth0',
    '::ffff:192.0.2.1',
    'v1.fe:x',
]


def gen_regname(rnd):
    kind = rnd.randrange(5)
    if kind == 0:
        return rnd.choice(('example.com', 'localhost', 'a.b.c.d.example.org', 'EXAMPLE.Com', 'x'))
    if kind == 1:
        return '.'.join(str(rnd.randrange(256)) for _ in range(4))
    if kind == 2:
        labels = rnd.randrange(1, 5)
        return '.'.join(
            ''.join(rnd.choice(string.ascii_lowercase + string.digits + '-') for _ in range(rnd.randrange(1, 8)))
            for _ in range(labels)
        )
    if kind == 3:
        return ''.join(rnd.choice(UNRESERVED + SUBDELIMS + '%') for _ in range(rnd.randrange(1, 12)))
    return rnd.choice(('', '.', 'a.', '.a', 'xn--bcher-kva.example', '%41.example'))


def gen_port(rnd):
    kind = rnd.randrange(6)
    if kind == 0:
        return None
    if kind == 1:
        return rnd.choice(('80', '443', '8080', '0', '65535', '1'))
    if kind == 2:
        return '0' * rnd.randrange(1, 4) + str(rnd.randrange(0, 65536))
    return str(rnd.randrange(0, 65536))


def gen_authority(rnd):
    if rnd.random() < 0.35:
        host = '[' + rnd.choice(IPV6) + ']'
    else:
        host = gen_regname(rnd)
    port = gen_port(rnd)
    return host if port is None else host + ':' + port


def mutate(rnd, text):
    alphabet = ':[]. -+_0129abz%\t/@\xe9'
    for _ in range(rnd.randrange(1, 4)):
        op = rnd.randrange(5)
        pos = rnd.randrange(len(text)) if text else 0
        if op == 0 and text:
            text = text[:pos] + text[pos + 1 :]
        elif op == 1:
            text = text[:pos] + rnd.choice(alphabet) + text[pos:]
        elif op == 2 and text:
            text = text[:pos] + rnd.choice(alphabet) + text[pos + 1 :]
        elif op == 3:
            text = text[:pos]
        else:
            text = text + rnd.choice(alphabet)
    return text


# ---------------------------------------------------------------------------
# Requests
# ---------------------------------------------------------------------------


def make_env(headers, scheme):
    env = {
        'SERVER_PROTOCOL': 'HTTP/1.1',
        'SCRIPT_NAME': '',
        'REQUEST_METHOD': 'GET',
        'PATH_INFO': '/',
        'QUERY_STRING': '',
        'SERVER_NAME': 'srv.test',
        'SERVER_PORT': '8000',
        'REMOTE_ADDR': '203.0.113.9',
        'wsgi.version': (1, 0),
        'wsgi.url_scheme': scheme,
        'wsgi.input': io.BytesIO(b''),
        'wsgi.errors': sys.stderr,
    }
    for name, value in headers.items():
        env['HTTP_' + name.upper().replace('-', '_')] = value
    return env


async def _receive():
    return {'type': 'http.disconnect'}


def make_scope(headers, scheme):
    return {
        'type': 'http',
        'asgi': {'version': '3.0', 'spec_version': '2.1'},
        'http_version': '1.1',
        'method': 'GET',
        'path': '/',
        'raw_path': b'/',
        'query_string': b'',
        'root_path': '',
        'scheme': scheme,
        'server': ('srv.test', 8000),
        'client': ('203.0.113.9', 50000),
        'headers': [(n.lower().encode('latin1'), v.encode('latin1')) for n, v in headers.items()],
    }


def both(headers, scheme):
    return (
        ('wsgi', falcon.Request(make_env(headers, scheme))),
        ('asgi', falcon.asgi.Request(make_scope(headers, scheme), _receive)),
    )


def twice(label, func):
    first = outcome(func)
    second = outcome(func)
    expect(label + ' repeat', second, first)
    return first


def is_latin1(text):
    try:
        text.encode('latin1')
    except UnicodeEncodeError:
        return False
    return True


def check_via_host_header(label, value, rnd, must_succeed):
    scheme = rnd.choice(('http', 'https'))
    default = 80 if scheme == 'http' else 443
    want_host = outcome(lambda: model(value)[0])
    want_port = outcome(lambda: model(value, default)[1])
    casing = rnd.choice(('Host', 'host', 'HOST', 'hOST'))
    for kind, req in both({casing: value}, scheme):
        got_host = twice(label + ' %s.host' % kind, lambda: req.host)
        got_port = twice(label + ' %s.port' % kind, lambda: req.port)
        got_netloc = twice(label + ' %s.netloc' % kind, lambda: req.netloc)
        got_sub = twice(label + ' %s.subdomain' % kind, lambda: req.subdomain)
        expect(label + ' %s.host' % kind, got_host, want_host)
        expect(label + ' %s.port' % kind, got_port, want_port)
        expect(label + ' %s.netloc' % kind, got_netloc, ('ok', value))
        if want_host[0] == 'ok':
            first, dot, _ = want_host[1].partition('.')
            expect(label + ' %s.subdomain' % kind, got_sub, ('ok', first if dot else None))
            expect(label + ' %s.uri' % kind, outcome(lambda: req.uri), ('ok', scheme + '://' + value + '/'))
        else:
            expect(label + ' %s.subdomain' % kind, got_sub, want_host)
        if must_succeed:
            expect(label + ' %s host ok' % kind, got_host[0], 'ok')
            expect(label + ' %s port ok' % kind, got_port[0], 'ok')
        expect(label + ' %s.get_header' % kind, req.get_header('hoSt'), value)


def check_via_forwarded(label, values, must_succeed):
    """values: list of node strings, each placed in a quoted for= parameter."""
    if any('"' in v or '\\' in v or not all(c == '\t' or ' ' <= c <= '~' for c in v) for v in values):
        return
    header = ', '.join('for="%s"' % v for v in values)

    def want_route():
        route = [model(v)[0] for v in values]
        if not route or route[-1] != '203.0.113.9':
            route.append('203.0.113.9')
        return route

    want = outcome(want_route)
    for kind, req in both({'Forwarded': header, 'Host': 'srv.test'}, 'http'):
        got = outcome(lambda: list(req.access_route))
        expect(label + ' %s.access_route' % kind, got, want)
        if must_succeed or want[0] == 'ok':
            expect(label + ' %s.access_route ok' % kind, got[0], 'ok')
            expect(label + ' %s.access_route again' % kind, outcome(lambda: list(req.access_route)), want)


HARD = [
    # value, default_port, outcome on the unmodified tree
    ('example.com', None, ('ok', ('example.com', None))),
    ('example.com', 80, ('ok', ('example.com', 80))),
    ('example.com:8080', 80, ('ok', ('example.com', 8080))),
    ('example.com:080', None, ('ok', ('example.com', 80))),
    ('example.com:0', None, ('ok', ('example.com', 0))),
    ('example.com:65536', None, ('ok', ('example.com', 65536))),
    ('example.com: 80 ', None, ('ok', ('example.com', 80))),
    ('example.com:+80', None, ('ok', ('example.com', 80))),
    ('example.com:-80', None, ('ok', ('example.com', -80))),
    ('example.com:8_0', None, ('ok', ('example.com', 80))),
    (':80', None, ('ok', ('', 80))),
    ('', None, ('ok', ('', None))),
    ('', 443, ('ok', ('', 443))),
    ('192.0.2.1:5000', None, ('ok', ('192.0.2.1', 5000))),
    ('192.0.2.1', 443, ('ok', ('192.0.2.1', 443))),
    ('[::1]', 80, ('ok', ('::1', 80))),
    ('[::1]:8443', 80, ('ok', ('::1', 8443))),
    ('[2001:db8::1]:80', None, ('ok', ('2001:db8::1', 80))),
    ('::1', 80, ('ok', ('::1', 80))),
    ('2001:db8::1', None, ('ok', ('2001:db8::1', None))),
    ('a:b:c', 1, ('ok', ('a:b:c', 1))),
    ('a::', 1, ('ok', ('a::', 1))),
    ('[', 7, ('ok', ('', 7))),
    ('[]', 7, ('ok', ('', 7))),
    ('[::1', 7, ('ok', ('::', 7))),
    ('[a]:1]:2', None, ('ok', ('a]:1', 2))),
    ('unknown', None, ('ok', ('unknown', None))),
    ('_hidden', None, ('ok', ('_hidden', None))),
    ('example.com:', None, ('exc', 'ValueError', "invalid literal for int() with base 10: ''")),
    ('example.com:http', None, ('exc', 'ValueError', "invalid literal for int() with base 10: 'http'")),
    ('x:_obf', None, ('exc', 'ValueError', "invalid literal for int() with base 10: '_obf'")),
    ('[::1]:', None, ('exc', 'ValueError', "invalid literal for int() with base 10: ''")),
    ('[::1]:x', 9, ('exc', 'ValueError', "invalid literal for int() with base 10: 'x'")),
    (':', None, ('exc', 'ValueError', "invalid literal for int() with base 10: ''")),
]


def main():
    rnd = random.Random(40904)

    expect('alias', uri.parse_host is parse_host, True)

    # valid authority forms
    for i in range(600):
        value = gen_authority(rnd)
        label = 'valid[%d] %r' % (i, value)
        for default in (None, 80, 443, 0):
            want = ('ok', rfc_authority(value, default))
            expect(label + ' model-vs-rfc', outcome(lambda: model(value, default)), want)
            expect(label + ' parse_host(default=%r)' % default, outcome(lambda: parse_host(value, default)), want)
            expect(label + ' parse_host(kw default=%r)' % default, outcome(lambda: parse_host(value, default_port=default)), want)
        expect(label + ' parse_host()', outcome(lambda: parse_host(value)), ('ok', rfc_authority(value, None)))
        check_via_host_header(label, value, rnd, must_succeed=True)
        others = [gen_authority(rnd) for _ in range(rnd.randrange(0, 3))]
        check_via_forwarded(label, [value] + others, must_succeed=True)

    # a str subclass comes back as plain str pieces, as before
    class S(str):
        pass

    got = parse_host(S('example.com:81'))
    expect('subclass', (got, type(got[0]), type(got[1])), (('example.com', 81), str, int))

    # mutated forms: outcome identical to the model of the unmodified code
    for i in range(900):
        value = mutate(rnd, gen_authority(rnd))
        label = 'mutated[%d] %r' % (i, value)
        for default in (None, 80):
            expect(
                label + ' parse_host(default=%r)' % default,
                outcome(lambda: parse_host(value, default)),
                outcome(lambda: model(value, default)),
            )
        if is_latin1(value):
            check_via_host_header(label, value, rnd, must_succeed=False)
            check_via_forwarded(label, [value], must_succeed=False)

    # non-latin1 text can only reach parse_host() directly
    for value in ('h\u00f6st:\u0668\u0660', 'host:\uff18\uff10', '\u4f8b\u3048.jp:80', 'a:\u00b2'):
        expect('unicode %r' % value, outcome(lambda: parse_host(value)), outcome(lambda: model(value)))

    for value, default, want in HARD:
        expect('hard %r' % value, outcome(lambda: parse_host(value, default)), want)
        expect('hard model %r' % value, outcome(lambda: model(value, default)), want)

    if FAILURES:
        print('%d failure(s) out of %d checks' % (len(FAILURES), CHECKS))
        sys.exit(1)
    print('checks:', CHECKS)
    print('PASS')


if __name__ == '__main__':
    main()
