"""Property C11 check: content negotiation and media-handler resolution.

Run as:  PYTHONPATH=<falcon tree> /venv/bin/python check.py

The program compares falcon's behaviour with a small, independently written
reference model of the documented matching rule:

  A. media-range splitting (commas inside quoted-strings do not split);
  B. parse_header() (plain and quoted parameters);
  C. quality() / best_match() over headers generated from the media-range
     grammar (wildcards, parameters, quoted parameters, q with 0-3+ digits,
     duplicates, whitespace, invalid members) and arbitrary candidate lists;
  D. Request.client_accepts() / client_prefers(), WSGI and ASGI;
  E. histories of set/delete/update/pop/clear/copy/... on a Handlers mapping
     interleaved with resolutions (never a stale handler, default fallback,
     415 / (None, None, None) otherwise).

In addition, a handful of hard-coded expectations recorded on the UNMODIFIED
tree pin the most delicate corner cases.

FOCUS selects which section gets the largest share of generated cases; every
section is always exercised.
"""

import copy
import math
import random
import re
import sys

import falcon
import falcon.asgi
from falcon import errors
from falcon import testing
from falcon.media.handlers import Handlers
from falcon.util import mediatypes

FOCUS = 'match'  # one of: split, header, match, handlers

SEED = 20261001
rng = random.Random(SEED)

failures = []
counts = {}


def fail(section, msg):
    failures.append('[%s] %s' % (section, msg))


def tick(section, n=1):
    counts[section] = counts.get(section, 0) + n


def scale(section, base):
    return base * (4 if FOCUS == section else 1)


# ---------------------------------------------------------------------------
# Reference model
# ---------------------------------------------------------------------------

_TOKEN = re.compile(r'"(?:\\.|[^"\\])*(?:"|\\?$)|[^",]+|,', re.S)


def ref_split(header):
    """Split on commas that are outside of a quoted-string."""
    pieces = ['']
    for m in _TOKEN.finditer(header):
        tok = m.group(0)
        if tok == ',':
            pieces.append('')
        else:
            pieces[-1] += tok
    return pieces


def ref_parse_header(line):
    # Split on ';' that have an even number of (non backslash-preceded)
    # double quotes before them, counted from the previous separator.
    segs = []
    cur = []
    nquotes = 0
    prev = ';'
    for ch in line:
        if ch == ';' and nquotes % 2 == 0:
            segs.append(''.join(cur))
            cur = []
            nquotes = 0
            prev = ';'
            continue
        if ch == '"' and prev != '\\':
            nquotes += 1
        cur.append(ch)
        prev = ch
    segs.append(''.join(cur))

    key = segs[0].strip()
    params = {}
    for seg in segs[1:]:
        seg = seg.strip()
        if '=' not in seg:
            continue
        idx = seg.index('=')
        name = seg[:idx].strip().lower()
        value = seg[idx + 1:].strip()
        if len(value) >= 2 and value[0] == '"' and value[-1] == '"':
            value = value[1:-1].replace('\\\\', '\\').replace('\\"', '"')
        params[name] = value
    return key, params


class RefTypeError(Exception):
    pass


class RefRangeError(Exception):
    pass


def ref_media_type(s):
    full, params = ref_parse_header(s)
    if full == '*':
        full = '*/*'
    if '/' not in full:
        raise RefTypeError(s)
    main, _, sub = full.partition('/')
    return main.strip(), sub.strip(), params


def ref_media_range(s):
    try:
        main, sub, params = ref_media_type(s)
    except RefTypeError:
        raise RefRangeError(s)
    q = 1.0
    if 'q' in params:
        raw = params.pop('q')
        try:
            q = float(raw)
        except ValueError:
            raise RefRangeError(s)
        if math.isnan(q) or math.isinf(q) or q < 0.0 or q > 1.0:
            raise RefRangeError(s)
    return main, sub, q, params


NO_MATCH = (-1, -1, -1, -1, 0.0)


def ref_score(mrange, mtype):
    rmain, rsub, q, rparams = mrange
    tmain, tsub, tparams = mtype
    if rmain == '*' or tmain == '*':
        s_main = 0
    elif rmain == tmain:
        s_main = 1
    else:
        return NO_MATCH
    if rsub == '*' or tsub == '*':
        s_sub = 0
    elif rsub == tsub:
        s_sub = 1
    else:
        return NO_MATCH
    common = [name for name in rparams if name in tparams]
    for name in common:
        if rparams[name] != tparams[name]:
            return NO_MATCH
    exact = 1 if sorted(rparams) == sorted(tparams) else 0
    return (s_main, s_sub, exact, len(common), q)


def ref_quality(media_type, header):
    mtype = ref_media_type(media_type)  # RefTypeError first
    ranges = [ref_media_range(r) for r in ref_split(header)]
    best = None
    for r in ranges:
        sc = ref_score(r, mtype)
        if best is None or sc > best:
            best = sc
    return best[-1]


def ref_best_match(media_types, header):
    best_type, best_q = '', 0.0
    for mt in media_types:
        q = ref_quality(mt, header)
        if q > best_q:
            best_type, best_q = mt, q
    return best_type


def outcome(fn, *args):
    """Normalise result/exception of falcon or reference calls."""
    try:
        return ('ok', fn(*args))
    except (errors.InvalidMediaRange, RefRangeError):
        return ('range-error', None)
    except (errors.InvalidMediaType, RefTypeError):
        return ('type-error', None)


# ---------------------------------------------------------------------------
# Generators
# ---------------------------------------------------------------------------

MAINS = ['text', 'application', 'image', '*', 'Text', 'x-a']
SUBS = ['html', 'plain', 'json', 'xml', '*', 'vnd.api+json', 'JSON', 'png']
PNAMES = ['charset', 'version', 'level', 'profile', 'Charset', 'v']
PVALUES = ['utf-8', '1', '2', 'a', 'UTF-8', '', 'x y']
QVALUES = [
    '0', '0.', '0.0', '0.5', '0.50', '0.500', '0.5000', '1', '1.0', '1.000',
    '0.001', '0.999', '.5', '0.3', '0.7', '0.70', '1e-1', ' 0.2 ',
]
BAD_QVALUES = ['1.1', '-0.1', 'abc', '', 'nan', 'inf', '-inf', '2', '1e400', '0,5']
QUOTED_RAW = [
    'a,b', 'x;y', 'a\\"b', 'a\\\\b', '', ' ', 'q=0', 'utf-8', ',', ',,;',
    'a\\,b', '1', '2', 'a, text/html;q=0',
]
WS = ['', '', ' ', '  ', '\t']


def gen_param(allow_quoted=True):
    name = rng.choice(PNAMES)
    if allow_quoted and rng.random() < 0.35:
        value = '"' + rng.choice(QUOTED_RAW) + '"'
    else:
        value = rng.choice(PVALUES)
    return '%s%s%s=%s%s' % (
        rng.choice(WS), name, rng.choice(['', '', ' ']), rng.choice(['', '', ' ']),
        value,
    )


def gen_type(allow_quoted=True, allow_params=True):
    main = rng.choice(MAINS)
    sub = rng.choice(SUBS)
    s = '%s%s/%s%s' % (rng.choice(WS), main, sub, rng.choice(WS))
    if allow_params:
        for _ in range(rng.choice([0, 0, 0, 1, 1, 2, 3])):
            s += ';' + gen_param(allow_quoted)
    return s


INVALID_MEMBERS = [
    '', ' ', 'text', 'html', '/', 'text/', '/html', 'text/html;q=', ';q=1',
    'text/html;q=1.5', 'text/html;q=-1', 'text/html;q=nan', 'text/html;q=abc',
    '**', '*', '"', 'text/"html', 'text/html;q="0.5"', 'text/html;q="2"',
]


def gen_range(allow_quoted=True, invalid_rate=0.04):
    r = rng.random()
    if r < invalid_rate:
        return rng.choice(INVALID_MEMBERS)
    s = gen_type(allow_quoted)
    r = rng.random()
    if r < 0.55:
        qname = rng.choice(['q', 'q', 'Q'])
        qv = rng.choice(QVALUES) if rng.random() > invalid_rate else rng.choice(BAD_QVALUES)
        s += ';%s%s=%s' % (rng.choice(WS), qname, qv)
        if rng.random() < 0.15:
            s += ';' + gen_param(allow_quoted)
    return s


def gen_header(allow_quoted=True, invalid_rate=0.04):
    n = rng.choice([1, 1, 2, 2, 3, 4, 6])
    members = [gen_range(allow_quoted, invalid_rate) for _ in range(n)]
    if rng.random() < 0.2 and members:
        members.append(rng.choice(members))  # duplicates
    sep = rng.choice([',', ', ', ' , ', ','])
    return sep.join(members)


def gen_candidates():
    n = rng.choice([0, 1, 1, 2, 3, 4, 5])
    out = []
    for _ in range(n):
        if rng.random() < 0.03:
            out.append(rng.choice(['', 'text', 'nonsense', ' ']))
        else:
            out.append(gen_type(allow_quoted=rng.random() < 0.3))
    return out


# ---------------------------------------------------------------------------
# A. splitting of media ranges
# ---------------------------------------------------------------------------

SPLIT_ALPHABET = ['"', '"', '\\', ',', ',', ';', '=', 'a', 'q', ' ', '/', '*', '0']


def section_split():
    fixed = [
        ('', ['']),
        (',', ['', '']),
        ('a,b', ['a', 'b']),
        ('a;p="x,y",b', ['a;p="x,y"', 'b']),
        ('a;p="x\\",y",b', ['a;p="x\\",y"', 'b']),
        ('a;p="x\\\\",b', ['a;p="x\\\\"', 'b']),
        ('a;p="x,y', ['a;p="x,y']),
        ('a\\",b",c', ['a\\",b"', 'c']),
        ('a\\,b', ['a\\', 'b']),
        ('"\\', ['"\\']),
        ('",\\', ['",\\']),
        ('"a",,"b,"', ['"a"', '', '"b,"']),
        ('"","",', ['""', '""', '']),
    ]
    for header, expected in fixed:
        got = mediatypes._split_media_ranges(header)
        tick('split')
        if got != expected:
            fail('split', 'fixed %r -> %r, expected %r' % (header, got, expected))
        if ref_split(header) != expected:
            fail('split', 'reference model disagrees on %r' % (header,))

    for _ in range(scale('split', 600)):
        n = rng.randint(0, 14)
        header = ''.join(rng.choice(SPLIT_ALPHABET) for _ in range(n))
        got = mediatypes._split_media_ranges(header)
        exp = ref_split(header)
        tick('split')
        if got != exp:
            fail('split', 'random %r -> %r, expected %r' % (header, got, exp))
        if ','.join(got) != header:
            fail('split', 'pieces of %r do not re-join' % (header,))

    for _ in range(scale('split', 300)):
        header = gen_header(allow_quoted=True, invalid_rate=0.1)
        got = mediatypes._split_media_ranges(header)
        exp = ref_split(header)
        tick('split')
        if got != exp:
            fail('split', 'grammar %r -> %r, expected %r' % (header, got, exp))


# ---------------------------------------------------------------------------
# B. parse_header
# ---------------------------------------------------------------------------

HEADER_ALPHABET = ['"', '\\', ';', ';', '=', '=', 'a', 'B', ' ', '/', 'q', '1']


def section_header():
    fixed = [
        ('text/html', ('text/html', {})),
        (' text/html ; Charset = UTF-8 ', ('text/html', {'charset': 'UTF-8'})),
        ('text/html;a=1;a=2', ('text/html', {'a': '2'})),
        ('text/html;a', ('text/html', {})),
        ('text/html;=v', ('text/html', {'': 'v'})),
        ('text/html;a=b=c', ('text/html', {'a': 'b=c'})),
        ('text/html;a="b=c";d=e', ('text/html', {'a': 'b=c', 'd': 'e'})),
        ('text/html;a="x;y";b="\\"q\\""', ('text/html', {'a': 'x;y', 'b': '"q"'})),
        ('text/html;a="x\\\\y"', ('text/html', {'a': 'x\\y'})),
        ('text/html;a="', ('text/html', {'a': '"'})),
        ('text/html;a=""', ('text/html', {'a': ''})),
        ('text/html; A = "v" ;b', ('text/html', {'a': 'v'})),
        ('text/html;a=\\', ('text/html', {'a': '\\'})),
        ('text/html;"a=1"=2', ('text/html', {'"a': '1"=2'})),
        ('', ('', {})),
        (';', ('', {})),
        ('";"', ('";"', {})),
    ]
    for line, expected in fixed:
        got = mediatypes.parse_header(line)
        tick('header')
        if got != expected:
            fail('header', 'fixed %r -> %r, expected %r' % (line, got, expected))
        if ref_parse_header(line) != expected:
            fail('header', 'reference model disagrees on %r: %r' % (
                line, ref_parse_header(line)))

    for _ in range(scale('header', 500)):
        n = rng.randint(0, 16)
        line = ''.join(rng.choice(HEADER_ALPHABET) for _ in range(n))
        got = mediatypes.parse_header(line)
        exp = ref_parse_header(line)
        tick('header')
        if got != exp:
            fail('header', 'random %r -> %r, expected %r' % (line, got, exp))

    for _ in range(scale('header', 400)):
        line = gen_range(allow_quoted=True, invalid_rate=0.1)
        got = mediatypes.parse_header(line)
        exp = ref_parse_header(line)
        tick('header')
        if got != exp:
            fail('header', 'grammar %r -> %r, expected %r' % (line, got, exp))


# ---------------------------------------------------------------------------
# C. quality / best_match
# ---------------------------------------------------------------------------

def section_match():
    # Hard-coded expectations (taken from the unmodified tree / the docs).
    fixed_quality = [
        ('text/html', 'text/*;q=0.3, text/html;q=0.7, */*;q=0.5', 0.7),
        ('text/plain', 'text/*;q=0.3, text/html;q=0.7, */*;q=0.5', 0.3),
        ('image/png', 'text/*;q=0.3, text/html;q=0.7, */*;q=0.5', 0.5),
        ('text/html', 'text/html;q=0, */*', 0.0),
        ('text/html', '*/*;q=1, text/*;q=0', 0.0),
        ('text/html;level=1', 'text/html;level=1;q=0.2, text/html;q=0.9', 0.2),
        ('text/html;level=2', 'text/html;level=1;q=0.2, text/html;q=0.9', 0.9),
        ('text/html;level=2', 'text/html;level=1', 0.0),
        ('text/html', 'text/html;level=1;q=0.4, text/*;q=0.9', 0.4),
        ('text/html;a=1;b=2', 'text/html;a=1;q=0.1, text/html;a=1;b=2;q=0.2', 0.2),
        ('text/html;a=1;b=2', 'text/html;a=1;c=3;q=0.1, text/html;b=2;q=0.6', 0.6),
        ('text/html;a=1;b=2', 'text/html;a=1;b=2;c=3;q=0.1, text/html;b=2;q=0.6', 0.1),
        ('text/html', 'text/html;q=0.5, text/html;q=0.25', 0.5),
        ('text/html', 'text/html;q=0.25, text/html;q=0.5', 0.5),
        ('text/html', 'image/png', 0.0),
        ('text/html', '*', 1.0),
        ('text/*', 'text/html;q=0.4', 0.4),
        ('text/html', 'TEXT/html', 0.0),
        ('text/html;p="a,b"', 'text/html;p="a,b";q=0.3, text/html;q=0.8', 0.3),
        ('text/html;p="a,b"', 'text/html;p="a;q=0.1', 0.0),
        ('text/html', 'text/html;p="x, text/html;q=0";q=0.5', 0.5),
        ('text/html', 'text/html;Q=0.125', 0.125),
        ('text/html', 'text/html;q=0.1;q=0.9', 0.9),
    ]
    for media_type, header, expected in fixed_quality:
        got = mediatypes.quality(media_type, header)
        tick('match')
        if got != expected:
            fail('match', 'quality(%r, %r) = %r, expected %r' % (
                media_type, header, got, expected))
        if ref_quality(media_type, header) != expected:
            fail('match', 'reference disagrees on quality(%r, %r): %r' % (
                media_type, header, ref_quality(media_type, header)))

    fixed_errors = [
        ('text/html', '', 'range-error'),
        ('text/html', 'text/html,', 'range-error'),
        ('text/html', 'text/html;q=1.001', 'range-error'),
        ('text/html', 'text/html;q=-0', 'ok'),
        ('text/html', 'text/html;q=nan', 'range-error'),
        ('text/html', 'text/html;q=inf', 'range-error'),
        ('text/html', 'text/html;q=', 'range-error'),
        ('text/html', 'text/html;q="0.5"', 'ok'),
        ('text/html', 'text', 'range-error'),
        ('text', 'text/html', 'type-error'),
        ('text', 'text', 'type-error'),
        ('', '', 'type-error'),
        ('text/html;q=7', 'text/html', 'ok'),
    ]
    for media_type, header, kind in fixed_errors:
        got = outcome(mediatypes.quality, media_type, header)
        tick('match')
        if got[0] != kind:
            fail('match', 'quality(%r, %r) outcome %r, expected %r' % (
                media_type, header, got, kind))
        if outcome(ref_quality, media_type, header)[0] != kind:
            fail('match', 'reference outcome differs for (%r, %r)' % (
                media_type, header))

    fixed_best = [
        (['application/json', 'text/html'], 'text/*;q=0.9, application/json;q=0.9',
         'application/json'),
        (['text/html', 'application/json'], 'text/*;q=0.9, application/json;q=0.9',
         'text/html'),
        (['text/html', 'application/json'], 'text/html;q=0, */*;q=0.1',
         'application/json'),
        (['text/html'], 'text/html;q=0, */*;q=0', ''),
        (['text/html'], 'image/*', ''),
        ([], 'text/html', ''),
        ([], 'garbage', ''),
        (['a/b', 'a/c'], 'a/c;q=0.5, a/b;q=0.5', 'a/b'),
        (['a/b', 'a/c'], 'a/*;q=0.5, a/c;q=0.6', 'a/c'),
        (['a/b;v=1', 'a/b;v=2'], 'a/b;v=2, a/b;q=0.5', 'a/b;v=2'),
    ]
    for media_types, header, expected in fixed_best:
        got = mediatypes.best_match(media_types, header)
        tick('match')
        if got != expected:
            fail('match', 'best_match(%r, %r) = %r, expected %r' % (
                media_types, header, got, expected))
        got = mediatypes.best_match(iter(media_types), header)
        if got != expected:
            fail('match', 'best_match(iter(%r), %r) = %r, expected %r' % (
                media_types, header, got, expected))

    n_ok = n_err = 0
    for i in range(scale('match', 700)):
        header = gen_header(allow_quoted=rng.random() < 0.5)
        candidates = gen_candidates()
        # Make sure that exact/param matches do occur often enough.
        if rng.random() < 0.5:
            for piece in ref_split(header)[:2]:
                base = re.sub(r';\s*[qQ]\s*=[^;]*', '', piece)
                if rng.random() < 0.5:
                    base = base.split(';')[0]
                candidates.insert(rng.randint(0, len(candidates)), base)

        for mt in candidates:
            got = outcome(mediatypes.quality, mt, header)
            exp = outcome(ref_quality, mt, header)
            tick('match')
            if got != exp:
                fail('match', 'quality(%r, %r): %r, expected %r' % (mt, header, got, exp))
            if got[0] == 'ok':
                n_ok += 1
            else:
                n_err += 1

        got = outcome(mediatypes.best_match, candidates, header)
        exp = outcome(ref_best_match, candidates, header)
        tick('match')
        if got != exp:
            fail('match', 'best_match(%r, %r): %r, expected %r' % (
                candidates, header, got, exp))
        elif got[0] == 'ok' and got[1]:
            # Never choose a candidate with q=0 / no matching range.
            if ref_quality(got[1], header) <= 0.0:
                fail('match', 'best_match chose unacceptable %r' % (got[1],))
        # Any malformed input surfaces only as the documented ValueErrors.
        try:
            mediatypes.best_match(candidates, header)
        except ValueError as ex:
            if type(ex) not in (errors.InvalidMediaType, errors.InvalidMediaRange):
                fail('match', 'undocumented error %r' % (ex,))

    if n_ok < 200 or n_err < 20:
        fail('match', 'generator is degenerate: ok=%d err=%d' % (n_ok, n_err))


# ---------------------------------------------------------------------------
# D. Request.client_accepts / client_prefers (WSGI + ASGI)
# ---------------------------------------------------------------------------

def make_requests(accept):
    headers = None if accept is None else {'Accept': accept}
    wsgi_req = falcon.Request(testing.create_environ(headers=headers))
    asgi_req = testing.create_asgi_req(headers=headers)
    return [('wsgi', wsgi_req), ('asgi', asgi_req)]


def ref_client_accepts(accept, media_type):
    if accept == media_type or accept == '*/*':
        return True
    try:
        return ref_quality(media_type, accept) != 0.0
    except (RefTypeError, RefRangeError):
        return False


def ref_client_prefers(accept, media_types):
    try:
        return ref_best_match(media_types, accept) or None
    except (RefTypeError, RefRangeError):
        return None


def section_request():
    fixed = [
        (None, 'text/html', True, ['text/html', 'a/b'], 'text/html'),
        ('*/*', 'nonsense', True, ['a/b', 'c/d'], 'a/b'),
        ('garbage', 'garbage', True, ['a/b'], None),
        ('garbage', 'a/b', False, ['a/b'], None),
        ('a/b;q=0', 'a/b', False, ['a/b'], None),
        ('a/b;q=0, */*', 'a/b', False, ['a/b', 'c/d'], 'c/d'),
        ('a/b;p="x,y"', 'a/b;p="x,y"', True, ['a/b;p="x,y"', 'a/b'], 'a/b;p="x,y"'),
        ('a/b;p="x,c/d"', 'c/d', False, ['c/d'], None),
    ]
    for accept, mt, exp_accepts, cands, exp_prefers in fixed:
        for flavour, req in make_requests(accept):
            tick('request')
            if req.client_accepts(mt) is not exp_accepts:
                fail('request', '%s client_accepts(%r) with Accept=%r' % (
                    flavour, mt, accept))
            if req.client_prefers(cands) != exp_prefers:
                fail('request', '%s client_prefers(%r) with Accept=%r -> %r' % (
                    flavour, cands, accept, req.client_prefers(cands)))

    for _ in range(scale('match', 150)):
        accept = gen_header(allow_quoted=rng.random() < 0.5, invalid_rate=0.06)
        # NOTE: WSGI/ASGI header values are latin-1 text; the generator is ASCII.
        candidates = gen_candidates()
        for flavour, req in make_requests(accept):
            if req.accept != accept:
                # The test helpers may strip surrounding whitespace.
                accept_seen = req.accept
            else:
                accept_seen = accept
            for mt in candidates:
                tick('request')
                got = req.client_accepts(mt)
                exp = ref_client_accepts(accept_seen, mt)
                if got is not exp:
                    fail('request', '%s client_accepts(%r) Accept=%r: %r != %r' % (
                        flavour, mt, accept_seen, got, exp))
            tick('request')
            got = req.client_prefers(candidates)
            exp = ref_client_prefers(accept_seen, candidates)
            if got != exp:
                fail('request', '%s client_prefers(%r) Accept=%r: %r != %r' % (
                    flavour, candidates, accept_seen, got, exp))


# ---------------------------------------------------------------------------
# E. Handlers mapping histories
# ---------------------------------------------------------------------------

class H(object):
    """A dummy (truthy) media handler."""

    def __init__(self, name):
        self.name = name

    def __repr__(self):
        return 'H(%s)' % self.name


KEYS = [
    'application/json', 'application/xml', 'text/html', 'text/plain',
    'text/*', '*/*', 'application/json; version=1', 'application/json; version=2',
    'application/vnd.api+json', 'text/html; charset=utf-8', 'image/png',
    'application/json; p="a,b"', 'bogus',
]
RESOLVE_TYPES = KEYS + [
    None, '', 'application/json; charset=utf-8', 'application/json;version=2',
    'application/json; version=3', 'text/css', 'text/html;charset=UTF-8',
    'text/html; charset=utf-8; level=1', 'image/*', 'application/*',
    'TEXT/HTML', 'nonsense', 'application/json, text/html;q=0.5',
    'application/json;q=0', 'text/plain;q=0.0', 'application/json;q=2',
    'application/json;p="a,b"', 'video/mp4', 'image/png; q=0.5',
]
DEFAULTS = ['application/json', 'text/html', 'image/png', 'application/yaml', 'text/*']


def ref_resolve(model, media_type, default):
    """Return the designated handler, or None if the type is unsupported."""
    if media_type == '*/*' or not media_type:
        media_type = default
    if media_type in model:
        return model[media_type]
    try:
        matched = ref_best_match(list(model), media_type)
    except (RefTypeError, RefRangeError):
        matched = ''
    if not matched:
        return None
    return model[matched]


def check_resolutions(handlers, model, label, n):
    for _ in range(n):
        media_type = rng.choice(RESOLVE_TYPES)
        default = rng.choice(DEFAULTS)
        exp = ref_resolve(model, media_type, default)
        tick('handlers')

        got3 = handlers._resolve(media_type, default, raise_not_found=False)
        try:
            got = handlers._resolve(media_type, default)
            raised = False
        except falcon.HTTPUnsupportedMediaType as ex:
            got = (None, None, None)
            raised = True
            if ex.status != falcon.HTTP_415:
                fail('handlers', 'bad status %r' % (ex.status,))

        if exp is None:
            if got3 != (None, None, None) or not raised:
                fail('handlers', '%s: %r (default %r) should be unsupported, got %r / %r'
                     % (label, media_type, default, got3, got))
        else:
            if raised or got[0] is not exp or got3[0] is not exp:
                fail('handlers', '%s: %r (default %r) resolved to %r / %r, expected %r; '
                     'mapping %r' % (label, media_type, default, got, got3, exp, model))
            if got[1:] != (None, None) or got3[1:] != (None, None):
                fail('handlers', 'unexpected sync shortcuts %r' % (got,))


def section_handlers():
    serial = [0]

    def new_handler():
        serial[0] += 1
        return H(serial[0])

    # Hard-coded expectations.
    h_json, h_v2, h_any = H('json'), H('v2'), H('text-any')
    handlers = Handlers({'application/json': h_json})
    assert handlers._resolve('application/json; version=2', 'x/y')[0] is h_json
    handlers['application/json; version=2'] = h_v2
    if handlers._resolve('application/json; version=2', 'x/y')[0] is not h_v2:
        fail('handlers', 'stale handler after __setitem__')
    # NOTE: best_match() ranks candidates by quality alone; on a tie the first
    #   key of the mapping wins (behaviour of the unmodified tree).
    if handlers._resolve('application/json;version=2', 'x/y')[0] is not h_json:
        fail('handlers', 'tie between keys not resolved to the first key')
    del handlers['application/json; version=2']
    if handlers._resolve('application/json; version=2', 'x/y')[0] is not h_json:
        fail('handlers', 'stale handler after __delitem__')
    if handlers._resolve(None, 'application/json')[0] is not h_json:
        fail('handlers', 'missing type does not fall back to the default')
    if handlers._resolve('*/*', 'application/json')[0] is not h_json:
        fail('handlers', '*/* does not fall back to the default')
    if handlers._resolve('text/css', 'application/json', False) != (None, None, None):
        fail('handlers', 'unsupported type did not yield (None, None, None)')
    handlers.update({'text/*': h_any})
    if handlers._resolve('text/css', 'application/json', False)[0] is not h_any:
        fail('handlers', 'stale miss after update()')
    handlers.clear()
    if handlers._resolve('text/css', 'application/json', False) != (None, None, None):
        fail('handlers', 'stale handler after clear()')
    tick('handlers', 9)

    n_histories = scale('handlers', 60)
    for hist in range(n_histories):
        model = {}
        for key in rng.sample(KEYS, rng.randint(0, 5)):
            model[key] = new_handler()
        handlers = Handlers(dict(model))
        others = []  # (handlers, model) pairs forked off via copy

        for step in range(rng.randint(8, 25)):
            op = rng.choice([
                'set', 'set', 'replace', 'del', 'update', 'update_kw', 'pop',
                'pop_default', 'clear', 'copy', 'copy_module', 'setdefault',
                'popitem', 'ior', 'swap',
            ])
            if op == 'set':
                key = rng.choice(KEYS)
                h = new_handler()
                handlers[key] = h
                model[key] = h
            elif op == 'replace' and model:
                key = rng.choice(list(model))
                h = new_handler()
                handlers[key] = h
                model[key] = h
            elif op == 'del' and model:
                key = rng.choice(list(model))
                del handlers[key]
                del model[key]
            elif op == 'update':
                upd = {k: new_handler() for k in rng.sample(KEYS, rng.randint(0, 3))}
                handlers.update(upd)
                model.update(upd)
            elif op == 'update_kw':
                h = new_handler()
                handlers.update([('text/plain', h)])
                model.update([('text/plain', h)])
            elif op == 'pop' and model:
                key = rng.choice(list(model))
                if handlers.pop(key) is not model.pop(key):
                    fail('handlers', 'pop returned a wrong handler')
            elif op == 'pop_default':
                key = rng.choice(KEYS)
                a = handlers.pop(key, None)
                b = model.pop(key, None)
                if a is not b:
                    fail('handlers', 'pop(default) returned a wrong handler')
            elif op == 'clear' and rng.random() < 0.3:
                handlers.clear()
                model.clear()
            elif op == 'copy':
                others.append((handlers, model))
                handlers, model = handlers.copy(), dict(model)
            elif op == 'copy_module':
                others.append((handlers, model))
                handlers, model = copy.copy(handlers), dict(model)
            elif op == 'setdefault':
                key = rng.choice(KEYS)
                h = new_handler()
                a = handlers.setdefault(key, h)
                b = model.setdefault(key, h)
                if a is not b:
                    fail('handlers', 'setdefault returned a wrong handler')
            elif op == 'popitem' and model:
                a = handlers.popitem()
                if a[0] not in model or model.pop(a[0]) is not a[1]:
                    fail('handlers', 'popitem returned a wrong item')
            elif op == 'ior':
                upd = {k: new_handler() for k in rng.sample(KEYS, rng.randint(0, 2))}
                handlers |= upd
                model.update(upd)
            elif op == 'swap' and others:
                idx = rng.randrange(len(others))
                others[idx], (handlers, model) = (handlers, model), others[idx]

            if list(handlers.keys()) != list(model.keys()):
                fail('handlers', 'key order diverged: %r vs %r' % (
                    list(handlers.keys()), list(model.keys())))
            check_resolutions(handlers, model, 'hist %d step %d %s' % (hist, step, op),
                              rng.randint(1, 6))
            if others and rng.random() < 0.4:
                o_handlers, o_model = rng.choice(others)
                check_resolutions(o_handlers, o_model, 'hist %d fork' % hist, 2)

    # Resolution via Request/Response options uses the very same resolver.
    app = falcon.App()
    h = H('custom')
    app.req_options.media_handlers['application/x-custom'] = h
    if app.req_options.media_handlers._resolve(
            'application/x-custom; v=1', falcon.MEDIA_JSON)[0] is not h:
        fail('handlers', 'req_options handler not resolved')
    tick('handlers')


# ---------------------------------------------------------------------------

def main():
    for section in (section_split, section_header, section_match,
                    section_request, section_handlers):
        try:
            section()
        except Exception:
            import traceback
            traceback.print_exc()
            fail(section.__name__, 'unexpected exception (see traceback above)')

    total = sum(counts.values())
    print('falcon from: %s' % (falcon.__file__,))
    print('cases: %s (total %d)' % (
        ', '.join('%s=%d' % kv for kv in sorted(counts.items())), total))
    if total < 3000:
        fail('meta', 'too few cases were generated')
    if failures:
        for line in failures[:40]:
            print('FAIL', line)
        print('FAIL (%d failures)' % len(failures))
        return 1
    print('PASS')
    return 0


if __name__ == '__main__':
    sys.exit(main())
