"""C12 check for change 2 (self-contained; run with PYTHONPATH=<tree>)."""
# ---------------------------------------------------------------------------
# Shared core of the C12 checks (copied verbatim into every check.py so that
# each of them is self-contained).
#
# Reference model
#   * JSON: body == json.dumps(doc, ensure_ascii=False).encode('utf-8') and
#     json.loads(body) == doc; an empty body is MediaNotFoundError (or the
#     caller's default), everything that json/utf-8 rejects is
#     MediaMalformedError (400).
#   * forms: body == urlencode(doc, doseq=True).encode(); parsing gives the
#     same mapping back (one-element lists collapse to the scalar); an empty
#     body is {}; non-ASCII bytes / broken UTF-8 escapes are
#     MediaMalformedError (400).
#   * get_media histories: first call parses; afterwards value -> same object,
#     MediaNotFoundError -> default if given else the same error object,
#     any other error -> the same error object, and the stream is never
#     touched again.
# ---------------------------------------------------------------------------
import asyncio
import io
import json
import math
import random
import sys
from urllib.parse import urlencode

import falcon
import falcon.asgi
from falcon import errors
from falcon import media as falcon_media
from falcon import testing

CASES = 0
FAILURES = []


def check(cond, msg):
    global CASES
    CASES += 1
    if not cond:
        FAILURES.append(msg)
        if len(FAILURES) > 20:
            finish()


def finish():
    if FAILURES:
        print('FAIL (%d of %d checks)' % (len(FAILURES), CASES))
        for f in FAILURES[:20]:
            print('  -', f)
        sys.exit(1)
    print('PASS (%d checks)' % CASES)
    sys.exit(0)


def run(coro):
    loop = asyncio.new_event_loop()
    try:
        return loop.run_until_complete(coro)
    finally:
        loop.close()


# ------------------------------------------------------------------ generators
ALPHABETS = [
    'abcXYZ019 _-',
    '"\\/\b\f\n\r\t\x00\x1f\x7f',
    'éüßłЖ中文  ﻿￿',
    '\U0001f600\U0001f40d\U00010000\U0010ffff',
    '&=+%;,? #[]{}<>\'',
]


def rand_str(rng, maxlen=12):
    n = rng.choice([0, 1, 1, 2, 3, 5, maxlen])
    alpha = ''.join(rng.sample(ALPHABETS, rng.randint(1, len(ALPHABETS))))
    return ''.join(rng.choice(alpha) for _ in range(n))


def rand_scalar(rng):
    k = rng.randrange(9)
    if k == 0:
        return None
    if k == 1:
        return rng.choice([True, False])
    if k == 2:
        return rng.randint(-10, 10)
    if k == 3:
        return rng.choice([1, -1]) * rng.getrandbits(rng.choice([31, 63, 64, 200]))
    if k == 4:
        f = rng.choice(
            [0.0, -0.0, 1.5, -2.25, 1e-308, 5e-324, 1.7976931348623157e308, 0.1, 1e22]
        )
        return f
    if k == 5:
        return rng.uniform(-1e6, 1e6)
    return rand_str(rng)


def rand_doc(rng, depth=0):
    k = rng.randrange(10)
    if depth >= 4 or k < 4:
        return rand_scalar(rng)
    if k < 7:
        return [rand_doc(rng, depth + 1) for _ in range(rng.randint(0, 4))]
    return {rand_str(rng): rand_doc(rng, depth + 1) for _ in range(rng.randint(0, 4))}


def same_doc(a, b):
    """Equality that also distinguishes bool/int/float and 0.0/-0.0."""
    if type(a) is not type(b):
        return False
    if isinstance(a, dict):
        return list(a.keys()) == list(b.keys()) and all(
            same_doc(a[k], b[k]) for k in a
        )
    if isinstance(a, list):
        return len(a) == len(b) and all(same_doc(x, y) for x, y in zip(a, b))
    if isinstance(a, float):
        return a == b and math.copysign(1.0, a) == math.copysign(1.0, b)
    return a == b


def rand_form(rng):
    form = {}
    for _ in range(rng.randint(0, 5)):
        key = rand_str(rng) or 'k'
        if rng.random() < 0.3:
            form[key] = [rand_str(rng) for _ in range(rng.randint(2, 4))]
        else:
            form[key] = rand_str(rng)
    return form


def rand_chunking(rng, body):
    """Split body in a random list of chunks (possibly with empty chunks)."""
    if not body:
        return rng.choice([[], [b''], [b'', b'']])
    mode = rng.randrange(4)
    if mode == 0:
        return [body]
    if mode == 1:
        return [body[i : i + 1] for i in range(len(body))]
    cuts = sorted(rng.randint(0, len(body)) for _ in range(rng.randint(1, 6)))
    out, prev = [], 0
    for c in cuts + [len(body)]:
        out.append(body[prev:c])
        prev = c
    return out


JSON_TYPES = [
    'application/json',
    'application/json; charset=utf-8',
    'application/json;charset=UTF-8',
    'application/json; charset="utf-8"; foo=bar',
    None,  # falls back on the default media type (JSON)
    '',
    '*/*',
    'application/vnd.acme.thing+json',  # registered explicitly below
    'application/problem+json; charset=utf-8',  # registered explicitly below
]
FORM_TYPES = [
    'application/x-www-form-urlencoded',
    'application/x-www-form-urlencoded; charset=utf-8',
]


def make_handlers():
    h = falcon_media.Handlers()
    h['application/vnd.acme.thing+json'] = falcon_media.JSONHandler()
    h['application/problem+json'] = falcon_media.JSONHandler()
    return h


# ------------------------------------------------------------------- plumbing
class CountingInput(io.BytesIO):
    """wsgi.input that counts how often it is touched."""

    def __init__(self, data):
        super().__init__(data)
        self.touched = 0

    def read(self, *a):
        self.touched += 1
        return super().read(*a)

    def readline(self, *a):
        self.touched += 1
        return super().readline(*a)

    def readinto(self, *a):  # pragma: no cover
        self.touched += 1
        return super().readinto(*a)


def wsgi_request(body, content_type, with_length=True):
    headers = {}
    if content_type is not None:
        headers['Content-Type'] = content_type
    env = testing.create_environ(method='POST', headers=headers, body=body)
    inp = CountingInput(body)
    env['wsgi.input'] = inp
    if not with_length:
        env.pop('CONTENT_LENGTH', None)
    opts = falcon.RequestOptions()
    opts.media_handlers = make_handlers()
    return falcon.Request(env, options=opts), inp


class Receiver:
    """ASGI receive() callable that plays a given chunking."""

    def __init__(self, chunks):
        self.events = []
        if not chunks:
            self.events.append({'type': 'http.request'})
        for i, c in enumerate(chunks):
            self.events.append(
                {'type': 'http.request', 'body': c, 'more_body': i < len(chunks) - 1}
            )
        self.touched = 0

    async def __call__(self):
        self.touched += 1
        if self.events:
            return self.events.pop(0)
        return {'type': 'http.disconnect'}


def asgi_request(chunks, content_type, with_length=True):
    body = b''.join(chunks)
    headers = []
    if content_type is not None:
        headers.append(('Content-Type', content_type))
    scope = testing.create_scope(
        method='POST',
        headers=headers,
        content_length=len(body) if with_length else None,
    )
    recv = Receiver(chunks)
    opts = falcon.RequestOptions()
    opts.media_handlers = make_handlers()
    return falcon.asgi.Request(scope, recv, options=opts), recv


def resp_options():
    opts = falcon.ResponseOptions()
    opts.media_handlers = make_handlers()
    return opts


def render_wsgi(doc, content_type):
    resp = falcon.Response(options=resp_options())
    if content_type is not None:
        resp.content_type = content_type
    resp.media = doc
    first = resp.render_body()
    second = resp.render_body()
    return resp, first, second


def render_asgi(doc, content_type):
    async def go():
        resp = falcon.asgi.Response(options=resp_options())
        if content_type is not None:
            resp.content_type = content_type
        resp.media = doc
        first = await resp.render_body()
        second = await resp.render_body()
        return resp, first, second

    return run(go())


# -------------------------------------------------------------- the histories
SENTINELS = [None, {}, [], 0, '', 'dflt', object()]


def rand_history(rng):
    """A sequence of get_media()/media accesses: 'unset', 'prop' or a default."""
    out = []
    for _ in range(rng.randint(2, 7)):
        k = rng.randrange(4)
        if k == 0:
            out.append(('prop', None))
        elif k == 1:
            out.append(('call', falcon_unset()))
        else:
            out.append(('call', rng.choice(SENTINELS)))
    return out


class _NoArg:
    pass


NOARG = _NoArg()


def falcon_unset():
    return NOARG


def model_outcome(kind, body):
    """Reference model of what parsing `body` gives for JSON or a form."""
    if kind == 'json':
        if not body:
            return ('notfound', None)
        try:
            return ('value', json.loads(body.decode('utf-8')))
        except ValueError:  # includes UnicodeDecodeError and JSONDecodeError
            return ('malformed', None)
    # forms: the outcome for a valid body is supplied by the caller
    raise AssertionError


def play_history(kind, expected, history, body, chunks, content_type, label):
    """Play one history on WSGI and ASGI and compare with the model.

    expected: ('value', doc) | ('notfound', None) | ('malformed', None)
    """
    for side in ('wsgi', 'asgi'):
        if side == 'wsgi':
            req, src = wsgi_request(body, content_type)
        else:
            req, src = asgi_request(chunks, content_type)

        def access(step):
            how, arg = step
            if side == 'wsgi':
                if how == 'prop':
                    return req.media
                if arg is NOARG:
                    return req.get_media()
                return req.get_media(default_when_empty=arg)

            async def go():
                if how == 'prop':
                    return await req.media
                if arg is NOARG:
                    return await req.get_media()
                return await req.get_media(arg)

            return run(go())

        first_value = NOARG
        first_error = None
        touched_after_first = None
        for i, step in enumerate(history):
            tag = '%s %s step %d %r' % (label, side, i, step[0])
            try:
                got = access(step)
                exc = None
            except Exception as e:  # noqa
                got, exc = None, e

            if touched_after_first is None:
                touched_after_first = src.touched
            else:
                check(
                    src.touched == touched_after_first,
                    tag + ': stream touched again (%d -> %d)'
                    % (touched_after_first, src.touched),
                )

            has_default = step[0] == 'call' and step[1] is not NOARG
            if expected[0] == 'value':
                check(exc is None, tag + ': unexpected %r' % (exc,))
                if exc is None:
                    check(same_doc(got, expected[1]), tag + ': wrong document %r' % (got,))
                    if first_value is NOARG:
                        first_value = got
                    else:
                        check(got is first_value, tag + ': not the cached object')
            elif expected[0] == 'notfound':
                if has_default:
                    check(exc is None and got is step[1], tag + ': default not returned')
                else:
                    check(
                        isinstance(exc, errors.MediaNotFoundError),
                        tag + ': expected MediaNotFoundError, got %r/%r' % (got, exc),
                    )
                    if isinstance(exc, Exception):
                        check(exc.status_code == 400, tag + ': status')
                        if first_error is None:
                            first_error = exc
                        else:
                            check(exc is first_error, tag + ': not the cached error')
                # the error is cached even when a default masked it
                check(
                    isinstance(req._media_error, errors.MediaNotFoundError)
                    and (first_error is None or req._media_error is first_error),
                    tag + ': cached error',
                )
                if first_error is None:
                    first_error = req._media_error
            else:
                check(
                    isinstance(exc, errors.MediaMalformedError)
                    and not isinstance(exc, errors.MediaNotFoundError),
                    tag + ': expected MediaMalformedError, got %r/%r' % (got, exc),
                )
                if isinstance(exc, Exception):
                    check(
                        isinstance(exc, falcon.HTTPBadRequest) and exc.status_code == 400,
                        tag + ': not a 400',
                    )
                    check(exc.__cause__ is not None, tag + ': cause lost')
                    if first_error is None:
                        first_error = exc
                    else:
                        check(exc is first_error, tag + ': not the cached error')


def bad_json_bodies(rng, doc_body):
    out = [
        b'{',
        b'[1,',
        b'{"a":}',
        b'nul',
        b'\xff\xfe',
        b'\xc3',
        b'"\xed\xa0\x80"',
        b'{"a": 1} x',
        b' ',
        b'\n',
        b'\x00',
        '{"a": "é"}'.encode('latin-1'),
        '{"a": 1}'.encode('utf-16'),
        '{"a": 1}'.encode('utf-32'),
        b'\xef\xbb\xbf{"a": 1}',
        b"{'a': 1}",
    ]
    if len(doc_body) > 1:
        cut = doc_body[: rng.randint(1, len(doc_body) - 1)]
        out.append(cut)
    return out


def core_checks(seed, n_docs=120, n_forms=80):
    rng = random.Random(seed)
    form_handler = falcon_media.URLEncodedFormHandler()
    json_handler = falcon_media.JSONHandler()

    # ---- JSON: response media -> body -> request media, with histories
    docs = [
        None,
        {},
        [],
        '',
        0,
        False,
        0.0,
        -0.0,
        {'': ''},
        [[[[[]]]]],
        {'a': {'b': {'c': [1, 2.5, 'x', None, True]}}},
        '\U0001f600"\\ \x00',
        2**200,
        -(2**64),
    ]
    docs += [rand_doc(rng) for _ in range(n_docs)]
    for n, doc in enumerate(docs):
        ct = JSON_TYPES[n % len(JSON_TYPES)]
        label = 'json doc #%d ct=%r' % (n, ct)
        ref = json.dumps(doc, ensure_ascii=False).encode('utf-8')

        resp, b1, b2 = render_wsgi(doc, ct)
        aresp, a1, a2 = render_asgi(doc, ct)
        if doc is None:
            # media None means "no media": nothing is rendered
            check(b1 is None and a1 is None, label + ': None media rendered')
            continue
        check(b1 == ref, label + ': wsgi body differs from reference')
        check(a1 == ref, label + ': asgi body differs from reference')
        check(b1 is b2 and a1 is a2, label + ': rendering not cached')
        check(resp._media_rendered is b1, label + ': cache slot')
        sent_ct = resp.content_type
        check(sent_ct == (ct or falcon.MEDIA_JSON), label + ': content type %r' % sent_ct)
        check(aresp.content_type == sent_ct, label + ': asgi content type')
        # re-assigning media invalidates the rendering cache
        resp.media = [doc]
        check(
            resp.render_body() == json.dumps([doc], ensure_ascii=False).encode(),
            label + ': stale rendering after re-assignment',
        )
        check(same_doc(json_handler.deserialize(io.BytesIO(b1), sent_ct, len(b1)), doc),
              label + ': handler round trip')

        play_history(
            'json', ('value', doc), rand_history(rng), b1, rand_chunking(rng, b1),
            sent_ct, label,
        )

        if n % 4 == 0:
            play_history(
                'json', ('notfound', None), rand_history(rng), b'',
                rand_chunking(rng, b''), sent_ct, label + ' empty',
            )
        if n % 3 == 0:
            bad = rng.choice(bad_json_bodies(rng, b1))
            exp = model_outcome('json', bad)
            if exp[0] == 'value':
                # a truncated scalar such as b'12' out of b'123' is still valid
                exp = ('value', exp[1])
            play_history(
                'json', exp, rand_history(rng), bad, rand_chunking(rng, bad),
                sent_ct, label + ' bad=%r' % bad,
            )

    # every fixed undecodable body, once, on both sides
    for bad in bad_json_bodies(rng, b'{"k": [1, 2, 3]}'):
        exp = model_outcome('json', bad)
        play_history(
            'json', exp, [('call', NOARG), ('call', 'd'), ('prop', None)], bad,
            rand_chunking(rng, bad), 'application/json', 'bad json %r' % bad,
        )

    # ---- forms
    forms = [{}, {'a': ''}, {'a': 'b'}, {'a': ['1', '2']}, {'k': 'x,y'}, {'\U0001f600': '&=+%'}]
    forms += [rand_form(rng) for _ in range(n_forms)]
    for n, form in enumerate(forms):
        ct = FORM_TYPES[n % len(FORM_TYPES)]
        label = 'form #%d ct=%r' % (n, ct)
        ref = urlencode(form, doseq=True).encode()
        resp, b1, b2 = render_wsgi(form, ct)
        aresp, a1, a2 = render_asgi(form, ct)
        check(b1 == ref and a1 == ref, label + ': body differs from reference')
        check(b1 is b2 and a1 is a2, label + ': rendering not cached')
        check(form_handler.serialize(form, ct) == ref, label + ': handler body')
        play_history(
            'form', ('value', form), rand_history(rng), b1, rand_chunking(rng, b1),
            ct, label,
        )

    # empty form body gives {} (never an error, default ignored)
    play_history(
        'form', ('value', {}), [('call', 'd'), ('call', NOARG), ('prop', None)], b'',
        [], FORM_TYPES[0], 'empty form',
    )
    for bad in [b'a=\xff', b'\xe9=1', 'a=é'.encode('utf-8'), b'a=%ff', b'a=%c3%28',
                b'%ed%a0%80=1', 'a=b'.encode('utf-16')]:
        for side in ('wsgi', 'asgi'):
            if side == 'wsgi':
                req, src = wsgi_request(bad, FORM_TYPES[0])
                get = lambda *a: req.get_media(*a)  # noqa
            else:
                req, src = asgi_request(rand_chunking(rng, bad), FORM_TYPES[0])
                get = lambda *a: run(req.get_media(*a))  # noqa
            seen = []
            for args in [(), ('d',), ()]:
                try:
                    seen.append(('value', get(*args)))
                except errors.MediaMalformedError as e:
                    check(e.status_code == 400, 'bad form %r: status' % bad)
                    seen.append(('error', e))
                except Exception as e:  # noqa
                    check(False, 'bad form %r on %s: server error %r' % (bad, side, e))
                    seen.append(('other', e))
            check(
                all(s[0] == seen[0][0] and s[1] is seen[0][1] for s in seen),
                'bad form %r on %s: outcome not cached: %r' % (bad, side, seen),
            )
            if bad in (b'a=\xff', b'\xe9=1', 'a=é'.encode('utf-8')):
                check(seen[0][0] == 'error', 'bad form %r on %s accepted' % (bad, side))


def app_checks(seed, n=40):
    """End-to-end through falcon.App and falcon.asgi.App (covers the copy of
    render_body() that is inlined in asgi.App.__call__)."""
    rng = random.Random(seed)

    class Echo:
        def on_post(self, req, resp):
            first = req.get_media()
            assert req.get_media() is first and req.media is first
            resp.content_type = req.content_type
            resp.media = first

    class EchoAsync:
        async def on_post(self, req, resp):
            first = await req.get_media()
            assert (await req.get_media()) is first and (await req.media) is first
            resp.content_type = req.content_type
            resp.media = first

    class Dflt:
        def on_post(self, req, resp):
            resp.media = {'got': req.get_media(default_when_empty='fallback')}

    class DfltAsync:
        async def on_post(self, req, resp):
            resp.media = {'got': await req.get_media(default_when_empty='fallback')}

    wapp = falcon.App()
    wapp.add_route('/echo', Echo())
    wapp.add_route('/dflt', Dflt())
    aapp = falcon.asgi.App()
    aapp.add_route('/echo', EchoAsync())
    aapp.add_route('/dflt', DfltAsync())
    for client in (testing.TestClient(wapp), testing.TestClient(aapp)):
        name = type(client.app).__module__
        for i in range(n):
            doc = rand_doc(rng)
            if doc is None:
                doc = [None]
            body = json.dumps(doc, ensure_ascii=False).encode()
            ct = rng.choice(['application/json', 'application/json; charset=utf-8'])
            r = client.simulate_post('/echo', body=body, headers={'Content-Type': ct})
            check(r.status_code == 200, '%s echo #%d status %s' % (name, i, r.status))
            check(r.content == body, '%s echo #%d body' % (name, i))
            check(r.headers.get('content-type') == ct, '%s echo #%d ct' % (name, i))

            form = rand_form(rng)
            fbody = urlencode(form, doseq=True).encode()
            r = client.simulate_post(
                '/echo', body=fbody,
                headers={'Content-Type': 'application/x-www-form-urlencoded'},
            )
            check(r.status_code == 200 and r.content == fbody,
                  '%s form echo #%d' % (name, i))

        r = client.simulate_post('/echo', body=b'', headers={'Content-Type': 'application/json'})
        check(r.status_code == 400, name + ' empty json -> %s' % r.status)
        r = client.simulate_post('/dflt', body=b'', headers={'Content-Type': 'application/json'})
        check(r.status_code == 200 and r.json == {'got': 'fallback'}, name + ' default')
        for bad in (b'{', b'\xff', '{"a": 1}'.encode('utf-16')):
            for path in ('/echo', '/dflt'):
                r = client.simulate_post(
                    path, body=bad, headers={'Content-Type': 'application/json'}
                )
                check(r.status_code == 400, name + ' bad %r -> %s' % (bad, r.status))
        r = client.simulate_post(
            '/echo', body=b'a=\xff',
            headers={'Content-Type': 'application/x-www-form-urlencoded'},
        )
        check(r.status_code == 400, name + ' bad form -> %s' % r.status)
        r = client.simulate_post('/echo', body=b'x', headers={'Content-Type': 'text/x-nope'})
        check(r.status_code == 415, name + ' unsupported -> %s' % r.status)
# ------------------------------------------------------------- end of the core
# ---------------------------------------------------------------------------
# Change 2 specific: how JSONHandler.__init__ wires (de)serialization for
# str-returning and bytes-returning dumps, for subclasses, and for custom loads.
# ---------------------------------------------------------------------------
import functools


def handler_wiring():
    rng = random.Random(77)
    probes = []

    def dumps_str(obj):
        probes.append(('s', obj))
        return json.dumps(obj, ensure_ascii=False)

    def dumps_bytes(obj):
        probes.append(('b', obj))
        return json.dumps(obj, ensure_ascii=False).encode('utf-8')

    def dumps_ascii(obj):
        return json.dumps(obj)  # ensure_ascii=True

    loads_calls = []

    def loads(s):
        loads_calls.append(s)
        return json.loads(s)

    class Sub(falcon_media.JSONHandler):
        pass

    class SubOverride(falcon_media.JSONHandler):
        def serialize(self, media, content_type=None):  # shadowed by __init__
            return b'never'

    configs = [
        ('default', falcon_media.JSONHandler, {}, 's'),
        ('str', falcon_media.JSONHandler, {'dumps': dumps_str, 'loads': loads}, 's'),
        ('bytes', falcon_media.JSONHandler, {'dumps': dumps_bytes}, 'b'),
        ('ascii', falcon_media.JSONHandler, {'dumps': dumps_ascii}, 's'),
        ('partial', falcon_media.JSONHandler,
         {'dumps': functools.partial(json.dumps, ensure_ascii=False, sort_keys=False)}, 's'),
        ('sub', Sub, {}, 's'),
        ('sub-bytes', Sub, {'dumps': dumps_bytes}, 'b'),
        ('sub-override', SubOverride, {'dumps': dumps_bytes}, 'b'),
    ]
    for name, cls, kwargs, flavour in configs:
        del probes[:]
        h = cls(**kwargs)
        label = 'wiring ' + name
        if 'dumps' in kwargs and kwargs['dumps'] in (dumps_str, dumps_bytes):
            check(
                probes == [(flavour, {'message': 'Hello World'})],
                label + ': probe calls %r' % (probes,),
            )
            check(h._dumps is kwargs['dumps'], label + ': _dumps')
        check(h._loads is kwargs.get('loads', json.loads), label + ': _loads')

        # bound implementations (instance attributes shadow the class)
        want_sync = h._serialize_s if flavour == 's' else h._serialize_b
        want_async = h._serialize_async_s if flavour == 's' else h._serialize_async_b
        check(h.serialize == want_sync, label + ': serialize binding')
        check(h.serialize_async == want_async, label + ': serialize_async binding')
        check('serialize' in vars(h) and 'serialize_async' in vars(h), label + ': vars')

        exact = cls is falcon_media.JSONHandler
        if exact:
            check(h._serialize_sync == h.serialize, label + ': _serialize_sync')
            check(h._deserialize_sync == h._deserialize, label + ': _deserialize_sync')
        else:
            check(h._serialize_sync is None, label + ': sub _serialize_sync')
            check(h._deserialize_sync is None, label + ': sub _deserialize_sync')

        # the wiring round-trips documents, on both protocols, once installed
        for i in range(25):
            doc = rand_doc(rng)
            if doc is None:
                doc = {'n': None}
            if name == 'ascii':
                ref = json.dumps(doc).encode()
            else:
                ref = json.dumps(doc, ensure_ascii=False).encode()
            ct = 'application/json'
            body = h.serialize(doc, ct)
            check(type(body) is bytes and body == ref, label + ' #%d: body' % i)
            check(run(h.serialize_async(doc, ct)) == ref, label + ' #%d: async body' % i)
            check(same_doc(h.deserialize(io.BytesIO(body), ct, len(body)), doc),
                  label + ' #%d: deserialize' % i)

            ropts = falcon.ResponseOptions()
            ropts.media_handlers[ct] = h
            qopts = falcon.RequestOptions()
            qopts.media_handlers[ct] = h
            resp = falcon.Response(options=ropts)
            resp.media = doc
            check(resp.render_body() == ref, label + ' #%d: wsgi render' % i)

            async def arender():
                aresp = falcon.asgi.Response(options=ropts)
                aresp.media = doc
                return await aresp.render_body()

            check(run(arender()) == ref, label + ' #%d: asgi render' % i)

            env = testing.create_environ(
                method='POST', body=ref, headers={'Content-Type': ct}
            )
            req = falcon.Request(env, options=qopts)
            got = req.get_media()
            check(same_doc(got, doc) and req.get_media() is got, label + ' #%d: wsgi req' % i)

            chunks = rand_chunking(rng, ref)
            scope = testing.create_scope(
                method='POST', headers=[('Content-Type', ct)], content_length=len(ref)
            )
            areq = falcon.asgi.Request(scope, Receiver(chunks), options=qopts)

            async def aget():
                first = await areq.get_media()
                return first, (await areq.get_media()) is first

            got, cached = run(aget())
            check(same_doc(got, doc) and cached, label + ' #%d: asgi req' % i)

        # error mapping is part of the same wiring
        for bad, exc_type in [(b'', errors.MediaNotFoundError),
                              (b'{', errors.MediaMalformedError),
                              (b'\xff', errors.MediaMalformedError)]:
            for how in ('sync', 'async', 'fast'):
                try:
                    if how == 'sync':
                        h.deserialize(io.BytesIO(bad), 'application/json', len(bad))
                    elif how == 'async':

                        class S:
                            async def read(self):
                                return bad

                        run(h.deserialize_async(S(), 'application/json', len(bad)))
                    else:
                        h._deserialize(bad)
                    check(False, label + ' %r accepted' % bad)
                except errors.HTTPBadRequest as e:
                    check(type(e) is exc_type and e.status_code == 400,
                          label + ' %r -> %r' % (bad, e))

    check(len(loads_calls) > 0, 'custom loads never used')

    # a dumps that fails on the probe fails the constructor the same way
    class Unlucky(Exception):
        pass

    def dumps_fail(obj):
        raise Unlucky()

    try:
        falcon_media.JSONHandler(dumps=dumps_fail)
        check(False, 'failing dumps accepted')
    except Unlucky:
        check(True, '')


def specific_checks():
    handler_wiring()


if __name__ == '__main__':
    specific_checks()
    core_checks(seed=20261001)
    app_checks(seed=7)
    finish()
