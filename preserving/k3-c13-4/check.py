"""Property C13 check: multipart forms parse to exactly the parts that were
encoded, however consumed (WSGI and ASGI parsers, all transport chunkings,
all consumption patterns, limits at their thresholds, corrupted bodies).

Run as:  PYTHONPATH=<falcon tree> /venv/bin/python check.py

FOCUS (set below) only scales up the number of generated cases of the section
that is closest to the delivered change; every section always runs.
"""

import asyncio
import io
import json
import random
import signal
import sys
from urllib.parse import quote

import falcon
import falcon.asgi
from falcon import errors
from falcon import testing
from falcon.asgi.reader import BufferedReader as AsyncReader
from falcon.media.multipart import MultipartFormHandler
from falcon.media.multipart import MultipartParseError
from falcon.media.multipart import MultipartParseOptions
from falcon.util import BufferedReader as SyncReader

FOCUS = 'limits'

# A hang is a property violation, too: bail out loudly instead of hanging.
signal.signal(signal.SIGALRM, lambda *a: (_ for _ in ()).throw(SystemExit('HANG')))
signal.alarm(600)

RNG = random.Random(0xC13)
FAILURES = []
COUNTS = {}


def fail(section, msg):
    FAILURES.append('[{}] {}'.format(section, msg))
    if len(FAILURES) > 25:
        report()


def count(section, n=1):
    COUNTS[section] = COUNTS.get(section, 0) + n


def report():
    if FAILURES:
        print('FAIL ({} failures)'.format(len(FAILURES)))
        for line in FAILURES[:25]:
            print('  ' + line[:600])
        sys.exit(1)
    print('cases per section: {}'.format(COUNTS))
    print('PASS')
    sys.exit(0)


# ---------------------------------------------------------------------------
# Reference encoder
# ---------------------------------------------------------------------------

BCHARS = "0123456789abcdefghijklmnopqrstuvwxyzABCDEFGHIJKLMNOPQRSTUVWXYZ'()+_,-./:=?"
NAME_CHARS = 'abcXYZ019 _-.=,/é€世'


def gen_boundary():
    mode = RNG.random()
    if mode < 0.15:
        length = 1
    elif mode < 0.3:
        length = 70
    elif mode < 0.4:
        # NOTE: dashes only; the nastiest boundaries wrt the closing '--'.
        return '-' * RNG.choice([1, 2, 3, 7])
    else:
        length = RNG.randint(2, 69)
    boundary = ''.join(RNG.choice(BCHARS) for _ in range(length))
    # NOTE: A boundary must not end with white space (n/a here), and the
    #   header value is passed unquoted in some cases.
    return boundary


def gen_content(boundary, kind):
    delimiter = b'\r\n--' + boundary.encode()
    if kind == 'json':
        doc = RNG.choice(
            [
                {'a': 1},
                [1, 2, 3, 'x--y'],
                'str\r\n--ing',
                {'nested': {'k': [None, True, 1.5]}, 'u': '€'},
                0,
                {'pad': 'z' * RNG.randint(0, 300)},
            ]
        )
        return json.dumps(doc).encode()
    if kind == 'text':
        alphabet = ['a', 'b', '-', '\r', '\n', '\r\n', '--', ' ', '€', 'é']
        alphabet.append('\r\n--' + boundary[: RNG.randint(0, len(boundary) - 1)])
        while True:
            n = RNG.choice([0, 1, 2, 5, 17, 64, 300])
            data = ''.join(RNG.choice(alphabet) for _ in range(n)).encode()
            if delimiter not in data + b'\r\n--':
                return data

    pieces = [
        b'\r',
        b'\n',
        b'\r\n',
        b'-',
        b'--',
        b'\r\n-',
        b'\r\n--',
        b'\x00',
        b'\xff',
        b'x',
        b': ',
        b'\r\n\r\n',
        b'--' + boundary.encode(),
        b'\n--' + boundary.encode(),
        b'\r--' + boundary.encode() + b'--',
    ]
    bb = boundary.encode()
    for cut in {0, 1, len(bb) // 2, len(bb) - 1}:
        pieces.append(b'\r\n--' + bb[:cut])
    while True:
        mode = RNG.random()
        if mode < 0.1:
            n = 0
        elif mode < 0.8:
            n = RNG.randint(1, 40)
        elif mode < 0.95:
            n = RNG.randint(40, 400)
        else:
            n = RNG.randint(2000, 6000)
        data = b''.join(RNG.choice(pieces) for _ in range(n))
        if RNG.random() < 0.3:
            data += bytes(RNG.randrange(256) for _ in range(RNG.randint(1, 50)))
        # NOTE: The content followed by the next delimiter must not contain
        #   the delimiter any earlier.
        if delimiter not in data + delimiter[:-1]:
            return data


class Part:
    def __init__(self, boundary):
        self.kind = RNG.choice(['bin', 'bin', 'bin', 'text', 'text', 'json'])
        self.content = gen_content(boundary, self.kind)

        if RNG.random() < 0.08:
            self.name = None
        else:
            self.name = ''.join(
                RNG.choice(NAME_CHARS) for _ in range(RNG.randint(1, 12))
            ).strip() or 'n'

        self.filename = None
        fn_mode = RNG.choice(['none', 'none', 'plain', 'ext', 'ext-latin', 'both'])
        disposition = 'form-data'
        if self.name is not None:
            disposition += '; name="{}"'.format(self.name)
        base = ''.join(RNG.choice(NAME_CHARS) for _ in range(RNG.randint(1, 10)))
        base = base.strip() or 'f'
        if fn_mode in ('plain', 'both'):
            self.filename = base + '.txt'
            disposition += '; filename="{}"'.format(self.filename)
        if fn_mode in ('ext', 'both'):
            self.filename = base + '€.bin'
            disposition += "; filename*=UTF-8''{}".format(quote(self.filename, safe=''))
        if fn_mode == 'ext-latin':
            self.filename = 'café ' + ''.join(c for c in base if ord(c) < 256)
            disposition += "; filename*=iso-8859-1'en'{}".format(
                quote(self.filename, safe='', encoding='latin-1')
            )

        if self.kind == 'json':
            self.content_type_header = RNG.choice(
                ['application/json', 'application/json; charset=utf-8']
            )
        elif self.kind == 'text':
            self.content_type_header = RNG.choice(
                [None, 'text/plain', 'text/plain; charset=utf-8', 'TEXT/PLAIN']
            )
        else:
            self.content_type_header = RNG.choice(
                [
                    None,
                    'application/octet-stream',
                    'text/plain; charset=latin-1',
                    'text/plain; charset=nonexistent',
                    'text/plain',
                    'image/png',
                ]
            )

        headers = []
        cd_name = RNG.choice(
            ['Content-Disposition', 'content-disposition', 'CONTENT-DISPOSITION']
        )
        headers.append((cd_name, disposition))
        if self.content_type_header is not None:
            headers.append(
                (RNG.choice(['Content-Type', 'content-type']), self.content_type_header)
            )
        if RNG.random() < 0.15:
            headers.append(('Content-Transfer-Encoding', 'binary'))
        if RNG.random() < 0.2:
            headers.append(('X-Ignored', 'some: thing; name="bogus"'))
        if RNG.random() < 0.1:
            headers.append(('Content-Length', str(len(self.content))))
        RNG.shuffle(headers)
        self.headers_block = '\r\n'.join(
            '{}: {}'.format(k, v) for k, v in headers
        ).encode()

    @property
    def content_type(self):
        return self.content_type_header or 'text/plain'

    def expected_text(self):
        """Return ('ok', text-or-None) or ('err', None)."""
        main, _, params = self.content_type.partition(';')
        if main.strip() != 'text/plain':
            return ('ok', None)
        charset = 'utf-8'
        if 'charset=' in params:
            charset = params.split('charset=')[1].strip()
        try:
            return ('ok', self.content.decode(charset))
        except (ValueError, LookupError):
            return ('err', 'MultipartParseError')


class Form:
    def __init__(self, nparts=None, small=False):
        self.boundary = gen_boundary()
        if nparts is None:
            nparts = RNG.choice([0, 1, 1, 2, 2, 3, 4, 6])
        self.parts = [Part(self.boundary) for _ in range(nparts)]
        bb = self.boundary.encode()

        self.preamble = b''
        if RNG.random() < 0.3:
            while True:
                self.preamble = RNG.choice(
                    [b'preamble', b'--', b'\r\n', b'-' + bb[:-1], b'This is\r\n--a preamble']
                )
                if b'--' + bb not in self.preamble + b'\r\n--' + bb[:-1]:
                    break
        self.epilogue = b''
        if RNG.random() < 0.3:
            self.epilogue = RNG.choice(
                [b'epilogue', b'\r\n', b'--', b'--' + bb + b'\r\n', b'\r\n--' + bb + b'--']
            )
        self.final_crlf = RNG.random() < 0.6

        out = []
        if self.preamble:
            out.append(self.preamble + b'\r\n')
        for part in self.parts:
            out.append(b'--' + bb + b'\r\n')
            out.append(part.headers_block + b'\r\n\r\n')
            out.append(part.content + b'\r\n')
        out.append(b'--' + bb + b'--')
        if self.final_crlf:
            out.append(b'\r\n')
        out.append(self.epilogue)
        self.body = b''.join(out)

        style = RNG.random()
        if style < 0.5 or any(c in self.boundary for c in "()/:=?,'"):
            self.content_type = 'multipart/form-data; boundary="{}"'.format(self.boundary)
        elif style < 0.8:
            self.content_type = 'multipart/form-data; boundary={}'.format(self.boundary)
        else:
            self.content_type = 'multipart/form-data; charset=utf-8; BOUNDARY={}  '.format(
                self.boundary
            )

    @property
    def delimiter_len(self):
        return len(self.boundary) + 4


# ---------------------------------------------------------------------------
# Consumption patterns and the reference model
# ---------------------------------------------------------------------------


def gen_pattern(part):
    n = len(part.content)
    choices = ['skip', 'read', 'readall', 'data', 'text', 'until', 'chunks', 'meta-only']
    if part.kind == 'json':
        choices += ['media', 'media']
    kind = RNG.choice(choices)
    if kind == 'read':
        return ('read', RNG.choice([0, 1, 2, max(n - 1, 0), n, n + 1, n // 2, n + 100]))
    if kind == 'until':
        return ('until', RNG.choice([b'\n', b'\r\n', b'--', b'-', b'\r\n--', b'x', b'\x00']))
    if kind == 'chunks':
        return ('chunks', RNG.choice([1, 2, 3, 7, 64, 1000]))
    return (kind,)


def expected_consumption(part, pattern, options):
    kind = pattern[0]
    if kind in ('skip', 'meta-only'):
        return ('ok', None)
    if kind == 'read':
        return ('ok', part.content[: pattern[1]])
    if kind in ('readall', 'chunks'):
        return ('ok', part.content)
    if kind == 'until':
        return ('ok', part.content.split(pattern[1], 1)[0])
    if kind == 'data':
        if len(part.content) > options.max_body_part_buffer_size:
            return ('err', 'MultipartParseError')
        return ('ok', part.content)
    if kind == 'text':
        main = part.content_type.partition(';')[0].strip()
        if main != 'text/plain':
            return ('ok', None)
        if len(part.content) > options.max_body_part_buffer_size:
            return ('err', 'MultipartParseError')
        return part.expected_text()
    if kind == 'media':
        return ('ok', json.loads(part.content.decode()))
    raise AssertionError(kind)


META_ORDERS = [
    ('name', 'filename', 'content_type'),
    ('filename', 'name', 'content_type'),
    ('content_type', 'filename', 'name', 'filename', 'name'),
    ('name', 'name'),
    ('filename',),
    ('filename', 'filename', 'name'),
    (),
]


def read_meta(part, order):
    got = {}
    for attr in order:
        value = getattr(part, attr)
        if attr in got and got[attr] != value:
            raise AssertionError('unstable attribute {}'.format(attr))
        got[attr] = value
    for attr in ('name', 'filename', 'content_type'):
        got[attr] = getattr(part, attr)
    return (got['name'], got['filename'], got['content_type'])


def consume_sync(part, pattern):
    kind = pattern[0]
    try:
        if kind in ('skip', 'meta-only'):
            return ('ok', None)
        if kind == 'read':
            return ('ok', part.stream.read(pattern[1]))
        if kind == 'readall':
            return ('ok', part.stream.read())
        if kind == 'until':
            return ('ok', part.stream.read_until(pattern[1]))
        if kind == 'chunks':
            out = []
            while True:
                chunk = part.stream.read(pattern[1])
                if not chunk:
                    break
                if len(chunk) > pattern[1]:
                    raise AssertionError('overlong read')
                out.append(chunk)
            return ('ok', b''.join(out))
        if kind == 'data':
            first = part.get_data()
            assert part.data is first
            return ('ok', first)
        if kind == 'text':
            return ('ok', part.get_text())
        if kind == 'media':
            first = part.get_media()
            assert part.media is first
            return ('ok', first)
    except MultipartParseError as ex:
        assert ex.status == falcon.HTTP_400
        return ('err', 'MultipartParseError')
    raise AssertionError(kind)


async def consume_async(part, pattern):
    kind = pattern[0]
    try:
        if kind in ('skip', 'meta-only'):
            return ('ok', None)
        if kind == 'read':
            return ('ok', await part.stream.read(pattern[1]))
        if kind == 'readall':
            return ('ok', await part.stream.read())
        if kind == 'until':
            return ('ok', await part.stream.read_until(pattern[1]))
        if kind == 'chunks':
            out = []
            while True:
                chunk = await part.stream.read(pattern[1])
                if not chunk:
                    break
                if len(chunk) > pattern[1]:
                    raise AssertionError('overlong read')
                out.append(chunk)
            return ('ok', b''.join(out))
        if kind == 'data':
            first = await part.get_data()
            assert (await part.data) is first
            return ('ok', first)
        if kind == 'text':
            return ('ok', await part.get_text())
        if kind == 'media':
            first = await part.get_media()
            assert (await part.media) is first
            return ('ok', first)
    except MultipartParseError as ex:
        assert ex.status == falcon.HTTP_400
        return ('err', 'MultipartParseError')
    raise AssertionError(kind)


# ---------------------------------------------------------------------------
# Transports
# ---------------------------------------------------------------------------


class ShortReadStream:
    """A WSGI-like input that returns at most `step` bytes per read()."""

    def __init__(self, data, step):
        self._data = data
        self._pos = 0
        self._step = step

    def read(self, size=-1):
        step = self._step if isinstance(self._step, int) else RNG.randint(1, 9)
        if size is None or size < 0:
            size = len(self._data)
        size = min(size, step)
        chunk = self._data[self._pos : self._pos + size]
        self._pos += len(chunk)
        return chunk


def sync_transports(form, quick=False):
    body = form.body
    dlen = form.delimiter_len
    yield 'bytesio', lambda: io.BytesIO(body)
    steps = [1, 7] if quick else [1, 2, 3, 7, 64, 'rnd']
    for step in steps:
        yield 'short-{}'.format(step), lambda step=step: ShortReadStream(body, step)
    sizes = [dlen + 1] if quick else [dlen, dlen + 1, dlen + 2, 2 * dlen + 3, 97, 1024]
    for chunk_size in sizes:
        if chunk_size < dlen or chunk_size < 4:
            continue
        yield 'reader-{}'.format(chunk_size), lambda chunk_size=chunk_size: SyncReader(
            ShortReadStream(body, 'rnd').read, len(body), chunk_size
        )


async def _aiter_chunks(body, step):
    pos = 0
    while pos < len(body):
        n = step if isinstance(step, int) else RNG.randint(1, 9)
        yield body[pos : pos + n]
        pos += n
        if RNG.random() < 0.05:
            yield b''
        if RNG.random() < 0.05:
            await asyncio.sleep(0)


def async_transports(form, quick=False):
    body = form.body
    dlen = form.delimiter_len
    yield 'whole', lambda: _aiter_chunks(body, max(len(body), 1))
    steps = [1] if quick else [1, 5, 'rnd', 1000]
    for step in steps:
        yield 'iter-{}'.format(step), lambda step=step: _aiter_chunks(body, step)
    sizes = [dlen + 1] if quick else [dlen, dlen + 1, dlen + 2, 2 * dlen + 3, 97, 1024]
    for chunk_size in sizes:
        if chunk_size < dlen or chunk_size < 4:
            continue
        for step in [1, 'rnd'] if not quick else ['rnd']:
            yield (
                'reader-{}-{}'.format(chunk_size, step),
                lambda chunk_size=chunk_size, step=step: AsyncReader(
                    _aiter_chunks(body, step), chunk_size=chunk_size
                ),
            )


# ---------------------------------------------------------------------------
# Running one scenario
# ---------------------------------------------------------------------------


def make_handler(options=None):
    handler = MultipartFormHandler()
    for key, value in (options or {}).items():
        setattr(handler.parse_options, key, value)
    return handler


def run_sync(handler, stream, content_type, content_length, patterns, orders, hook=None):
    observed = []
    try:
        form = handler.deserialize(stream, content_type, content_length)
        for index, part in enumerate(form):
            if hook:
                hook(handler, index)
            pattern = patterns[index] if index < len(patterns) else ('skip',)
            order = orders[index] if index < len(orders) else ()
            meta = read_meta(part, order)
            observed.append((meta, consume_sync(part, pattern)))
    except MultipartParseError as ex:
        assert ex.status == falcon.HTTP_400 and isinstance(ex, falcon.HTTPBadRequest)
        return observed, ('MultipartParseError', ex.description)
    return observed, ('ok', None)


async def run_async(handler, stream, content_type, content_length, patterns, orders, hook=None):
    observed = []
    try:
        form = await handler.deserialize_async(stream, content_type, content_length)
        index = 0
        async for part in form:
            if hook:
                hook(handler, index)
            pattern = patterns[index] if index < len(patterns) else ('skip',)
            order = orders[index] if index < len(orders) else ()
            meta = read_meta(part, order)
            observed.append((meta, await consume_async(part, pattern)))
            index += 1
    except MultipartParseError as ex:
        assert ex.status == falcon.HTTP_400 and isinstance(ex, falcon.HTTPBadRequest)
        return observed, ('MultipartParseError', ex.description)
    return observed, ('ok', None)


def arun(coro):
    return asyncio.run(coro)


def run_everywhere(section, form, patterns, orders, options, expected, quick=False, hook=None):
    """Run one (form, consumption, options) scenario over all transports."""
    label = 'boundary={!r} body={!r} patterns={!r} options={!r}'.format(
        form.boundary, form.body[:300], patterns, options
    )
    for tname, factory in sync_transports(form, quick):
        try:
            got = run_sync(
                make_handler(options),
                factory(),
                form.content_type,
                len(form.body),
                patterns,
                orders,
                hook,
            )
        except Exception as ex:
            got = ('EXC', repr(ex))
        count(section)
        if got != expected:
            fail(section, 'WSGI/{}: got {!r}\n    expected {!r}\n    {}'.format(
                tname, got, expected, label))
    for tname, factory in async_transports(form, quick):
        try:
            got = arun(
                run_async(
                    make_handler(options),
                    factory(),
                    form.content_type,
                    len(form.body),
                    patterns,
                    orders,
                    hook,
                )
            )
        except Exception as ex:
            got = ('EXC', repr(ex))
        count(section)
        if got != expected:
            fail(section, 'ASGI/{}: got {!r}\n    expected {!r}\n    {}'.format(
                tname, got, expected, label))


def model(form, patterns, options_dict, stop_after=None, stop_error=None):
    options = MultipartParseOptions()
    for key, value in options_dict.items():
        setattr(options, key, value)
    observed = []
    for index, part in enumerate(form.parts):
        if stop_after is not None and index >= stop_after:
            return observed, ('MultipartParseError', stop_error)
        pattern = patterns[index] if index < len(patterns) else ('skip',)
        meta = (part.name, part.filename, part.content_type)
        observed.append((meta, expected_consumption(part, pattern, options)))
    return observed, ('ok', None)


# ---------------------------------------------------------------------------
# Section A: valid forms x chunkings x consumption patterns
# ---------------------------------------------------------------------------


def section_valid(nforms):
    for _ in range(nforms):
        form = Form()
        patterns = [gen_pattern(p) for p in form.parts]
        orders = [RNG.choice(META_ORDERS) for p in form.parts]
        options = {}
        if RNG.random() < 0.3:
            options['max_body_part_buffer_size'] = RNG.choice([0, 1, 16, 100])
        expected = model(form, patterns, options)
        run_everywhere('valid', form, patterns, orders, options, expected)


# ---------------------------------------------------------------------------
# Section B: limits exactly at their thresholds
# ---------------------------------------------------------------------------

TOO_MANY = 'maximum number of form body parts exceeded'


def section_part_count(nforms):
    for _ in range(nforms):
        n = RNG.choice([1, 2, 3, 5, 8])
        form = Form(nparts=n)
        patterns = [gen_pattern(p) for p in form.parts]
        orders = [RNG.choice(META_ORDERS) for p in form.parts]
        for limit in sorted({0, 1, n - 1, n, n + 1, 64} - {-1}):
            options = {'max_body_part_count': limit}
            if limit == 0 or limit >= n:
                expected = model(form, patterns, options)
            else:
                expected = model(form, patterns, options, limit, TOO_MANY)
            run_everywhere('part-count', form, patterns, orders, options, expected, quick=True)

        # NOTE: The option object is shared with the handler and is consulted
        #   live while iterating: the number of parts allowed is fixed when
        #   iteration starts, but "0 == unlimited" is read at each part.
        limit = RNG.randint(1, n)
        switch_at = RNG.randint(0, n - 1)
        new_value = RNG.choice([0, 1, 1000])

        def hook(handler, index):
            if index == switch_at:
                handler.parse_options.max_body_part_count = new_value

        options = {'max_body_part_count': limit}
        if limit >= n:
            expected = model(form, patterns, options)
        elif new_value == 0 and switch_at < limit:
            # the check for part #limit+1 happens after part #switch_at+1 was seen
            expected = model(form, patterns, options)
        else:
            expected = model(form, patterns, options, limit, TOO_MANY)
        run_everywhere('part-count-live', form, patterns, orders, options, expected,
                       quick=True, hook=hook)


def section_buffer_size(nforms):
    for _ in range(nforms):
        form = Form(nparts=RNG.choice([1, 2, 3]))
        target = RNG.randrange(len(form.parts))
        size = len(form.parts[target].content)
        patterns = [('skip',)] * len(form.parts)
        patterns[target] = RNG.choice([('data',), ('text',)])
        orders = [RNG.choice(META_ORDERS) for p in form.parts]
        for limit in sorted({max(size - 1, 0), size, size + 1, 0}):
            options = {'max_body_part_buffer_size': limit}
            expected = model(form, patterns, options)
            run_everywhere('buffer-size', form, patterns, orders, options, expected, quick=True)


def section_headers_size(nforms):
    for _ in range(nforms):
        form = Form(nparts=RNG.choice([1, 2, 3]))
        patterns = [gen_pattern(p) for p in form.parts]
        orders = [RNG.choice(META_ORDERS) for p in form.parts]
        sizes = [len(p.headers_block) for p in form.parts]
        largest = max(sizes)
        for limit in (largest - 1, largest, largest + 1):
            options = {'max_body_part_headers_size': limit}
            offenders = [i for i, s in enumerate(sizes) if s > limit]
            if offenders:
                expected = model(
                    form, patterns, options, offenders[0], 'incomplete body part headers'
                )
            else:
                expected = model(form, patterns, options)
            run_everywhere('headers-size', form, patterns, orders, options, expected, quick=True)


# ---------------------------------------------------------------------------
# Section C: corrupted bodies -> MultipartParseError (400) or a clean parse,
#   never anything else; WSGI and ASGI agree.
# ---------------------------------------------------------------------------


def corrupt(body):
    mode = RNG.choice(['delete', 'insert', 'replace', 'truncate', 'dup'])
    if not body:
        return body + b'x'
    pos = RNG.randrange(len(body))
    if mode == 'delete':
        return body[:pos] + body[pos + 1 :]
    if mode == 'insert':
        return body[:pos] + RNG.choice([b'-', b'\r', b'\n', b'x', b'\r\n', b'--']) + body[pos:]
    if mode == 'replace':
        return body[:pos] + RNG.choice([b'-', b'\r', b'\n', b'x', b'\xff']) + body[pos + 1 :]
    if mode == 'truncate':
        return body[:pos]
    end = min(len(body), pos + RNG.randint(1, 30))
    return body[:end] + body[pos:end] + body[end:]


def normalize_outcome(result):
    observed, outcome = result
    return observed, outcome


def section_corrupt(nforms):
    for _ in range(nforms):
        form = Form(nparts=RNG.choice([1, 1, 2, 3]))
        # Structural corruption is most interesting near the framing.
        original = form.body
        if RNG.random() < 0.6:
            marker = b'--' + form.boundary.encode()
            positions = []
            start = 0
            while True:
                idx = original.find(marker, start)
                if idx < 0:
                    break
                positions.append(idx)
                start = idx + 1
            idx = RNG.choice(positions)
            lo = max(idx - 3, 0)
            hi = min(idx + len(marker) + 6, len(original))
            form.body = original[:lo] + corrupt(original[lo:hi]) + original[hi:]
        else:
            form.body = corrupt(original)

        patterns = [RNG.choice([('readall',), ('skip',), ('data',), ('read', 3)])
                    for _ in range(len(form.parts) + 2)]
        results = []
        for tname, factory in sync_transports(form, quick=True):
            try:
                got = run_sync(make_handler(), factory(), form.content_type,
                               len(form.body), patterns, [])
            except Exception as ex:
                got = ('EXC', repr(ex))
            results.append(('WSGI/' + tname, got))
        for tname, factory in async_transports(form, quick=True):
            try:
                got = arun(run_async(make_handler(), factory(), form.content_type,
                                     len(form.body), patterns, []))
            except Exception as ex:
                got = ('EXC', repr(ex))
            results.append(('ASGI/' + tname, got))
        count('corrupt', len(results))
        first = results[0][1]
        for tname, got in results:
            if got[0] == 'EXC':
                fail('corrupt', '{}: {!r} body={!r} boundary={!r}'.format(
                    tname, got, form.body, form.boundary))
            elif got != first:
                fail('corrupt', '{} disagrees with {}: {!r} vs {!r} body={!r} boundary={!r}'
                     .format(tname, results[0][0], got, first, form.body, form.boundary))


# ---------------------------------------------------------------------------
# Section D: hard-coded expectations (taken from the unmodified tree)
# ---------------------------------------------------------------------------


def parse_all_sync(body, content_type, options=None):
    handler = make_handler(options)
    out = []
    try:
        for part in handler.deserialize(io.BytesIO(body), content_type, len(body)):
            out.append((part.name, part.filename, part.content_type, part.stream.read()))
    except MultipartParseError as ex:
        return out, ex.description
    except falcon.HTTPInvalidHeader as ex:
        return out, 'HTTPInvalidHeader'
    return out, None


def parse_all_async(body, content_type, options=None):
    async def run():
        handler = make_handler(options)
        out = []
        try:
            form = await handler.deserialize_async(
                _aiter_chunks(body, 'rnd'), content_type, len(body))
            async for part in form:
                out.append((part.name, part.filename, part.content_type,
                            await part.stream.read()))
        except MultipartParseError as ex:
            return out, ex.description
        except falcon.HTTPInvalidHeader as ex:
            return out, 'HTTPInvalidHeader'
        return out, None

    return arun(run())


FIXED = [
    # (body, content type, expected parts, expected error)
    (b'--b--', 'multipart/form-data; boundary=b', [], None),
    (b'--b--\r\n', 'multipart/form-data; boundary=b', [], None),
    (b'junk\r\n--b--\r\ntrailer', 'multipart/form-data; boundary=b', [], None),
    (b'', 'multipart/form-data; boundary=b', [], 'unexpected form structure'),
    (b'--b', 'multipart/form-data; boundary=b', [], 'unexpected form structure'),
    (b'--b-', 'multipart/form-data; boundary=b', [], 'unexpected form structure'),
    (b'--b-x', 'multipart/form-data; boundary=b', [], 'unexpected form structure'),
    (b'--bx\r\n', 'multipart/form-data; boundary=b', [], 'unexpected form structure'),
    (b'--b\r\n', 'multipart/form-data; boundary=b', [], 'incomplete body part headers'),
    (
        b'--b\r\nContent-Disposition: form-data; name="a"\r\n\r\nv\r\n--b--\r\n',
        'multipart/form-data; boundary=b',
        [('a', None, 'text/plain', b'v')],
        None,
    ),
    (
        b'--b\r\nContent-Disposition: form-data; name="a"\r\n\r\nv\r\n--b--\r\n',
        'multipart/form-data; boundary="b"  ',
        [('a', None, 'text/plain', b'v')],
        None,
    ),
    (
        b'--b \r\nContent-Disposition: form-data; name="a"\r\n\r\nv\r\n--b--\r\n',
        'multipart/form-data; boundary=b',
        [],
        'unexpected form structure',
    ),
    (
        b'--b\r\nContent-Disposition: form-data; name="a"\r\n\r\nv\r\n--b-\r\n',
        'multipart/form-data; boundary=b',
        [('a', None, 'text/plain', b'v')],
        'unexpected form structure',
    ),
    (
        b'--b\r\nContent-Disposition: form-data; name="a"\r\n\r\nv\r\n--b',
        'multipart/form-data; boundary=b',
        [('a', None, 'text/plain', b'v')],
        'unexpected form structure',
    ),
    (
        b'--b\r\nContent-Disposition: form-data; name="a"\r\n\r\n--\r\n--b--',
        'multipart/form-data; boundary=b',
        [('a', None, 'text/plain', b'--')],
        None,
    ),
    (
        b'-----\r\nContent-Disposition: form-data; name="a"\r\n\r\n--\r\n-------',
        'multipart/form-data; boundary=---',
        [('a', None, 'text/plain', b'--')],
        None,
    ),
    (
        b'--b\r\ncontent-disposition: form-data; name=a; filename=f.txt\r\n'
        b'CONTENT-TYPE: x/y\r\n\r\n\r\n--b--',
        'multipart/form-data; boundary=b',
        [('a', 'f.txt', 'x/y', b'')],
        None,
    ),
    (
        b'--b\r\nContent-Disposition: form-data; name="a"\r\n'
        b'Content-Transfer-Encoding: base64\r\n\r\ndg==\r\n--b--',
        'multipart/form-data; boundary=b',
        [],
        'the deprecated Content-Transfer-Encoding header field is unsupported',
    ),
    (
        b'--b\r\nContent-Disposition: form-data; name="a"\r\n'
        b'Content-Transfer-Encoding: binary\r\n\r\ndg==\r\n--b--',
        'multipart/form-data; boundary=b',
        [('a', None, 'text/plain', b'dg==')],
        None,
    ),
    (
        b'--b\r\nX-Whatever: 1\r\n\r\ndata\r\n--b--',
        'multipart/form-data; boundary=b',
        [(None, None, 'text/plain', b'data')],
        None,
    ),
    (b'--b--', 'multipart/form-data', [], 'HTTPInvalidHeader'),
    (b'--b--', 'multipart/form-data; boundary=', [], 'HTTPInvalidHeader'),
    (b'--b--', 'multipart/form-data; boundary="   "', [], 'HTTPInvalidHeader'),
    (b'--b--', 'multipart/form-data; boundary=' + 'b' * 71, [], 'HTTPInvalidHeader'),
    (b'--' + b'b' * 70 + b'--', 'multipart/form-data; boundary=' + 'b' * 70, [], None),
    (b'--' + b'b' * 70 + b'--', 'multipart/form-data; boundary="' + 'b' * 70 + '   "', [], None),
]


def section_fixed():
    for body, content_type, parts, error in FIXED:
        for parser in (parse_all_sync, parse_all_async):
            try:
                got = parser(body, content_type)
            except Exception as ex:
                got = ('EXC', repr(ex))
            count('fixed')
            if got != (parts, error):
                fail('fixed', '{}({!r}, {!r}) -> {!r}, expected {!r}'.format(
                    parser.__name__, body, content_type, got, (parts, error)))


def section_bad_headers():
    """Undecodable part headers raise the parse error from each accessor,
    every time, in whatever order the accessors are used."""
    body = (
        b'--b\r\nContent-Disposition: form-data; name="\xff\xfe"; filename="\xff"\r\n'
        b'Content-Type: text/pl\xe4in\r\n\r\nv\r\n'
        b'--b\r\nContent-Disposition: form-data; name="ok"; '
        b"filename*=nonexistent''%41\r\n\r\nw\r\n"
        b'--b\r\nContent-Disposition: form-data; name="ok2"; '
        b"filename*=utf-8''%ff\r\n\r\nx\r\n"
        b'--b\r\nX-None: 1\r\n\r\ny\r\n--b--\r\n'
    )
    expected = [
        {'name': 'ERR', 'filename': 'ERR', 'content_type': 'ERR', 'secure_filename': 'ERR'},
        {'name': 'ok', 'filename': 'ERR', 'content_type': 'text/plain', 'secure_filename': 'ERR'},
        {'name': 'ok2', 'filename': 'ERR', 'content_type': 'text/plain', 'secure_filename': 'ERR'},
        {'name': None, 'filename': None, 'content_type': 'text/plain', 'secure_filename': 'ERR'},
    ]
    orders = [
        ('name', 'filename', 'content_type', 'secure_filename'),
        ('filename', 'name', 'secure_filename', 'content_type'),
        ('secure_filename', 'filename', 'filename', 'name', 'name', 'content_type'),
        ('content_type', 'name', 'name', 'filename', 'secure_filename', 'filename'),
    ]

    def probe(part, index, order):
        for attr in order:
            try:
                value = getattr(part, attr)
            except MultipartParseError:
                value = 'ERR'
            if value != expected[index][attr]:
                fail('bad-headers', 'part {} attr {} -> {!r}, expected {!r} (order {})'.format(
                    index, attr, value, expected[index][attr], order))
            count('bad-headers')

    for order in orders:
        handler = make_handler()
        form = handler.deserialize(io.BytesIO(body), 'multipart/form-data; boundary=b', len(body))
        seen = 0
        for index, part in enumerate(form):
            probe(part, index, order)
            seen += 1
        if seen != 4:
            fail('bad-headers', 'WSGI saw {} parts'.format(seen))

        async def run():
            handler = make_handler()
            form = await handler.deserialize_async(
                _aiter_chunks(body, 'rnd'), 'multipart/form-data; boundary=b', len(body))
            index = 0
            async for part in form:
                probe(part, index, order)
                index += 1
            if index != 4:
                fail('bad-headers', 'ASGI saw {} parts'.format(index))

        arun(run())


def section_options():
    options = MultipartParseOptions()
    count('options')
    if (
        options.default_charset != 'utf-8'
        or options.max_body_part_buffer_size != 1024 * 1024
        or options.max_body_part_count != 64
        or options.max_body_part_headers_size != 8192
    ):
        fail('options', 'unexpected defaults')
    if not isinstance(repr(options), str) or not isinstance(str(options), str):
        fail('options', 'repr/str broken')
    other = MultipartParseOptions()
    if other.media_handlers is options.media_handlers:
        fail('options', 'media handlers shared between instances')
    for name in ('application/json', 'application/x-www-form-urlencoded'):
        if name not in options.media_handlers:
            fail('options', 'missing default handler ' + name)
    try:
        options.no_such_option = 1
    except AttributeError:
        pass
    else:
        fail('options', '__slots__ no longer protect against typos')
    handler = MultipartFormHandler()
    if not isinstance(handler.parse_options, MultipartParseOptions):
        fail('options', 'handler has no default parse options')
    handler2 = MultipartFormHandler(options)
    if handler2.parse_options is not options:
        fail('options', 'handler does not keep the options passed')

    # default charset is honoured
    body = b'--b\r\nContent-Disposition: form-data; name="a"\r\n\r\n\xe9\r\n--b--\r\n'
    for charset, want in (('latin-1', '\xe9'), ('utf-8', 'ERR'), ('cp1251', 'й')):
        handler = make_handler({'default_charset': charset})
        for part in handler.deserialize(io.BytesIO(body), 'multipart/form-data; boundary=b', len(body)):
            try:
                got = part.text
            except MultipartParseError:
                got = 'ERR'
            count('options')
            if got != want:
                fail('options', 'charset {} -> {!r}'.format(charset, got))


# ---------------------------------------------------------------------------
# Section E: end to end through App + simulated requests
# ---------------------------------------------------------------------------


def section_end_to_end(nforms):
    class Resource:
        def on_post(self, req, resp):
            out = []
            for part in req.get_media():
                out.append([part.name, part.filename, part.content_type,
                            part.stream.read().hex()])
            resp.media = out

    class ResourceAsync:
        async def on_post(self, req, resp):
            out = []
            async for part in await req.get_media():
                out.append([part.name, part.filename, part.content_type,
                            (await part.stream.read()).hex()])
            resp.media = out

    app = falcon.App()
    app.add_route('/', Resource())
    aapp = falcon.asgi.App()
    aapp.add_route('/', ResourceAsync())
    client = testing.TestClient(app)
    aclient = testing.TestClient(aapp)

    for index in range(nforms):
        form = Form()
        body = form.body
        want_status = 200
        if index % 4 == 3:
            body = corrupt(body)
            want_status = None
        headers = {'Content-Type': form.content_type}
        res = client.simulate_post('/', body=body, headers=headers)
        ares = aclient.simulate_post('/', body=body, headers=headers)
        count('end-to-end', 2)
        if res.status_code not in (200, 400) or ares.status_code != res.status_code:
            fail('end-to-end', 'status {} / {} for {!r}'.format(
                res.status_code, ares.status_code, body))
            continue
        if want_status and res.status_code != want_status:
            fail('end-to-end', 'status {} for valid {!r}'.format(res.status_code, body))
            continue
        if res.status_code == 200:
            if res.json != ares.json:
                fail('end-to-end', 'WSGI/ASGI disagree for {!r}'.format(body))
            if want_status:
                want = [[p.name, p.filename, p.content_type, p.content.hex()]
                        for p in form.parts]
                if res.json != want:
                    fail('end-to-end', 'wrong parts for {!r}: {!r}'.format(body, res.json))
        else:
            if res.json.get('title') != ares.json.get('title') or 'description' not in res.json:
                fail('end-to-end', 'error documents differ for {!r}'.format(body))


def main():
    limits = ('part-count', 'buffer-size', 'headers-size')

    def scale(name, base):
        if FOCUS == name or (FOCUS == 'limits' and name in limits):
            return base * 3
        return base

    section_fixed()
    section_options()
    section_bad_headers()
    section_valid(scale('valid', 100))
    section_part_count(scale('part-count', 20))
    section_buffer_size(scale('buffer-size', 20))
    section_headers_size(scale('headers-size', 20))
    section_corrupt(scale('corrupt', 300))
    section_end_to_end(scale('end-to-end', 60))
    report()


if __name__ == '__main__':
    main()
